//! The pager state machine and its oracle (DESIGN.md §5 C20).
//!
//! Pager state: (listing, store with n items, limit, cursor). Transition: fetch one page through the
//! real `query` entry point. The sweep visits, for every limit, every key of the store as a cursor
//! (plus "no cursor"), and additionally walks from the beginning with the last returned key as the
//! next cursor until an EMPTY page comes back.
use crate::listings::{query, Built, Key, Listing};
use mc::explore::{Found, RunStats};
use mc::{KnownMatcher, Violation};
use serde_json::{json, Value};
use std::collections::{BTreeMap, BTreeSet};
use std::time::Instant;

pub const MAX_LIMIT: usize = 30;
pub const DEFAULT_LIMIT: usize = 10;

pub const LIMITS: [Option<u32>; 20] = [
    None,
    Some(0),
    Some(1),
    Some(2),
    Some(9),
    Some(10),
    Some(11),
    Some(29),
    Some(30),
    Some(31),
    Some(32),
    Some(100),
    // around the u8 / u16 boundaries (a limit narrowed before it is capped)
    Some(255),
    Some(256),
    Some(257),
    Some(300),
    Some(512),
    Some(65535),
    Some(65536),
    Some(u32::MAX),
];

pub fn limit_json(l: Option<u32>) -> Value {
    match l {
        None => Value::Null,
        Some(x) => json!(x),
    }
}

pub fn case_json(l: &Listing, n: usize, mode: &str, limit: Option<u32>, cursor: Option<&Key>) -> Value {
    case_json_reading(l, n, mode, limit, cursor, false)
}

/// `alt_reading`: the case is judged under the alternative notion of "current item" (see `Built::alt`)
pub fn case_json_reading(l: &Listing, n: usize, mode: &str, limit: Option<u32>, cursor: Option<&Key>, alt_reading: bool) -> Value {
    json!({
        "alt_reading": alt_reading,
        "listing": l.name,
        "n": n,
        "mode": mode,
        "limit": limit_json(limit),
        "cursor": cursor.map(|k| k.json()).unwrap_or(Value::Null),
    })
}

/// the list query message: fixed arguments + cursor (omitted when None) + limit (omitted when None)
pub fn page_msg(l: &Listing, b: &Built, cursor: Option<&Key>, limit: Option<u32>) -> Value {
    let mut m = b.args.clone();
    if let Some(c) = cursor {
        m.insert(l.cursor_field.to_string(), c.json());
    }
    if let Some(x) = limit {
        m.insert("limit".to_string(), json!(x));
    }
    json!({ l.query: Value::Object(m) })
}

pub fn fetch(l: &Listing, b: &Built, cursor: Option<&Key>, limit: Option<u32>) -> Result<Vec<Value>, String> {
    let r = query(&b.w, &b.contract, &page_msg(l, b, cursor, limit))?;
    match r.get(l.items_field) {
        Some(Value::Array(a)) => Ok(a.clone()),
        _ => Err(format!("response has no array field `{}`: {r}", l.items_field)),
    }
}

pub fn key_of(l: &Listing, item: &Value) -> Option<Key> {
    match l.key_field {
        None => Key::from_json(item),
        Some(f) => item.get(f).and_then(Key::from_json),
    }
}

/// drop `null` members of objects (an absent optional field and an explicit null are the same answer)
pub fn norm(v: &Value) -> Value {
    match v {
        Value::Object(m) => Value::Object(m.iter().filter(|(_, x)| !x.is_null()).map(|(k, x)| (k.clone(), norm(x))).collect()),
        Value::Array(a) => Value::Array(a.iter().map(norm).collect()),
        x => x.clone(),
    }
}

/// does a page entry equal the expected entry? For `loose` keys only the fields the expected entry
/// names are compared.
pub fn entry_matches(b: &Built, key: &Key, want: &Value, got: &Value) -> bool {
    if b.loose.contains(key) {
        match (norm(want), norm(got)) {
            (Value::Object(w), Value::Object(g)) => w.iter().all(|(k, v)| g.get(k) == Some(v)),
            (w, g) => w == g,
        }
    } else {
        norm(want) == norm(got)
    }
}

/// the expected items strictly after `cursor` in listing order
pub fn rest_after<'a>(l: &Listing, b: &'a Built, cursor: Option<&Key>) -> &'a [(Key, Value)] {
    match cursor {
        None => &b.expected[..],
        Some(c) => {
            let idx = b
                .expected
                .iter()
                .position(|(k, _)| if l.descending { k < c } else { k > c })
                .unwrap_or(b.expected.len());
            &b.expected[idx..]
        }
    }
}

pub fn effective(limit: Option<u32>) -> usize {
    limit.map(|x| x as usize).unwrap_or(DEFAULT_LIMIT).min(MAX_LIMIT)
}

/// position of each page entry's key in the ascending list of stored keys (-1: not a stored key)
pub fn positions(l: &Listing, b: &Built, page: &[Value]) -> Vec<i64> {
    page.iter()
        .map(|it| match key_of(l, it) {
            Some(k) => b.stored.iter().position(|s| *s == k).map(|p| p as i64).unwrap_or(-1),
            None => -1,
        })
        .collect()
}

fn positions_of_keys(b: &Built, keys: &[(Key, Value)]) -> Vec<i64> {
    keys.iter().map(|(k, _)| b.stored.iter().position(|s| s == k).map(|p| p as i64).unwrap_or(-1)).collect()
}

struct Shown<'a> {
    l: &'a Listing,
    b: &'a Built,
    page: &'a [Value],
    want: &'a [(Key, Value)],
}

impl std::fmt::Display for Shown<'_> {
    fn fmt(&self, f: &mut std::fmt::Formatter) -> std::fmt::Result {
        write!(
            f,
            "returned keys (positions in key order) {:?}, expected {:?}",
            positions(self.l, self.b, self.page),
            positions_of_keys(self.b, self.want)
        )
    }
}

pub struct PageOut {
    pub page: Result<Vec<Value>, String>,
    pub expected: Vec<Value>,
    pub viols: Vec<Violation>,
    /// page shorter than the page size although more items follow (tolerated for filtered listings if not empty)
    pub short_nonfinal: bool,
}

/// Fetch one page and compare it with the oracle.
pub fn check_page(l: &Listing, b: &Built, n: usize, limit: Option<u32>, cursor: Option<&Key>) -> PageOut {
    let rest = rest_after(l, b, cursor);
    let eff = effective(limit);
    let want: Vec<Value> = rest.iter().take(eff).map(|(_, v)| v.clone()).collect();
    let ctx = format!(
        "{} n={} limit={} cursor={}",
        l.name,
        n,
        limit.map(|x| x.to_string()).unwrap_or_else(|| "absent".into()),
        cursor
            .map(|k| format!("key#{}", b.stored.iter().position(|s| s == k).map(|p| p as i64).unwrap_or(-1)))
            .unwrap_or_else(|| "none".into())
    );
    let mut viols = vec![];
    let page = match fetch(l, b, cursor, limit) {
        Ok(p) => p,
        Err(e) => {
            viols.push(Violation::new("C20.list_query_fails", format!("{ctx}: the list query failed: {e}")));
            return PageOut { page: Err(e), expected: want, viols, short_nonfinal: false };
        }
    };
    // only evaluated when a violation is described
    let shown = Shown { l, b, page: &page, want: &rest[..rest.len().min(eff)] };
    if let Some(x) = limit {
        if page.len() > x as usize {
            viols.push(Violation::new(
                "C20.page_exceeds_requested_limit",
                format!("{ctx}: page of {} entries exceeds the requested limit {x}; {shown}", page.len()),
            ));
        }
    }
    if page.len() > MAX_LIMIT {
        viols.push(Violation::new(
            "C20.page_exceeds_max_30",
            format!("{ctx}: page of {} entries exceeds the maximum of 30; {shown}", page.len()),
        ));
    }
    if limit.is_none() && page.len() > DEFAULT_LIMIT {
        viols.push(Violation::new(
            "C20.default_page_size",
            format!("{ctx}: page of {} entries without a limit, the default page size is 10; {shown}", page.len()),
        ));
    }
    // the page must be the run of current items that directly follows the cursor, in key order,
    // each entry equal to what the point query answers for that key
    let mut content_ok = true;
    for (i, it) in page.iter().enumerate() {
        let ok = i < rest.len() && entry_matches(b, &rest[i].0, &rest[i].1, it);
        if !ok {
            content_ok = false;
            let what = match key_of(l, it) {
                None => "an entry without a key".to_string(),
                Some(k) => {
                    if cursor == Some(&k) {
                        "the cursor itself is returned again (cursor treated inclusively)".to_string()
                    } else if i < rest.len() && rest[i].0 == k {
                        format!("entry {i} differs from the point query: listed {it}, point query {}", rest[i].1)
                    } else if rest.iter().any(|(rk, _)| *rk == k) {
                        format!("entry {i} is out of order or items before it were skipped")
                    } else if b.expected.iter().any(|(ek, _)| *ek == k) {
                        format!("entry {i} lies before the cursor")
                    } else if b.stored.iter().any(|s| *s == k) {
                        format!("entry {i} is a stored entry that is not a current item (filtered/expired)")
                    } else {
                        format!("entry {i} has a key that is not in the listing's key set: {}", k.json())
                    }
                }
            };
            viols.push(Violation::new("C20.page_items", format!("{ctx}: {what}; {shown}")));
            break;
        }
    }
    let mut short_nonfinal = false;
    if content_ok && page.len() < want.len() {
        // fewer entries than the page size although more current items follow
        short_nonfinal = true;
        if page.is_empty() {
            viols.push(Violation::new(
                "C20.empty_page_before_end",
                format!("{ctx}: empty page although {} current items follow the cursor (a walk ends here and misses them); {shown}", rest.len()),
            ));
        } else if b.filtered {
            // a filtered listing may legitimately return a short page; counted and reported as information
        } else if limit.is_none() {
            viols.push(Violation::new(
                "C20.default_page_size",
                format!("{ctx}: page of {} entries without a limit although {} items follow, the default page size is 10; {shown}", page.len(), rest.len()),
            ));
        } else {
            viols.push(Violation::new(
                "C20.page_short_before_end",
                format!("{ctx}: page of {} entries, page size {} and {} items follow; {shown}", page.len(), eff, rest.len()),
            ));
        }
    }
    PageOut { page: Ok(page), expected: want, viols, short_nonfinal }
}

pub struct WalkOut {
    pub pages: Vec<Vec<Value>>,
    /// (cursor used, for the state count)
    pub cursors: Vec<Option<Key>>,
    pub viols: Vec<Violation>,
}

/// Walk from the beginning with the last returned key as next cursor until an empty page.
pub fn check_walk(l: &Listing, b: &Built, n: usize, limit: Option<u32>) -> WalkOut {
    let ctx = format!("{} n={} limit={} walk", l.name, n, limit.map(|x| x.to_string()).unwrap_or_else(|| "absent".into()));
    let mut out = WalkOut { pages: vec![], cursors: vec![], viols: vec![] };
    let mut cursor: Option<Key> = None;
    let mut collected: Vec<Value> = vec![];
    let max_pages = b.stored.len() + 3;
    let eff_req = limit.map(|x| x as usize);
    loop {
        out.cursors.push(cursor.clone());
        let page = match fetch(l, b, cursor.as_ref(), limit) {
            Ok(p) => p,
            Err(e) => {
                out.viols.push(Violation::new("C20.list_query_fails", format!("{ctx}: page {} failed: {e}", out.pages.len())));
                return out;
            }
        };
        if let Some(x) = eff_req {
            if page.len() > x {
                out.viols.push(Violation::new(
                    "C20.page_exceeds_requested_limit",
                    format!("{ctx}: page {} has {} entries, requested limit {x}", out.pages.len(), page.len()),
                ));
            }
        }
        if page.len() > MAX_LIMIT {
            out.viols.push(Violation::new(
                "C20.page_exceeds_max_30",
                format!("{ctx}: page {} has {} entries, the maximum is 30", out.pages.len(), page.len()),
            ));
        }
        let last = page.last().cloned();
        collected.extend(page.iter().cloned());
        out.pages.push(page);
        match last {
            None => break,
            Some(it) => match key_of(l, &it) {
                Some(k) => cursor = Some(k),
                None => {
                    out.viols.push(Violation::new("C20.walk_incomplete", format!("{ctx}: last entry of page {} has no key: {it}", out.pages.len() - 1)));
                    return out;
                }
            },
        }
        if out.pages.len() > max_pages {
            out.viols.push(Violation::new(
                "C20.walk_incomplete",
                format!("{ctx}: the walk did not terminate within {} pages over {} stored entries", max_pages, b.stored.len()),
            ));
            return out;
        }
    }
    let lens: Vec<usize> = out.pages.iter().map(|p| p.len()).collect();
    if limit == Some(0) {
        // the only promise for limit 0: no page exceeds the requested limit (checked above)
        return out;
    }
    // completeness and order are about keys; the contents of every entry are compared with the
    // point queries in the per-page sweep
    let gp = positions(l, b, &collected);
    let wp = positions_of_keys(b, &b.expected);
    if gp != wp {
        let missing: Vec<i64> = wp.iter().filter(|p| !gp.contains(p)).cloned().collect();
        let mut seen = BTreeSet::new();
        let dup: Vec<i64> = gp.iter().filter(|p| !seen.insert(**p)).cloned().collect();
        let alien: Vec<i64> = gp.iter().filter(|p| !wp.contains(p)).cloned().collect();
        out.viols.push(Violation::new(
            "C20.walk_incomplete",
            format!(
                "{ctx}: the walk (page lengths {lens:?}) returned {} entries for {} current items; missing positions {missing:?}, repeated positions {dup:?}, entries that are not current items {alien:?}; returned {gp:?}, expected {wp:?}",
                gp.len(),
                wp.len()
            ),
        ));
    }
    out
}

#[derive(Default, Clone, Debug)]
pub struct Info {
    pub listing: String,
    pub n: usize,
    pub stored: usize,
    pub current: usize,
    pub states: u64,
    pub fetches: u64,
    pub short_nonfinal_pages: u64,
    pub entries_compared: u64,
    pub point_queries: u64,
    pub build_calls: u64,
    pub longest_walk_pages: usize,
    /// judged under the alternative notion of "current item" (the listing omits the entries in question)
    pub alt_reading: bool,
}

/// every key the listing returns when walked with the maximum page size
pub fn listed_keys(l: &Listing, b: &Built) -> BTreeSet<Key> {
    let mut out = BTreeSet::new();
    let mut cursor: Option<Key> = None;
    for _ in 0..b.stored.len() + 3 {
        let page = fetch(l, b, cursor.as_ref(), Some(MAX_LIMIT as u32)).unwrap_or_default();
        let keys: Vec<Key> = page.iter().filter_map(|it| key_of(l, it)).collect();
        match keys.last() {
            None => break,
            Some(k) => cursor = Some(k.clone()),
        }
        out.extend(keys);
    }
    out
}

/// Which reading of "current item" does the listing follow? It shows an entry only the first reading
/// calls an item => first; it shows an entry only the alternative calls an item => alternative; it
/// shows neither kind => the narrower reading.
pub fn follows_alt_reading(l: &Listing, b: &Built, alt: &Built) -> bool {
    let first: BTreeSet<&Key> = b.expected.iter().map(|(k, _)| k).collect();
    let second: BTreeSet<&Key> = alt.expected.iter().map(|(k, _)| k).collect();
    let listed = listed_keys(l, b);
    if listed.iter().any(|k| first.contains(k) && !second.contains(k)) {
        return false;
    }
    if listed.iter().any(|k| second.contains(k) && !first.contains(k)) {
        return true;
    }
    // nothing distinguishing is listed: the reading without such entries
    first.iter().any(|k| !second.contains(*k))
}

/// For stores with two listings over the same data: both must follow the same reading.
pub fn check_sibling(l: &Listing, n: usize, b: &Built) -> Option<Violation> {
    let alt = b.alternative()?;
    let sibling = b.sibling_lists_optional?;
    // the entries whose status as an item the property leaves open (zero-amount allowances):
    // those on which the two readings differ
    let first: BTreeSet<&Key> = b.expected.iter().map(|(k, _)| k).collect();
    let second: BTreeSet<&Key> = alt.expected.iter().map(|(k, _)| k).collect();
    let listed = listed_keys(l, b);
    let mine = listed.iter().any(|k| first.contains(k) != second.contains(k));
    if mine != sibling {
        let say = |x: bool| if x { "lists zero-amount (revoked / used-up) pairs" } else { "does not list zero-amount (revoked / used-up) pairs" };
        return Some(Violation::new(
            "C20.listings_disagree_on_items",
            format!("{} n={}: this listing {}, the other listing over the same store {}", l.name, n, say(mine), say(sibling)),
        ));
    }
    None
}

/// Enumerate the whole pager state space of one (listing, n) configuration.
pub fn sweep(l: &Listing, n: usize, known: &dyn KnownMatcher) -> Result<(RunStats, Info), String> {
    let config = format!("{}/n={}", l.name, n);
    let b = l.build(n).map_err(|e| format!("{config}: {e}"))?;
    let mut res = sweep_built(l, n, &b, false, known);
    // The store admits a second reading of "current item": if the first one does not hold, judge the
    // listing under the reading it follows.
    if !res.0.found.iter().all(|f| f.known.is_some()) {
        if let Some(alt) = b.alternative() {
            if follows_alt_reading(l, &b, &alt) {
                let first = res;
                res = sweep_built(l, n, &alt, true, known);
                res.0.transitions += first.0.transitions;
                res.1.fetches += first.1.fetches;
                res.1.alt_reading = true;
            }
        }
    }
    if let Some(v) = check_sibling(l, n, &b) {
        if known.matches(&v).is_none() {
            res.0.found.push(Found {
                config: config.clone(),
                clause: v.clause,
                detail: v.detail,
                tags: v.tags,
                trace: vec![case_json_reading(l, n, "readings", None, None, false)],
                known: None,
            });
        }
    }
    Ok(res)
}

fn sweep_built(l: &Listing, n: usize, b: &Built, alt_reading: bool, known: &dyn KnownMatcher) -> (RunStats, Info) {
    let t0 = Instant::now();
    let config = format!("{}/n={}", l.name, n);
    let mut st = RunStats { config: config.clone(), ..Default::default() };
    let mut info = Info {
        listing: l.name.to_string(),
        n,
        stored: b.stored.len(),
        current: b.expected.len(),
        point_queries: b.point_queries,
        build_calls: b.build_calls,
        ..Default::default()
    };
    let mut states: BTreeSet<(usize, Option<Key>)> = BTreeSet::new();
    let mut seen_clauses: BTreeSet<String> = BTreeSet::new();
    let mut labels: BTreeMap<String, (u64, u64)> = BTreeMap::new();
    labels.insert("point_query".into(), (b.point_queries, 0));
    labels.insert("build_call".into(), (b.build_calls, 0));
    let mut record = |st: &mut RunStats, v: Violation, case: Value| {
        if let Some(desc) = known.matches(&v) {
            let c = st.known_hits.entry(desc.clone()).or_insert(0);
            *c += 1;
            if *c == 1 {
                st.found.push(Found { config: config.clone(), clause: v.clause, detail: v.detail, tags: v.tags, trace: vec![case], known: Some(desc) });
            }
            return;
        }
        if seen_clauses.insert(v.clause.clone()) {
            st.found.push(Found { config: config.clone(), clause: v.clause, detail: v.detail, tags: v.tags, trace: vec![case], known: None });
        }
    };
    // cursors: none, then every stored key (for filtered listings this includes filtered entries:
    // a key returned by an earlier page may have expired since)
    let mut cursors: Vec<Option<Key>> = vec![None];
    cursors.extend(b.stored.iter().cloned().map(Some));
    for (li, limit) in LIMITS.iter().enumerate() {
        for c in &cursors {
            let out = check_page(l, b, n, *limit, c.as_ref());
            states.insert((li, c.clone()));
            info.fetches += 1;
            let e = labels.entry("page_at_cursor".into()).or_insert((0, 0));
            match &out.page {
                Ok(p) => {
                    e.0 += 1;
                    info.entries_compared += p.len() as u64;
                }
                Err(_) => e.1 += 1,
            }
            if out.short_nonfinal {
                info.short_nonfinal_pages += 1;
            }
            for v in out.viols {
                record(&mut st, v, case_json_reading(l, n, "page", *limit, c.as_ref(), alt_reading));
            }
        }
        // the default page size is 10: without a limit the answer is the answer for limit 10
        if limit.is_none() {
            for c in &cursors {
                let a = fetch(l, b, c.as_ref(), None);
                let t = fetch(l, b, c.as_ref(), Some(10));
                info.fetches += 2;
                let e = labels.entry("default_vs_limit_10".into()).or_insert((0, 0));
                if a.is_ok() && t.is_ok() {
                    e.0 += 1
                } else {
                    e.1 += 1
                }
                if let (Ok(a), Ok(t)) = (a, t) {
                    if a != t {
                        record(
                            &mut st,
                            Violation::new(
                                "C20.default_page_size",
                                format!(
                                    "{config} cursor={}: the page without a limit ({} entries) differs from the page with limit 10 ({} entries)",
                                    c.as_ref().map(|k| k.json().to_string()).unwrap_or_else(|| "none".into()),
                                    a.len(),
                                    t.len()
                                ),
                            ),
                            case_json_reading(l, n, "page", None, c.as_ref(), alt_reading),
                        );
                    }
                }
            }
        }
        let w = check_walk(l, b, n, *limit);
        info.fetches += w.cursors.len() as u64;
        info.longest_walk_pages = info.longest_walk_pages.max(w.pages.len());
        let e = labels.entry("walk_page".into()).or_insert((0, 0));
        e.0 += w.pages.len() as u64;
        e.1 += (w.cursors.len() - w.pages.len()) as u64;
        for c in &w.cursors {
            states.insert((li, c.clone()));
        }
        if limit.is_none() {
            st.samples.push(vec![json!({
                "case": case_json(l, n, "walk", None, None),
                "page_lengths": w.pages.iter().map(|p| p.len()).collect::<Vec<_>>(),
                "current_items": b.expected.len(),
                "stored_entries": b.stored.len(),
            })]);
        }
        for v in w.viols {
            record(&mut st, v, case_json_reading(l, n, "walk", *limit, None, alt_reading));
        }
    }
    info.states = states.len() as u64;
    st.states = info.states;
    st.transitions = info.fetches;
    st.depth_completed = info.longest_walk_pages;
    st.fixpoint = true;
    st.labels = labels;
    st.wall_s = t0.elapsed().as_secs_f64();
    (st, info)
}
