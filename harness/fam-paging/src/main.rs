fn main() {
    eprintln!("fam-paging: not built yet");
    std::process::exit(2);
}
