//! C20 — every list query of every contract paginates completely.
//! An exhaustive sweep of the pager state machine (listing × store size × limit × cursor) over the
//! real `query` entry points; see `pager.rs` (oracle) and `listings.rs` (stores).
mod listings;
mod pager;

use listings::{find_listing, listings, Key, Listing};
use mc::report::load_replay;
use mc::{Known, Report, RunStats};
use pager::{check_page, check_walk, limit_json, positions, sweep, Info, LIMITS};
use rayon::prelude::*;
use serde_json::{json, Value};
use std::collections::BTreeMap;

const QUICK_SIZES: [usize; 14] = [0, 1, 2, 9, 10, 11, 29, 30, 31, 35, 59, 60, 61, 64];

fn sizes(thorough: bool) -> Vec<usize> {
    if thorough {
        // every size up to past two full maximum pages, and the third / fourth page boundary
        let mut v: Vec<usize> = (0..=66).collect();
        v.extend([89, 90, 91, 100, 121]);
        v
    } else {
        QUICK_SIZES.to_vec()
    }
}

fn run(prop: &str, tier: &str) -> i32 {
    if prop != "C20" {
        eprintln!("fam-paging does not serve {prop}");
        return 2;
    }
    let thorough = tier == "thorough";
    let known = Known::load(prop);
    let mut rep = Report::new(prop, tier, "paging");
    let ls = listings();
    let ns = sizes(thorough);
    let mut skipped: Vec<String> = vec![];
    let mut jobs: Vec<(&Listing, usize)> = vec![];
    for l in &ls {
        let mut mine = ns.clone();
        if thorough && l.key_field == Some("id") {
            // proposal ids beyond one byte: the order of multi-byte (big-endian) integer keys
            mine.push(260);
        }
        for &n in &mine {
            if n < l.min_n {
                skipped.push(format!("{}/n={} (the contract refuses to be instantiated with no voters)", l.name, n));
            } else {
                jobs.push((l, n));
            }
        }
    }
    // largest stores first: better load balance
    jobs.sort_by_key(|(_, n)| std::cmp::Reverse(*n));
    let results: Vec<Result<(RunStats, Info), String>> = jobs.par_iter().map(|(l, n)| sweep(l, *n, &known)).collect();
    let mut runs = vec![];
    let mut infos = vec![];
    // a store that cannot be built through the real entry points (they all can on the unchanged tree)
    let mut unbuilt: Vec<String> = vec![];
    for r in results {
        match r {
            Ok((st, info)) => {
                runs.push(st);
                infos.push(info);
            }
            Err(e) => unbuilt.push(e),
        }
    }
    unbuilt.sort();
    rep.extra.insert("stores_that_could_not_be_built".into(), json!(unbuilt));
    // stable order in the evidence: by listing (declaration order), then n
    let order: BTreeMap<&str, usize> = ls.iter().enumerate().map(|(i, l)| (l.name, i)).collect();
    let mut idx: Vec<usize> = (0..runs.len()).collect();
    idx.sort_by_key(|&i| (order[infos[i].listing.as_str()], infos[i].n));
    let mut runs: Vec<RunStats> = idx.iter().map(|&i| runs[i].clone()).collect();
    let infos: Vec<Info> = idx.iter().map(|&i| infos[i].clone()).collect();
    // a broken listing fails at most sizes: report each (listing, clause) once, at the smallest size
    // (runs are ordered by size within a listing)
    let mut reported: std::collections::BTreeSet<(String, String)> = Default::default();
    let mut suppressed = 0u64;
    for (r, i) in runs.iter_mut().zip(&infos) {
        r.found.retain(|f| {
            let keep = f.known.is_some() || reported.insert((i.listing.clone(), f.clause.clone()));
            if !keep {
                suppressed += 1;
            }
            keep
        });
    }
    rep.extra.insert("violations_at_larger_sizes_not_listed".into(), json!(suppressed));

    let mut per_listing: Vec<Value> = vec![];
    let mut short_total = 0u64;
    for l in &ls {
        let mine: Vec<&Info> = infos.iter().filter(|i| i.listing == l.name).collect();
        let short: u64 = mine.iter().map(|i| i.short_nonfinal_pages).sum();
        short_total += short;
        per_listing.push(json!({
            "listing": l.name,
            "order": if l.descending { "descending" } else { "ascending" },
            "filtered": l.filtered,
            "sizes": mine.iter().map(|i| i.n).collect::<Vec<_>>(),
            "stored_entries_per_size": mine.iter().map(|i| i.stored).collect::<Vec<_>>(),
            "current_items_per_size": mine.iter().map(|i| i.current).collect::<Vec<_>>(),
            "pager_states": mine.iter().map(|i| i.states).sum::<u64>(),
            "page_fetches": mine.iter().map(|i| i.fetches).sum::<u64>(),
            "page_entries_compared_with_point_queries": mine.iter().map(|i| i.entries_compared).sum::<u64>(),
            "point_queries": mine.iter().map(|i| i.point_queries).sum::<u64>(),
            "entry_point_calls_to_build_stores": mine.iter().map(|i| i.build_calls).sum::<u64>(),
            "longest_walk_pages": mine.iter().map(|i| i.longest_walk_pages).max().unwrap_or(0),
            "short_non_final_pages": short,
            "sizes_judged_under_alternative_reading": mine.iter().filter(|i| i.alt_reading).map(|i| i.n).collect::<Vec<_>>(),
        }));
    }
    rep.extra.insert("listings".into(), json!(per_listing));
    rep.extra.insert("sizes".into(), json!(ns));
    rep.extra.insert("limits".into(), json!(LIMITS.iter().map(|l| limit_json(*l)).collect::<Vec<_>>()));
    rep.extra.insert("sizes_not_constructible".into(), json!(skipped));
    rep.extra.insert(
        "short_non_final_pages".into(),
        json!({
            "total": short_total,
            "note": "pages shorter than min(limit or 10, 30) although more current items follow. For unfiltered listings such a page is a violation; for the filtered listing (cw1-subkeys AllAllowances, which drops expired entries) a short non-empty page would only be reported here, an empty one is a violation (the walk would end early). The real code filters before `take(limit)`, so none occur.",
        }),
    );
    rep.alphabet = "pager states (listing, store of n items, limit, cursor): 45 listing variants (cw20-base AllAccounts (all funded; and with runs of emptied accounts at the start, middle and end of the key order) / AllAllowances / AllSpenderAllowances (AllAllowances also for an owner without a balance record; each also after `migrate` from the pre-0.14 layout with stored cw2 version 0.13.4 / 0.10.3 / 0.10.0-soon4 / 0.9.1 / 0.2.3 - also migrated at a later block at which some allowances have expired -, after full revocations / partial decreases that set a new expiry / re-grants of mutual allowances at the start, middle and end of the key order, and after TransferFrom / BurnFrom / SendFrom draws that use up allowances exactly, in a store that also holds pairs created by a first-time grant of amount 0 without expiry); cw1-subkeys AllAllowances with seven expiry patterns × query blocks (one at a block time with a sub-second part and AtTime expiries inside that second), AllPermissions (also with permission holders that are admins, made admin before or promoted after); cw3-fixed and cw3-flex ListProposals / ReverseProposals / ListVotes (also with a zero-weight proposer, whose stored ballot has weight 0) / ListVoters (cw3-flex ListVotes also after some / all of the voters left the backing group or were re-weighted to 0); cw4-group and cw4-stake ListMembers (removed / unbonded / never-admitted addresses are cursors too); cw20-ics20 ListAllowed); limits {absent, 0, 1, 2, 9, 10, 11, 29, 30, 31, 32, 100, 255, 256, 257, 300, 512, 65535, 65536, 2^32-1}; cursors: none, every stored key as start_after / start_before (for the filtered listing also the keys of expired entries), and the walk from the beginning with the last returned key as next cursor until an empty page".into();
    rep.oracle = "expected listing = the constructed key set sorted by key bytes (numerically for proposal ids, descending for ReverseProposals), each key confirmed by the contract's point query (Balance, Allowance, Permissions, Proposal, Vote, Voter, Member, Allowed); every page must be the run of the next min(limit or 10, 30) expected entries after the cursor (fewer only at the end), each entry equal to the point query's answer; no page exceeds the requested limit, 30, or 10 without a limit; the page without a limit equals the page with limit 10; limit 0 gives an empty page; for every limit >= 1 the walk until an empty page returns every current item exactly once in order and terminates".into();
    rep.bounds = format!(
        "complete enumeration of sizes {:?} × 20 limits × (n+1) cursors + 20 walks per (listing, size){}; stores contain noise entries in neighbouring prefixes/namespaces",
        ns,
        if thorough { "; proposal listings additionally with 260 proposals" } else { "" }
    );
    rep.assumptions = vec![
        "stores are built through the real instantiate/execute entry points; keys are MockApi bech32 addresses (order = byte order of the address strings) or proposal ids".into(),
        "store sizes are bounded by 64 (quick) / 121 (thorough); limits above 2^32-1 cannot be expressed (u32)".into(),
        "cursors are keys of the store (what a previous page can return); arbitrary strings as cursors are not explored".into(),
        "cw3-flex ListVoters / Voter are answered by a real cw4-group through the kernel's smart and raw queries".into(),
        "cw20-base AllAccounts over emptied accounts (balance transferred away, entry of 0 remains): the property does not say whether such an account is still an item; the unchanged code lists them, and the check accepts either reading (all stored accounts, or funded accounts only) provided the listing follows it completely for every limit and cursor".into(),
        "cw20 allowance listings after revocations: the property does not fix whether a fully decreased allowance (point query reads 0) is still an item. Two readings are accepted - it is not listed (the unchanged code), or it is listed with amount exactly 0 (any expiry) - provided all pages and both the owner and the spender listing of the store follow the same reading; a revoked pair listed with a non-zero amount is a violation, and every pair whose point query is non-zero must be listed once with that amount. The migrated stores are produced by wiping the `allowance_spender` namespace, setting cw2 version 0.13.4 and running the real migrate".into(),
        "cw20 allowance listings after draws to exactly zero: the unchanged code keeps the used-up pair as a zero entry in both maps; it may be listed (with what the point query reports) or not, but the owner and the spender listing of the store must agree".into(),
        "cw3-fixed ListVoters with 0 voters is not constructible (instantiate refuses); cw20-ics20 ListChannels has no paging and is not covered".into(),
    ];
    rep.runs = runs;
    let code = rep.finish();
    if !unbuilt.is_empty() {
        for e in &unbuilt {
            eprintln!("machinery error: cannot build the store (instantiate/execute of the contracts under test failed, so this configuration has no verdict): {e}");
        }
        if code == 0 {
            return 2;
        }
    }
    code
}

fn parse_case(v: &Value) -> Result<(Listing, usize, String, Option<u32>, Option<Key>), String> {
    let name = v["listing"].as_str().ok_or("case without listing")?;
    let l = find_listing(name).ok_or_else(|| format!("unknown listing {name}"))?;
    let n = v["n"].as_u64().ok_or("case without n")? as usize;
    let mode = v["mode"].as_str().unwrap_or("page").to_string();
    let limit = match &v["limit"] {
        Value::Null => None,
        x => Some(x.as_u64().ok_or("bad limit")? as u32),
    };
    let cursor = match &v["cursor"] {
        Value::Null => None,
        x => Some(Key::from_json(x).ok_or("bad cursor")?),
    };
    Ok((l, n, mode, limit, cursor))
}

/// re-run one recorded case on a freshly built store; returns (printed lines, violated clauses)
fn replay_once(case: &Value) -> Result<(Vec<String>, Vec<(String, String)>), String> {
    let (l, n, mode, limit, cursor) = parse_case(case)?;
    let mut b = l.build(n)?;
    if case["alt_reading"] == json!(true) {
        let alt = b.alternative().ok_or("case refers to an alternative reading the store does not have")?;
        // judged under the reading the listing follows now (as the sweep does)
        if pager::follows_alt_reading(&l, &b, &alt) {
            b = alt;
        }
    }
    if mode == "readings" {
        let lines = vec![format!(
            "store: {} n={}: the other listing over the same store {} zero-amount (revoked / used-up) pairs",
            l.name,
            n,
            match b.sibling_lists_optional {
                Some(true) => "lists",
                Some(false) => "does not list",
                None => "has no",
            }
        )];
        let viols = pager::check_sibling(&l, n, &b).map(|v| (v.clause, v.detail)).into_iter().collect();
        return Ok((lines, viols));
    }
    let mut lines = vec![format!(
        "store: {} with {} stored entries, {} current items (built with {} entry-point calls, {} point queries)",
        l.name,
        b.stored.len(),
        b.expected.len(),
        b.build_calls,
        b.point_queries
    )];
    let mut viols = vec![];
    if mode == "walk" {
        let w = check_walk(&l, &b, n, limit);
        for (i, p) in w.pages.iter().enumerate() {
            lines.push(format!(
                "walk page {i}: cursor={} -> {} entries, keys at positions {:?}",
                w.cursors[i].as_ref().map(|k| k.json().to_string()).unwrap_or_else(|| "none".into()),
                p.len(),
                positions(&l, &b, p)
            ));
        }
        lines.push(format!("expected: every one of the {} current items exactly once, in key order", b.expected.len()));
        for v in w.viols {
            viols.push((v.clause, v.detail));
        }
    } else {
        let out = check_page(&l, &b, n, limit, cursor.as_ref());
        lines.push(format!("query: {}", pager::page_msg(&l, &b, cursor.as_ref(), limit)));
        match &out.page {
            Ok(p) => {
                lines.push(format!("page obtained ({} entries): {}", p.len(), Value::Array(p.clone())));
            }
            Err(e) => lines.push(format!("page obtained: query failed: {e}")),
        }
        lines.push(format!("page expected ({} entries): {}", out.expected.len(), Value::Array(out.expected.clone())));
        for v in out.viols {
            viols.push((v.clause, v.detail));
        }
        if limit.is_none() {
            let a = pager::fetch(&l, &b, cursor.as_ref(), None);
            let t = pager::fetch(&l, &b, cursor.as_ref(), Some(10));
            if let (Ok(a), Ok(t)) = (a, t) {
                if a != t {
                    viols.push((
                        "C20.default_page_size".to_string(),
                        format!("the page without a limit ({} entries) differs from the page with limit 10 ({} entries)", a.len(), t.len()),
                    ));
                }
            }
        }
    }
    Ok((lines, viols))
}

fn replay(path: &str) -> i32 {
    let rf = load_replay(path);
    if rf.model != "paging" || rf.actions.len() != 1 {
        eprintln!("machinery error: {path} is not a paging replay file");
        return 2;
    }
    let a = replay_once(&rf.actions[0]);
    let b = replay_once(&rf.actions[0]);
    let (a, b) = match (a, b) {
        (Ok(a), Ok(b)) => (a, b),
        (Err(e), _) | (_, Err(e)) => {
            eprintln!("machinery error: {e}");
            return 2;
        }
    };
    if a != b {
        eprintln!("machinery error: replay is not deterministic");
        return 2;
    }
    println!("case: {}", rf.actions[0]);
    for l in &a.0 {
        println!("{l}");
    }
    let mut hit = false;
    for (c, d) in &a.1 {
        println!("    VIOLATED clause={c} {d}");
        if *c == rf.clause {
            hit = true;
        }
    }
    if hit {
        println!("VIOLATION property={} replay=(replayed) clause={}", rf.property, rf.clause);
        1
    } else {
        println!("replay: clause {} did not fail", rf.clause);
        0
    }
}

fn main() {
    mc::world::silence_panics();
    let a = mc::parse_args();
    let code = if a.cmd == "replay" {
        replay(a.path.as_deref().unwrap_or(""))
    } else {
        run(&a.cmd, &a.tier)
    };
    std::process::exit(code);
}
