//! The listings under test (C20) and the stores they are evaluated on.
//!
//! Every store is built through the real `instantiate` / `execute` entry points with `n` items
//! (plus "noise" entries in neighbouring key prefixes / namespaces that must never leak into a
//! page). The expected listing is the *known* key set (we created it), sorted by the byte order of
//! the keys (numeric order for proposal ids), each key confirmed by the contract's own point query,
//! whose answer is also the expected content of the page entry.
use mc::world::{addr_cached, ContractVt, World};
use serde_json::{json, Map, Value};
use std::sync::OnceLock;

pub const H0: u64 = 10;
pub const T0: u64 = 1000;

/// A listing key: an address string or a proposal id.
#[derive(Clone, Debug, PartialEq, Eq, PartialOrd, Ord, Hash)]
pub enum Key {
    N(u64),
    S(String),
}

impl Key {
    pub fn json(&self) -> Value {
        match self {
            Key::N(n) => json!(n),
            Key::S(s) => json!(s),
        }
    }
    pub fn from_json(v: &Value) -> Option<Key> {
        match v {
            Value::Number(n) => n.as_u64().map(Key::N),
            Value::String(s) => Some(Key::S(s.clone())),
            _ => None,
        }
    }
}

#[derive(Clone, Copy, Debug, PartialEq, Eq)]
pub enum Kind {
    Cw20Accounts,
    /// AllAccounts over a store in which runs of accounts (start, middle, end of the key order) were emptied
    Cw20AccountsEmptied,
    Cw20OwnerAllowances,
    /// AllAllowances of an owner that never held tokens (no balance record), but granted allowances
    Cw20OwnerAllowancesNoBalance,
    Cw20SpenderAllowances,
    /// the allowance listings after `migrate` from the pre-0.14 layout (no per-spender index)
    Cw20Migrated { by_spender: bool },
    /// same, starting from another stored cw2 version
    Cw20MigratedFrom { by_spender: bool, from: &'static str },
    /// same, but migrated at a later block at which some AtHeight / AtTime allowances have expired
    Cw20MigratedLate { by_spender: bool },
    /// the allowance listings after a subset of mutual grants was fully revoked (and some re-granted)
    Cw20Revoked { by_spender: bool },
    /// the allowance listings after some mutual allowances were used up exactly by *From draws
    Cw20Drawn { by_spender: bool },
    /// cw1-subkeys AllAllowances; pattern of expiring entries and the block of the query
    Cw1Allowances(ExpPattern, At),
    Cw1Permissions,
    /// AllPermissions where some permission holders are also admins of the proxy
    Cw1PermissionsAdmins,
    FixedProposals { reverse: bool },
    FixedVotes,
    /// ListVotes where the proposer is a member of weight 0: its stored Yes ballot has weight 0
    FixedVotesZeroProposer,
    FlexVotesZeroProposer,
    FixedVoters,
    FlexProposals { reverse: bool },
    FlexVotes,
    /// ListVotes after some (false) / all (true) of the voters who cast ballots left the backing cw4-group
    FlexVotesLeft { all: bool },
    FlexVoters,
    GroupMembers,
    StakeMembers,
    Ics20Allowed,
}

/// which of the stored subkey allowances carry an expiry (by position in key order)
#[derive(Clone, Copy, Debug, PartialEq, Eq)]
pub enum ExpPattern {
    /// positions p%4 in {1,2} expire at height H0+5, p%5==3 expire at time T0+50, the rest never
    Mix,
    /// the first half (in key order) expires at height H0+5
    Head,
    /// the second half (in key order) expires at height H0+5
    Tail,
    /// every entry expires at height H0+5
    All,
    /// AtTime expiries around a block time with a sub-second part (T0+50.5 s): earlier in the same
    /// second, exactly at the block time, later in the same second, in later seconds
    SubSecond,
}

/// block at which the queries run
#[derive(Clone, Copy, Debug, PartialEq, Eq)]
pub enum At {
    /// (H0, T0): nothing expired yet
    Before,
    /// (H0+5, T0+25): height expiries reached, time expiries not
    Mid,
    /// (H0+12, T0+60): all expiries reached
    After,
    /// (H0+3, T0+50.5 s): a block time with a non-zero sub-second part
    SubSecond,
}

pub struct Listing {
    pub name: &'static str,
    pub kind: Kind,
    /// name of the query variant (snake case), e.g. "all_accounts"
    pub query: &'static str,
    /// field of the response that holds the page
    pub items_field: &'static str,
    /// field of a page entry that is the key (None: the entry itself is the key)
    pub key_field: Option<&'static str>,
    /// "start_after" or "start_before"
    pub cursor_field: &'static str,
    pub descending: bool,
    /// the listing filters stored entries (expired subkey allowances)
    pub filtered: bool,
    /// smallest constructible size
    pub min_n: usize,
}

pub fn listings() -> Vec<Listing> {
    use Kind::*;
    let l = |name, kind, query, items_field, key_field, cursor_field, descending, filtered, min_n| Listing {
        name,
        kind,
        query,
        items_field,
        key_field,
        cursor_field,
        descending,
        filtered,
        min_n,
    };
    vec![
        l("cw20-base/AllAccounts", Cw20Accounts, "all_accounts", "accounts", None, "start_after", false, false, 0),
        l("cw20-base/AllAccounts[emptied-runs]", Cw20AccountsEmptied, "all_accounts", "accounts", None, "start_after", false, false, 0),
        l("cw20-base/AllAllowances", Cw20OwnerAllowances, "all_allowances", "allowances", Some("spender"), "start_after", false, false, 0),
        l("cw20-base/AllAllowances[owner-without-balance-record]", Cw20OwnerAllowancesNoBalance, "all_allowances", "allowances", Some("spender"), "start_after", false, false, 0),
        l("cw20-base/AllSpenderAllowances", Cw20SpenderAllowances, "all_spender_allowances", "allowances", Some("owner"), "start_after", false, false, 0),
        l("cw20-base/AllAllowances[after-migration-from-0.13]", Cw20Migrated { by_spender: false }, "all_allowances", "allowances", Some("spender"), "start_after", false, false, 0),
        l("cw20-base/AllSpenderAllowances[after-migration-from-0.13]", Cw20Migrated { by_spender: true }, "all_spender_allowances", "allowances", Some("owner"), "start_after", false, false, 0),
        l("cw20-base/AllAllowances[after-migration-from-0.10.3]", Cw20MigratedFrom { by_spender: false, from: "0.10.3" }, "all_allowances", "allowances", Some("spender"), "start_after", false, false, 0),
        l("cw20-base/AllSpenderAllowances[after-migration-from-0.10.3]", Cw20MigratedFrom { by_spender: true, from: "0.10.3" }, "all_spender_allowances", "allowances", Some("owner"), "start_after", false, false, 0),
        l("cw20-base/AllAllowances[after-migration-from-0.10.0-soon4]", Cw20MigratedFrom { by_spender: false, from: "0.10.0-soon4" }, "all_allowances", "allowances", Some("spender"), "start_after", false, false, 0),
        l("cw20-base/AllSpenderAllowances[after-migration-from-0.10.0-soon4]", Cw20MigratedFrom { by_spender: true, from: "0.10.0-soon4" }, "all_spender_allowances", "allowances", Some("owner"), "start_after", false, false, 0),
        l("cw20-base/AllAllowances[after-migration-from-0.9.1]", Cw20MigratedFrom { by_spender: false, from: "0.9.1" }, "all_allowances", "allowances", Some("spender"), "start_after", false, false, 0),
        l("cw20-base/AllSpenderAllowances[after-migration-from-0.9.1]", Cw20MigratedFrom { by_spender: true, from: "0.9.1" }, "all_spender_allowances", "allowances", Some("owner"), "start_after", false, false, 0),
        l("cw20-base/AllAllowances[after-migration-from-0.2.3]", Cw20MigratedFrom { by_spender: false, from: "0.2.3" }, "all_allowances", "allowances", Some("spender"), "start_after", false, false, 0),
        l("cw20-base/AllSpenderAllowances[after-migration-from-0.2.3]", Cw20MigratedFrom { by_spender: true, from: "0.2.3" }, "all_spender_allowances", "allowances", Some("owner"), "start_after", false, false, 0),
        l("cw20-base/AllAllowances[after-late-migration-with-expired-allowances]", Cw20MigratedLate { by_spender: false }, "all_allowances", "allowances", Some("spender"), "start_after", false, false, 0),
        l("cw20-base/AllSpenderAllowances[after-late-migration-with-expired-allowances]", Cw20MigratedLate { by_spender: true }, "all_spender_allowances", "allowances", Some("owner"), "start_after", false, false, 0),
        l("cw20-base/AllAllowances[after-revocations]", Cw20Revoked { by_spender: false }, "all_allowances", "allowances", Some("spender"), "start_after", false, false, 0),
        l("cw20-base/AllSpenderAllowances[after-revocations]", Cw20Revoked { by_spender: true }, "all_spender_allowances", "allowances", Some("owner"), "start_after", false, false, 0),
        l("cw20-base/AllAllowances[after-draws-to-zero]", Cw20Drawn { by_spender: false }, "all_allowances", "allowances", Some("spender"), "start_after", false, false, 0),
        l("cw20-base/AllSpenderAllowances[after-draws-to-zero]", Cw20Drawn { by_spender: true }, "all_spender_allowances", "allowances", Some("owner"), "start_after", false, false, 0),
        l("cw1-subkeys/AllAllowances[mix@before-expiry]", Cw1Allowances(ExpPattern::Mix, At::Before), "all_allowances", "allowances", Some("spender"), "start_after", false, true, 0),
        l("cw1-subkeys/AllAllowances[mix@height-expired]", Cw1Allowances(ExpPattern::Mix, At::Mid), "all_allowances", "allowances", Some("spender"), "start_after", false, true, 0),
        l("cw1-subkeys/AllAllowances[mix@all-expired]", Cw1Allowances(ExpPattern::Mix, At::After), "all_allowances", "allowances", Some("spender"), "start_after", false, true, 0),
        l("cw1-subkeys/AllAllowances[head-half-expired]", Cw1Allowances(ExpPattern::Head, At::Mid), "all_allowances", "allowances", Some("spender"), "start_after", false, true, 0),
        l("cw1-subkeys/AllAllowances[tail-half-expired]", Cw1Allowances(ExpPattern::Tail, At::Mid), "all_allowances", "allowances", Some("spender"), "start_after", false, true, 0),
        l("cw1-subkeys/AllAllowances[every-entry-expired]", Cw1Allowances(ExpPattern::All, At::Mid), "all_allowances", "allowances", Some("spender"), "start_after", false, true, 0),
        l("cw1-subkeys/AllAllowances[time-expiries-within-the-block-second]", Cw1Allowances(ExpPattern::SubSecond, At::SubSecond), "all_allowances", "allowances", Some("spender"), "start_after", false, true, 0),
        l("cw1-subkeys/AllPermissions[holders-also-admins]", Cw1PermissionsAdmins, "all_permissions", "permissions", Some("spender"), "start_after", false, false, 0),
        l("cw1-subkeys/AllPermissions", Cw1Permissions, "all_permissions", "permissions", Some("spender"), "start_after", false, false, 0),
        l("cw3-fixed-multisig/ListProposals", FixedProposals { reverse: false }, "list_proposals", "proposals", Some("id"), "start_after", false, false, 0),
        l("cw3-fixed-multisig/ReverseProposals", FixedProposals { reverse: true }, "reverse_proposals", "proposals", Some("id"), "start_before", true, false, 0),
        l("cw3-fixed-multisig/ListVotes", FixedVotes, "list_votes", "votes", Some("voter"), "start_after", false, false, 0),
        l("cw3-fixed-multisig/ListVotes[zero-weight-proposer]", FixedVotesZeroProposer, "list_votes", "votes", Some("voter"), "start_after", false, false, 0),
        l("cw3-fixed-multisig/ListVoters", FixedVoters, "list_voters", "voters", Some("addr"), "start_after", false, false, 1),
        l("cw3-flex-multisig/ListProposals", FlexProposals { reverse: false }, "list_proposals", "proposals", Some("id"), "start_after", false, false, 0),
        l("cw3-flex-multisig/ReverseProposals", FlexProposals { reverse: true }, "reverse_proposals", "proposals", Some("id"), "start_before", true, false, 0),
        l("cw3-flex-multisig/ListVotes", FlexVotes, "list_votes", "votes", Some("voter"), "start_after", false, false, 0),
        l("cw3-flex-multisig/ListVotes[zero-weight-proposer]", FlexVotesZeroProposer, "list_votes", "votes", Some("voter"), "start_after", false, false, 0),
        l("cw3-flex-multisig/ListVotes[some-voters-left-the-group]", FlexVotesLeft { all: false }, "list_votes", "votes", Some("voter"), "start_after", false, false, 0),
        l("cw3-flex-multisig/ListVotes[all-voters-left-the-group]", FlexVotesLeft { all: true }, "list_votes", "votes", Some("voter"), "start_after", false, false, 0),
        l("cw3-flex-multisig/ListVoters", FlexVoters, "list_voters", "voters", Some("addr"), "start_after", false, false, 0),
        l("cw4-group/ListMembers", GroupMembers, "list_members", "members", Some("addr"), "start_after", false, false, 0),
        l("cw4-stake/ListMembers", StakeMembers, "list_members", "members", Some("addr"), "start_after", false, false, 0),
        l("cw20-ics20/ListAllowed", Ics20Allowed, "list_allowed", "allow", Some("contract"), "start_after", false, false, 0),
    ]
}

pub fn find_listing(name: &str) -> Option<Listing> {
    listings().into_iter().find(|l| l.name == name)
}

/// A store with `n` items of the listing, and what the listing is expected to return.
pub struct Built {
    pub w: World,
    pub contract: String,
    /// fixed arguments of the list query (owner / spender / proposal_id)
    pub args: Map<String, Value>,
    /// the current items in listing order: (key, expected page entry)
    pub expected: Vec<(Key, Value)>,
    /// every key stored under the listing's prefix (current items and filtered ones), ascending
    pub stored: Vec<Key>,
    /// the listing drops some stored entries: a short (non-empty) page before the end is tolerated
    pub filtered: bool,
    /// a second admissible reading of "current item" (cw20 accounts whose balance was emptied: the
    /// property does not say whether they are still items). A listing may follow either reading,
    /// but must follow one of them completely.
    pub alt: Option<Alt>,
    /// keys whose page entry is compared only on the fields the expected entry names (e.g. a
    /// revoked allowance listed with amount 0: whatever expiry the listing shows)
    pub loose: Vec<Key>,
    /// for a store with two listings over the same data (cw20 owner / spender listing after
    /// revocations or draws to zero): does the OTHER listing show entries on which the two readings
    /// differ (zero-amount pairs)? (None: it has none to show). Both listings must agree.
    pub sibling_lists_optional: Option<bool>,
    /// number of point queries made to confirm the key set
    pub point_queries: u64,
    /// number of entry-point calls used to build the store
    pub build_calls: u64,
}

/// an alternative reading of which stored entries are current items
#[derive(Clone)]
pub struct Alt {
    pub expected: Vec<(Key, Value)>,
    /// entries outside this reading are dropped by the listing (short non-empty pages tolerated)
    pub filtered: bool,
    pub loose: Vec<Key>,
}

impl Built {
    /// the same store read with the alternative notion of "current item" (entries outside it count
    /// as filtered)
    pub fn alternative(&self) -> Option<Built> {
        let alt = self.alt.clone()?;
        Some(Built {
            w: self.w.clone(),
            contract: self.contract.clone(),
            args: self.args.clone(),
            expected: alt.expected,
            stored: self.stored.clone(),
            filtered: alt.filtered,
            alt: None,
            loose: alt.loose,
            sibling_lists_optional: self.sibling_lists_optional,
            point_queries: self.point_queries,
            build_calls: self.build_calls,
        })
    }
}

// ------------------------------------------------------------------------------------------ vtables

macro_rules! vt_fn {
    ($f:ident, $name:expr, $m:path, $i:ty, $e:ty, $q:ty) => {
        pub fn $f() -> &'static ContractVt {
            static VT: OnceLock<ContractVt> = OnceLock::new();
            VT.get_or_init(|| mc::contract_vt!($name, $m, $i, $e, $q))
        }
    };
}

pub fn vt_cw20() -> &'static ContractVt {
    static VT: OnceLock<ContractVt> = OnceLock::new();
    VT.get_or_init(|| {
        let mut v = mc::contract_vt!("cw20-base", cw20_base::contract, cw20_base::msg::InstantiateMsg, cw20_base::msg::ExecuteMsg, cw20_base::msg::QueryMsg);
        fn mig(d: cosmwasm_std::DepsMut, e: cosmwasm_std::Env, m: &[u8]) -> Result<cosmwasm_std::Response, String> {
            let msg: cw20_base::msg::MigrateMsg = cosmwasm_std::from_json(m).map_err(|e| e.to_string())?;
            cw20_base::contract::migrate(d, e, msg).map_err(|e| e.to_string())
        }
        v.migrate = Some(mig);
        v
    })
}
vt_fn!(vt_cw1, "cw1-subkeys", cw1_subkeys::contract, cw1_whitelist::msg::InstantiateMsg, cw1_subkeys::msg::ExecuteMsg, cw1_subkeys::msg::QueryMsg);
vt_fn!(vt_fixed, "cw3-fixed-multisig", cw3_fixed_multisig::contract, cw3_fixed_multisig::msg::InstantiateMsg, cw3_fixed_multisig::msg::ExecuteMsg, cw3_fixed_multisig::msg::QueryMsg);
vt_fn!(vt_flex, "cw3-flex-multisig", cw3_flex_multisig::contract, cw3_flex_multisig::msg::InstantiateMsg, cw3_flex_multisig::msg::ExecuteMsg, cw3_flex_multisig::msg::QueryMsg);
vt_fn!(vt_group, "cw4-group", cw4_group::contract, cw4_group::msg::InstantiateMsg, cw4_group::msg::ExecuteMsg, cw4_group::msg::QueryMsg);
vt_fn!(vt_stake, "cw4-stake", cw4_stake::contract, cw4_stake::msg::InstantiateMsg, cw4_stake::msg::ExecuteMsg, cw4_stake::msg::QueryMsg);
vt_fn!(vt_ics20, "cw20-ics20", cw20_ics20::contract, cw20_ics20::msg::InitMsg, cw20_ics20::msg::ExecuteMsg, cw20_ics20::msg::QueryMsg);

// ------------------------------------------------------------------------------------------ helpers

fn a(label: &str) -> String {
    addr_cached(label)
}

fn user(i: usize) -> String {
    addr_cached(&format!("u{i}"))
}

struct B {
    w: World,
    calls: u64,
    points: u64,
}

impl B {
    fn new() -> B {
        let mut w = World::new();
        w.height = H0;
        w.time_s = T0;
        B { w, calls: 0, points: 0 }
    }
    fn inst(&mut self, vt: &'static ContractVt, at: &str, sender: &str, msg: Value) -> Result<(), String> {
        self.calls += 1;
        let out = self.w.instantiate(vt, at, sender, msg.to_string().as_bytes(), &[]);
        out.res.map(|_| ()).map_err(|e| format!("instantiate {} failed: {e}", vt.name))
    }
    fn exec(&mut self, sender: &str, c: &str, msg: Value) -> Result<(), String> {
        self.exec_funds(sender, c, msg, &[])
    }
    fn exec_funds(&mut self, sender: &str, c: &str, msg: Value, funds: &[cosmwasm_std::Coin]) -> Result<(), String> {
        self.calls += 1;
        let out = self.w.execute(sender, c, msg.to_string().as_bytes(), funds);
        out.res.map(|_| ()).map_err(|e| format!("execute {msg} failed: {e}"))
    }
    fn point(&mut self, c: &str, msg: Value) -> Result<Value, String> {
        self.points += 1;
        query(&self.w, c, &msg).map_err(|e| format!("point query {msg} failed: {e}"))
    }
    fn done(self, contract: String, args: Map<String, Value>, expected: Vec<(Key, Value)>, stored: Vec<Key>) -> Built {
        Built {
            w: self.w,
            contract,
            args,
            expected,
            stored,
            filtered: false,
            alt: None,
            loose: vec![],
            sibling_lists_optional: None,
            point_queries: self.points,
            build_calls: self.calls,
        }
    }
}

/// run the real `query` entry point with a JSON message, parse the JSON answer
pub fn query(w: &World, c: &str, msg: &Value) -> Result<Value, String> {
    let b = w.query_raw_msg(c, msg.to_string().as_bytes())?;
    serde_json::from_slice(b.as_slice()).map_err(|e| format!("response is not JSON: {e}"))
}

fn sorted_users(n: usize) -> Vec<(String, usize)> {
    let mut v: Vec<(String, usize)> = (0..n).map(|i| (user(i), i)).collect();
    v.sort();
    v
}

fn nanos(secs: u64) -> String {
    (secs as u128 * 1_000_000_000u128).to_string()
}

fn args(pairs: &[(&str, Value)]) -> Map<String, Value> {
    pairs.iter().map(|(k, v)| (k.to_string(), v.clone())).collect()
}

fn machinery(what: &str, key: &str, got: &Value) -> String {
    format!("point query does not confirm the constructed store: {what} for {key} answered {got}")
}

// ------------------------------------------------------------------------------------------ builders

impl Listing {
    /// Build the store with `n` items through the real entry points and derive the expected listing.
    pub fn build(&self, n: usize) -> Result<Built, String> {
        let mut b = self.build_store(n)?;
        b.filtered = self.filtered;
        Ok(b)
    }

    fn build_store(&self, n: usize) -> Result<Built, String> {
        match self.kind {
            Kind::Cw20Accounts => cw20_accounts(n),
            Kind::Cw20AccountsEmptied => cw20_accounts_emptied(n),
            Kind::Cw20OwnerAllowances => cw20_owner_allowances(n, true),
            Kind::Cw20OwnerAllowancesNoBalance => cw20_owner_allowances(n, false),
            Kind::Cw20SpenderAllowances => cw20_spender_allowances(n),
            Kind::Cw20Migrated { by_spender } => cw20_migrated(n, by_spender, false, "0.13.4"),
            Kind::Cw20MigratedFrom { by_spender, from } => cw20_migrated(n, by_spender, false, from),
            Kind::Cw20MigratedLate { by_spender } => cw20_migrated(n, by_spender, true, "0.13.4"),
            Kind::Cw20Revoked { by_spender } => cw20_revoked(n, by_spender),
            Kind::Cw20Drawn { by_spender } => cw20_drawn(n, by_spender),
            Kind::Cw1Allowances(p, at) => cw1_allowances(n, p, at),
            Kind::Cw1Permissions => cw1_permissions(n, false),
            Kind::Cw1PermissionsAdmins => cw1_permissions(n, true),
            Kind::FixedProposals { reverse } => proposals(n, false, reverse),
            Kind::FlexProposals { reverse } => proposals(n, true, reverse),
            Kind::FixedVotes => votes(n, false, None, 1),
            Kind::FixedVotesZeroProposer => votes(n, false, None, 0),
            Kind::FlexVotesZeroProposer => votes(n, true, None, 0),
            Kind::FlexVotes => votes(n, true, None, 1),
            Kind::FlexVotesLeft { all } => votes(n, true, Some(all), 1),
            Kind::FixedVoters => fixed_voters(n),
            Kind::FlexVoters => flex_voters(n),
            Kind::GroupMembers => group_members(n),
            Kind::StakeMembers => stake_members(n),
            Kind::Ics20Allowed => ics20_allowed(n),
        }
    }
}

fn cw20_instantiate(b: &mut B, c: &str, balances: Vec<Value>) -> Result<(), String> {
    b.inst(
        vt_cw20(),
        c,
        &a("creator"),
        json!({"name": "Token", "symbol": "TOK", "decimals": 6, "initial_balances": balances, "mint": null, "marketing": null}),
    )
}

/// n holders: the first half funded at instantiation, the rest by `Transfer` from holder 0
fn cw20_accounts(n: usize) -> Result<Built, String> {
    let mut b = B::new();
    let c = a("contract-cw20");
    let first = (n + 1) / 2;
    let mut bal: Vec<u128> = (0..n).map(|i| if i < first { 100_000 + i as u128 } else { 0 }).collect();
    let init: Vec<Value> = (0..first).map(|i| json!({"address": user(i), "amount": bal[i].to_string()})).collect();
    cw20_instantiate(&mut b, &c, init)?;
    for j in first..n {
        let amt = (j + 1) as u128;
        b.exec(&user(0), &c, json!({"transfer": {"recipient": user(j), "amount": amt.to_string()}}))?;
        bal[0] -= amt;
        bal[j] += amt;
    }
    let mut expected = vec![];
    for (addr, i) in sorted_users(n) {
        let r = b.point(&c, json!({"balance": {"address": addr}}))?;
        if r["balance"] != json!(bal[i].to_string()) || bal[i] == 0 {
            return Err(machinery("balance", &addr, &r));
        }
        expected.push((Key::S(addr.clone()), json!(addr)));
    }
    let stored = expected.iter().map(|(k, _)| k.clone()).collect();
    Ok(b.done(c, Map::new(), expected, stored))
}

/// positions (in key order) of the accounts that get emptied: a run at the start, in the middle and at the end
pub fn emptied_positions(n: usize) -> Vec<usize> {
    let mut v = vec![];
    if n >= 6 {
        let r = (n / 6).min(5);
        v.extend(0..r);
        v.extend(n / 2..n / 2 + r);
        v.extend(n - r..n);
    } else {
        if n >= 2 {
            v.push(0);
        }
        if n >= 4 {
            v.push(n - 1);
        }
    }
    v
}

/// n accounts, all funded at instantiation; runs of them then transfer their whole balance to a
/// funded account. The emptied accounts keep a balance entry of 0.
fn cw20_accounts_emptied(n: usize) -> Result<Built, String> {
    let mut b = B::new();
    let c = a("contract-cw20");
    let sorted = sorted_users(n);
    let emptied = emptied_positions(n);
    let init: Vec<Value> = (0..n).map(|i| json!({"address": user(i), "amount": (100 + i).to_string()})).collect();
    cw20_instantiate(&mut b, &c, init)?;
    let mut bal: Vec<u128> = (0..n).map(|i| 100 + i as u128).collect();
    if let Some(sink_pos) = (0..n).find(|p| !emptied.contains(p)) {
        let (sink, sink_i) = sorted[sink_pos].clone();
        for p in &emptied {
            let (addr, i) = &sorted[*p];
            b.exec(addr, &c, json!({"transfer": {"recipient": sink, "amount": bal[*i].to_string()}}))?;
            bal[sink_i] += bal[*i];
            bal[*i] = 0;
        }
    }
    let mut all = vec![];
    let mut funded = vec![];
    for (p, (addr, i)) in sorted.iter().enumerate() {
        let r = b.point(&c, json!({"balance": {"address": addr}}))?;
        if r["balance"] != json!(bal[*i].to_string()) || (bal[*i] == 0) != emptied.contains(&p) {
            return Err(machinery("balance", addr, &r));
        }
        all.push((Key::S(addr.clone()), json!(addr)));
        if bal[*i] != 0 {
            funded.push((Key::S(addr.clone()), json!(addr)));
        }
    }
    let stored = all.iter().map(|(k, _)| k.clone()).collect();
    let mut built = b.done(c, Map::new(), all, stored);
    if !emptied.is_empty() {
        built.alt = Some(Alt { expected: funded, filtered: true, loose: vec![] });
    }
    Ok(built)
}

/// expiries a few blocks / seconds after the start block (H0, T0)
fn cw20_near_expiry(i: usize) -> Value {
    match i % 3 {
        0 => Value::Null,
        1 => json!({"at_height": H0 + 3}),
        _ => json!({"at_time": nanos(T0 + 20)}),
    }
}

fn cw20_expiry(i: usize) -> Value {
    match i % 3 {
        0 => Value::Null,
        1 => json!({"at_height": 100_000 + i as u64}),
        _ => json!({"at_time": nanos(1_000_000 + i as u64)}),
    }
}

/// one owner grants to n spenders; four other owners (sorting on either side) grant to the same spenders
fn cw20_owner_allowances(n: usize, owner_funded: bool) -> Result<Built, String> {
    let mut b = B::new();
    let c = a("contract-cw20");
    let owner = a("owner");
    // not funded: the owner never held tokens and has no balance record at all
    let holder = if owner_funded { owner.clone() } else { a("holder") };
    cw20_instantiate(&mut b, &c, vec![json!({"address": holder, "amount": "1000"})])?;
    for i in 0..n {
        b.exec(
            &owner,
            &c,
            json!({"increase_allowance": {"spender": user(i), "amount": (i + 1).to_string(), "expires": cw20_expiry(i)}}),
        )?;
    }
    for k in 0..4 {
        let o = a(&format!("noise-owner{k}"));
        for i in 0..n.min(3) {
            b.exec(&o, &c, json!({"increase_allowance": {"spender": user(i), "amount": "7", "expires": null}}))?;
        }
        b.exec(&o, &c, json!({"increase_allowance": {"spender": a("noise-spender"), "amount": "7", "expires": null}}))?;
    }
    let mut expected = vec![];
    for (addr, i) in sorted_users(n) {
        let r = b.point(&c, json!({"allowance": {"owner": owner, "spender": addr}}))?;
        if r["allowance"] != json!((i + 1).to_string()) {
            return Err(machinery("allowance", &addr, &r));
        }
        expected.push((Key::S(addr.clone()), json!({"spender": addr, "allowance": r["allowance"], "expires": r["expires"]})));
    }
    let stored = expected.iter().map(|(k, _)| k.clone()).collect();
    Ok(b.done(c, args(&[("owner", json!(owner))]), expected, stored))
}

/// n owners grant to one spender; the first owners also grant to four other spenders
fn cw20_spender_allowances(n: usize) -> Result<Built, String> {
    let mut b = B::new();
    let c = a("contract-cw20");
    let spender = a("spender");
    cw20_instantiate(&mut b, &c, vec![json!({"address": a("holder"), "amount": "1000"})])?;
    for i in 0..n {
        b.exec(
            &user(i),
            &c,
            json!({"increase_allowance": {"spender": spender, "amount": (i + 1).to_string(), "expires": cw20_expiry(i + 1)}}),
        )?;
    }
    for k in 0..4 {
        let s = a(&format!("noise-spender{k}"));
        for i in 0..n.min(3) {
            b.exec(&user(i), &c, json!({"increase_allowance": {"spender": s, "amount": "7", "expires": null}}))?;
        }
        b.exec(&a("noise-owner"), &c, json!({"increase_allowance": {"spender": s, "amount": "7", "expires": null}}))?;
    }
    let mut expected = vec![];
    for (addr, i) in sorted_users(n) {
        let r = b.point(&c, json!({"allowance": {"owner": addr, "spender": spender}}))?;
        if r["allowance"] != json!((i + 1).to_string()) {
            return Err(machinery("allowance", &addr, &r));
        }
        expected.push((Key::S(addr.clone()), json!({"owner": addr, "allowance": r["allowance"], "expires": r["expires"]})));
    }
    let stored = expected.iter().map(|(k, _)| k.clone()).collect();
    Ok(b.done(c, args(&[("spender", json!(spender))]), expected, stored))
}

/// remove every key of a cw-storage-plus namespace (2-byte big-endian length + name) from a raw store
fn wipe_namespace(w: &mut World, contract: &str, ns: &str) -> usize {
    let mut prefix = vec![(ns.len() >> 8) as u8, (ns.len() & 0xff) as u8];
    prefix.extend_from_slice(ns.as_bytes());
    let inst = w.contracts.get_mut(contract).unwrap();
    let keys: Vec<Vec<u8>> = inst.store.0.keys().filter(|k| k.starts_with(&prefix)).cloned().collect();
    let kv = std::sync::Arc::make_mut(&mut inst.store.0);
    for k in &keys {
        kv.remove(k);
    }
    keys.len()
}

/// A token in the pre-0.14 layout (no per-spender index, cw2 version 0.13.4) that is migrated with
/// the real `migrate`. One owner grants to n spenders (AllAllowances{owner} has n items); n owners
/// each grant to the same seven spenders, the listed one sorting last within each owner's group
/// (AllSpenderAllowances{spender} has n items), so that owners with several spenders lie across
/// every multiple of 30 in the (owner, spender) key order.
fn cw20_migrated(n: usize, by_spender: bool, late: bool, from: &str) -> Result<Built, String> {
    // late: expiries shortly after the grants; the migration runs after them (the cw20 listings and
    // the Allowance point query show an allowance whether expired or not)
    let cw20_expiry = |i: usize| if late { cw20_near_expiry(i) } else { cw20_expiry(i) };
    let mut b = B::new();
    let c = a("contract-cw20");
    let owner = a("owner");
    cw20_instantiate(&mut b, &c, vec![json!({"address": owner, "amount": "1000"})])?;
    let mut sp: Vec<String> = (0..7).map(|k| a(&format!("mig-spender{k}"))).collect();
    sp.sort();
    let target = sp[6].clone();
    for i in 0..n {
        b.exec(
            &owner,
            &c,
            json!({"increase_allowance": {"spender": user(i), "amount": (i + 1).to_string(), "expires": cw20_expiry(i)}}),
        )?;
        for (k, s) in sp.iter().enumerate() {
            b.exec(
                &user(i),
                &c,
                json!({"increase_allowance": {"spender": s, "amount": (100 * k + i + 1).to_string(), "expires": cw20_expiry(i + k)}}),
            )?;
        }
    }
    if late {
        b.w.advance(10, 60);
    }
    // back to the layout written by cw20-base < 0.14: no per-spender index, old cw2 version
    let wiped = wipe_namespace(&mut b.w, &c, "allowance_spender");
    if wiped != 8 * n {
        return Err(format!("expected {} entries in the allowance_spender namespace, wiped {wiped}", 8 * n));
    }
    {
        let inst = b.w.contracts.get_mut(&c).unwrap();
        cw2::set_contract_version(&mut inst.store, "crates.io:cw20-base", from).map_err(|e| e.to_string())?;
    }
    if n > 0 {
        let r = b.point(&c, json!({"all_spender_allowances": {"spender": target, "limit": 30}}))?;
        if r["allowances"] != json!([]) {
            return Err(machinery("all_spender_allowances (index wiped)", &target, &r));
        }
    }
    b.calls += 1;
    let out = b.w.migrate(&c, b"{}");
    if let Err(e) = out.res {
        return Err(format!("migrate from {from} failed: {e}"));
    }
    let mut expected = vec![];
    for (addr, i) in sorted_users(n) {
        if by_spender {
            let r = b.point(&c, json!({"allowance": {"owner": addr, "spender": target}}))?;
            if r["allowance"] != json!((600 + i + 1).to_string()) {
                return Err(machinery("allowance", &addr, &r));
            }
            expected.push((Key::S(addr.clone()), json!({"owner": addr, "allowance": r["allowance"], "expires": r["expires"]})));
        } else {
            let r = b.point(&c, json!({"allowance": {"owner": owner, "spender": addr}}))?;
            if r["allowance"] != json!((i + 1).to_string()) {
                return Err(machinery("allowance", &addr, &r));
            }
            expected.push((Key::S(addr.clone()), json!({"spender": addr, "allowance": r["allowance"], "expires": r["expires"]})));
        }
    }
    let stored = expected.iter().map(|(k, _)| k.clone()).collect();
    let args = if by_spender { args(&[("spender", json!(target))]) } else { args(&[("owner", json!(owner))]) };
    Ok(b.done(c, args, expected, stored))
}

/// positions (in key order) whose grant TO the principal is revoked: the runs of `emptied_positions`
/// shifted, so that they overlap the other direction's runs only partly
fn shifted_positions(n: usize) -> Vec<usize> {
    if n < 2 {
        return vec![];
    }
    let r = if n >= 6 { (n / 6).min(5) } else { 1 };
    let s = (r + 1) / 2;
    let mut v: Vec<usize> = emptied_positions(n).iter().map(|p| (p + s) % n).collect();
    v.sort();
    v.dedup();
    v
}

/// Mutual grants between one principal P and n users (P -> u_i and u_i -> P), then full revocations
/// with DecreaseAllowance{amount >= allowance} of runs at the start / middle / end of the key order
/// (different, partly overlapping runs for the two directions), partial decreases, and re-grants of
/// some revoked pairs. AllAllowances{owner: P} and AllSpenderAllowances{spender: P} must list exactly
/// the pairs whose Allowance point query is non-zero, with that amount.
fn cw20_revoked(n: usize, by_spender: bool) -> Result<Built, String> {
    let mut b = B::new();
    let c = a("contract-cw20");
    let p = a("principal");
    cw20_instantiate(&mut b, &c, vec![json!({"address": p, "amount": "1000"})])?;
    let sorted = sorted_users(n);
    let out_amt = |i: usize| (i + 10) as u128; // P -> u_i
    let in_amt = |i: usize| (i + 50) as u128; // u_i -> P
    for i in 0..n {
        b.exec(&p, &c, json!({"increase_allowance": {"spender": user(i), "amount": out_amt(i).to_string(), "expires": cw20_expiry(i)}}))?;
        b.exec(&user(i), &c, json!({"increase_allowance": {"spender": p, "amount": in_amt(i).to_string(), "expires": cw20_expiry(i + 1)}}))?;
    }
    // noise around the principal: other owners / spenders with the same users
    for k in 0..2 {
        let o = a(&format!("noise-owner{k}"));
        for i in 0..n.min(3) {
            b.exec(&o, &c, json!({"increase_allowance": {"spender": user(i), "amount": "7", "expires": null}}))?;
            b.exec(&user(i), &c, json!({"increase_allowance": {"spender": o, "amount": "7", "expires": null}}))?;
        }
    }
    let r_out = emptied_positions(n);
    let r_in = shifted_positions(n);
    let mut out_ref: Vec<u128> = (0..n).map(out_amt).collect();
    let mut in_ref: Vec<u128> = (0..n).map(in_amt).collect();
    for (k, pos) in r_out.iter().enumerate() {
        let (addr, i) = &sorted[*pos];
        // exactly the allowance, or more than it: both take the removal branch
        let amt = out_ref[*i] + (k % 2) as u128 * 1000;
        b.exec(&p, &c, json!({"decrease_allowance": {"spender": addr, "amount": amt.to_string(), "expires": null}}))?;
        out_ref[*i] = 0;
    }
    for (k, pos) in r_in.iter().enumerate() {
        let (addr, i) = &sorted[*pos];
        let amt = in_ref[*i] + ((k + 1) % 2) as u128 * 1000;
        b.exec(addr, &c, json!({"decrease_allowance": {"spender": p, "amount": amt.to_string(), "expires": null}}))?;
        in_ref[*i] = 0;
    }
    // partial decreases (the allowance stays), most of them carrying a NEW expiry
    let new_expiry = |pos: usize| match pos % 4 {
        0 => Value::Null,
        1 | 2 => json!({"at_height": 200_000 + pos as u64}),
        _ => json!({"at_time": nanos(2_000_000 + pos as u64)}),
    };
    let mut out_exp: Vec<Option<Value>> = vec![None; n];
    let mut in_exp: Vec<Option<Value>> = vec![None; n];
    for (pos, (addr, i)) in sorted.iter().enumerate() {
        if pos % 3 == 1 && out_ref[*i] > 1 {
            let e = new_expiry(pos);
            b.exec(&p, &c, json!({"decrease_allowance": {"spender": addr, "amount": "1", "expires": e}}))?;
            out_ref[*i] -= 1;
            if !e.is_null() {
                out_exp[*i] = Some(e);
            }
        }
        if pos % 3 == 2 && in_ref[*i] > 2 {
            let e = new_expiry(pos + 1);
            b.exec(addr, &c, json!({"decrease_allowance": {"spender": p, "amount": "2", "expires": e}}))?;
            in_ref[*i] -= 2;
            if !e.is_null() {
                in_exp[*i] = Some(e);
            }
        }
    }
    // every other revoked pair is granted again
    for pos in r_out.iter().step_by(2) {
        let (addr, i) = &sorted[*pos];
        b.exec(&p, &c, json!({"increase_allowance": {"spender": addr, "amount": "3", "expires": null}}))?;
        out_ref[*i] = 3;
    }
    for pos in r_in.iter().skip(1).step_by(2) {
        let (addr, i) = &sorted[*pos];
        b.exec(addr, &c, json!({"increase_allowance": {"spender": p, "amount": "5", "expires": null}}))?;
        in_ref[*i] = 5;
    }
    let mut expected = vec![];
    // second reading: a fully revoked pair is still an item, with amount exactly 0 (any expiry)
    let mut with_zero = vec![];
    let mut revoked = vec![];
    let who = if by_spender { "owner" } else { "spender" };
    for (addr, i) in &sorted {
        let (q, want) = if by_spender {
            (json!({"allowance": {"owner": addr, "spender": p}}), in_ref[*i])
        } else {
            (json!({"allowance": {"owner": p, "spender": addr}}), out_ref[*i])
        };
        let r = b.point(&c, q)?;
        if r["allowance"] != json!(want.to_string()) {
            return Err(machinery("allowance (0 = revoked)", addr, &r));
        }
        if let Some(e) = if by_spender { &in_exp[*i] } else { &out_exp[*i] } {
            if want != 0 && r["expires"] != *e {
                return Err(machinery("allowance (expiry set by the partial decrease)", addr, &r));
            }
        }
        if want != 0 {
            let item = json!({who: addr, "allowance": r["allowance"], "expires": r["expires"]});
            expected.push((Key::S(addr.clone()), item.clone()));
            with_zero.push((Key::S(addr.clone()), item));
        } else {
            with_zero.push((Key::S(addr.clone()), json!({who: addr, "allowance": "0"})));
            revoked.push(Key::S(addr.clone()));
        }
    }
    // which reading does the other listing of this store follow?
    let other_revoked: Vec<String> = sorted
        .iter()
        .filter(|(_, i)| if by_spender { out_ref[*i] == 0 } else { in_ref[*i] == 0 })
        .map(|(a, _)| a.clone())
        .collect();
    let sibling = if other_revoked.is_empty() {
        None
    } else {
        let (q, arg, key) = if by_spender { ("all_allowances", "owner", "spender") } else { ("all_spender_allowances", "spender", "owner") };
        let listed = walk_keys(&b.w, &c, q, arg, &p, "allowances", key, n + 3)?;
        Some(listed.iter().any(|k| other_revoked.contains(k)))
    };
    let stored = sorted.iter().map(|(s, _)| Key::S(s.clone())).collect();
    let args = if by_spender { args(&[("spender", json!(p))]) } else { args(&[("owner", json!(p))]) };
    let mut built = b.done(c, args, expected, stored);
    if !revoked.is_empty() {
        built.alt = Some(Alt { expected: with_zero, filtered: false, loose: revoked });
    }
    built.sibling_lists_optional = sibling;
    Ok(built)
}

/// Mutual grants between a principal P and n users, then draws by the spenders (TransferFrom /
/// BurnFrom / SendFrom in turn) that use up exactly the whole allowance for runs at the start /
/// middle / end of the key order (different runs for the two directions), and partial draws.
/// The unchanged code keeps a used-up pair as a zero entry (with its expiry) in both maps: first
/// reading = every granted pair, as the Allowance point query reports it; second reading = only the
/// pairs with a non-zero amount. Both listings of the store must follow the same one.
fn cw20_drawn(n: usize, by_spender: bool) -> Result<Built, String> {
    let mut b = B::new();
    // SendFrom's receiver notification is not dispatched (no receiver contract in this world)
    b.w.dispatch = false;
    let c = a("contract-cw20");
    let p = a("principal");
    let sink = a("sink");
    let mut init = vec![json!({"address": p, "amount": "1000000"})];
    init.extend((0..n).map(|i| json!({"address": user(i), "amount": "10000"})));
    cw20_instantiate(&mut b, &c, init)?;
    let sorted = sorted_users(n);
    let mut out_ref: Vec<u128> = (0..n).map(|i| (i + 10) as u128).collect(); // P -> u_i
    let mut in_ref: Vec<u128> = (0..n).map(|i| (i + 50) as u128).collect(); // u_i -> P
    // some pairs are created by a first-time grant of amount 0 without an expiry: a zero-amount pair
    // from the start (positions in key order: out p%5==4, in p%5==2; the last / first pair for tiny n)
    for (pos, (_, i)) in sorted.iter().enumerate() {
        if pos % 5 == 4 || (n >= 2 && n < 5 && pos == n - 1) {
            out_ref[*i] = 0;
        }
        if pos % 5 == 2 || (n >= 2 && n < 5 && pos == 0) {
            in_ref[*i] = 0;
        }
    }
    for i in 0..n {
        let e_out = if out_ref[i] == 0 { Value::Null } else { cw20_expiry(i) };
        let e_in = if in_ref[i] == 0 { Value::Null } else { cw20_expiry(i + 1) };
        b.exec(&p, &c, json!({"increase_allowance": {"spender": user(i), "amount": out_ref[i].to_string(), "expires": e_out}}))?;
        b.exec(&user(i), &c, json!({"increase_allowance": {"spender": p, "amount": in_ref[i].to_string(), "expires": e_in}}))?;
    }
    let draw = |k: usize, owner: &str, amount: u128| -> Value {
        match k % 3 {
            0 => json!({"transfer_from": {"owner": owner, "recipient": sink, "amount": amount.to_string()}}),
            1 => json!({"burn_from": {"owner": owner, "amount": amount.to_string()}}),
            _ => json!({"send_from": {"owner": owner, "contract": sink, "amount": amount.to_string(), "msg": ""}}),
        }
    };
    let z_out = if n == 1 { vec![0] } else { emptied_positions(n) };
    let z_in = shifted_positions(n);
    for (k, pos) in z_out.iter().enumerate() {
        let (addr, i) = &sorted[*pos];
        if out_ref[*i] == 0 {
            continue;
        }
        b.exec(addr, &c, draw(k, &p, out_ref[*i]))?;
        out_ref[*i] = 0;
    }
    for (k, pos) in z_in.iter().enumerate() {
        let (addr, i) = &sorted[*pos];
        if in_ref[*i] == 0 {
            continue;
        }
        b.exec(&p, &c, draw(k + 1, addr, in_ref[*i]))?;
        in_ref[*i] = 0;
    }
    // partial draws
    for (pos, (addr, i)) in sorted.iter().enumerate() {
        if pos % 7 == 3 && out_ref[*i] > 1 {
            b.exec(addr, &c, draw(pos, &p, 1))?;
            out_ref[*i] -= 1;
        }
        if pos % 7 == 5 && in_ref[*i] > 2 {
            b.exec(&p, &c, draw(pos, addr, 2))?;
            in_ref[*i] -= 2;
        }
    }
    let who = if by_spender { "owner" } else { "spender" };
    let mut all = vec![];
    let mut nonzero = vec![];
    for (addr, i) in &sorted {
        let (q, want) = if by_spender {
            (json!({"allowance": {"owner": addr, "spender": p}}), in_ref[*i])
        } else {
            (json!({"allowance": {"owner": p, "spender": addr}}), out_ref[*i])
        };
        let r = b.point(&c, q)?;
        if r["allowance"] != json!(want.to_string()) {
            return Err(machinery("allowance (0 = used up)", addr, &r));
        }
        let item = json!({who: addr, "allowance": r["allowance"], "expires": r["expires"]});
        all.push((Key::S(addr.clone()), item.clone()));
        if want != 0 {
            nonzero.push((Key::S(addr.clone()), item));
        }
    }
    let other_zero: Vec<String> = sorted
        .iter()
        .filter(|(_, i)| if by_spender { out_ref[*i] == 0 } else { in_ref[*i] == 0 })
        .map(|(a, _)| a.clone())
        .collect();
    let sibling = if other_zero.is_empty() {
        None
    } else {
        let (q, arg, key) = if by_spender { ("all_allowances", "owner", "spender") } else { ("all_spender_allowances", "spender", "owner") };
        let listed = walk_keys(&b.w, &c, q, arg, &p, "allowances", key, n + 3)?;
        Some(listed.iter().any(|k| other_zero.contains(k)))
    };
    let stored = sorted.iter().map(|(s, _)| Key::S(s.clone())).collect();
    let args = if by_spender { args(&[("spender", json!(p))]) } else { args(&[("owner", json!(p))]) };
    let has_zero = nonzero.len() != all.len();
    let mut built = b.done(c, args, all, stored);
    if has_zero {
        built.alt = Some(Alt { expected: nonzero, filtered: false, loose: vec![] });
    }
    built.sibling_lists_optional = sibling;
    Ok(built)
}

/// all keys a listing returns when walked with limit 30 (string keys)
#[allow(clippy::too_many_arguments)]
fn walk_keys(w: &World, c: &str, q: &str, arg: &str, arg_val: &str, items: &str, key: &str, max_pages: usize) -> Result<Vec<String>, String> {
    let mut out = vec![];
    let mut cursor: Option<String> = None;
    for _ in 0..max_pages {
        let mut m = Map::new();
        m.insert(arg.to_string(), json!(arg_val));
        m.insert("limit".to_string(), json!(30));
        if let Some(cu) = &cursor {
            m.insert("start_after".to_string(), json!(cu));
        }
        let r = query(w, c, &json!({ q: Value::Object(m) }))?;
        let page: Vec<String> = r[items].as_array().cloned().unwrap_or_default().iter().filter_map(|it| it[key].as_str().map(|s| s.to_string())).collect();
        match page.last() {
            None => break,
            Some(l) => cursor = Some(l.clone()),
        }
        out.extend(page);
    }
    Ok(out)
}

fn cw1_instantiate(b: &mut B, c: &str, more_admins: &[String]) -> Result<String, String> {
    let admin = a("admin");
    let mut admins = vec![admin.clone()];
    admins.extend(more_admins.iter().cloned());
    b.inst(vt_cw1(), c, &admin, json!({"admins": admins, "mutable": true}))?;
    Ok(admin)
}

fn perm_bits(x: usize) -> Value {
    json!({"delegate": x & 1 != 0, "redelegate": x & 2 != 0, "undelegate": x & 4 != 0, "withdraw": x & 8 != 0})
}

/// n stored subkey allowances, some with expiries, queried at a block where some of them have expired
fn cw1_allowances(n: usize, pat: ExpPattern, at: At) -> Result<Built, String> {
    let mut b = B::new();
    let c = a("contract-cw1");
    let admin = cw1_instantiate(&mut b, &c, &[])?;
    let sorted = sorted_users(n);
    // expiry by position in key order, so that runs of expired entries are controlled
    #[derive(Clone, Copy, PartialEq)]
    enum E {
        Never,
        Height(u64),
        /// nanoseconds since the epoch
        TimeNs(u128),
    }
    const S: u128 = 1_000_000_000;
    let hexp = E::Height(H0 + 5);
    let mut exp = vec![E::Never; n];
    for (p, (_, i)) in sorted.iter().enumerate() {
        exp[*i] = match pat {
            ExpPattern::Mix => {
                if p % 4 == 1 || p % 4 == 2 {
                    hexp
                } else if p % 5 == 3 {
                    E::TimeNs((T0 + 50) as u128 * S)
                } else {
                    E::Never
                }
            }
            ExpPattern::Head => {
                if p < (n + 1) / 2 {
                    hexp
                } else {
                    E::Never
                }
            }
            ExpPattern::Tail => {
                if p >= n / 2 {
                    hexp
                } else {
                    E::Never
                }
            }
            ExpPattern::All => hexp,
            // the query block is at T0+50.5 s: expiries earlier in that second (expired), exactly at
            // the block time (expired), later in that second (live), in later seconds (live)
            ExpPattern::SubSecond => match p % 6 {
                0 => E::TimeNs((T0 + 50) as u128 * S + 100_000_000),
                1 => E::TimeNs((T0 + 50) as u128 * S + 900_000_000),
                2 => E::Never,
                3 => E::TimeNs((T0 + 50) as u128 * S + 500_000_000),
                4 => E::TimeNs((T0 + 51) as u128 * S),
                _ => E::TimeNs((T0 + 50) as u128 * S + 500_000_001),
            },
        };
    }
    // created in index order (not key order)
    for i in 0..n {
        let e = match exp[i] {
            E::Never => Value::Null,
            E::Height(h) => json!({"at_height": h}),
            E::TimeNs(t) => json!({"at_time": t.to_string()}),
        };
        b.exec(
            &admin,
            &c,
            json!({"increase_allowance": {"spender": user(i), "amount": {"denom": "tok", "amount": (i + 1).to_string()}, "expires": e}}),
        )?;
    }
    // noise in the neighbouring namespace
    for i in 0..n.min(3) {
        b.exec(&admin, &c, json!({"set_permissions": {"spender": user(i), "permissions": perm_bits(i + 1)}}))?;
    }
    b.exec(&admin, &c, json!({"set_permissions": {"spender": a("noise-spender"), "permissions": perm_bits(5)}}))?;
    match at {
        At::Before => {}
        At::Mid => b.w.advance(5, 25),
        At::After => b.w.advance(12, 60),
        At::SubSecond => b.w.advance_nanos(3, 50_500_000_000),
    }
    let now_ns = b.w.time_s as u128 * S + b.w.time_ns as u128;
    let height = b.w.height;
    let mut expected = vec![];
    for (addr, i) in &sorted {
        // cw_utils::Expiration::is_expired: block.height >= h / block.time >= t
        let current = match exp[*i] {
            E::Never => true,
            E::Height(h) => height < h,
            E::TimeNs(t) => now_ns < t,
        };
        let r = b.point(&c, json!({"allowance": {"spender": addr}}))?;
        let has = r["balance"].as_array().map(|x| !x.is_empty()).unwrap_or(false);
        if has != current {
            return Err(machinery("allowance (current = not expired)", addr, &r));
        }
        if current {
            if r["balance"] != json!([{"denom": "tok", "amount": (i + 1).to_string()}]) {
                return Err(machinery("allowance", addr, &r));
            }
            expected.push((Key::S(addr.clone()), json!({"spender": addr, "balance": r["balance"], "expires": r["expires"]})));
        }
    }
    let stored = sorted.iter().map(|(s, _)| Key::S(s.clone())).collect();
    Ok(b.done(c, Map::new(), expected, stored))
}

/// n permission holders. With `admins`: runs of holders at the start, middle and end of the key order
/// are also admins of the proxy - alternately made admin before their permissions were set, and
/// promoted afterwards with UpdateAdmins. Their stored permissions still answer the point query.
fn cw1_permissions(n: usize, admins: bool) -> Result<Built, String> {
    let mut b = B::new();
    let c = a("contract-cw1");
    let sorted = sorted_users(n);
    let also: Vec<String> = if admins {
        let pos = if n == 1 { vec![0] } else { emptied_positions(n) };
        pos.iter().map(|p| sorted[*p].0.clone()).collect()
    } else {
        vec![]
    };
    let before: Vec<String> = also.iter().step_by(2).cloned().collect();
    let admin = cw1_instantiate(&mut b, &c, &before)?;
    for i in 0..n {
        b.exec(&admin, &c, json!({"set_permissions": {"spender": user(i), "permissions": perm_bits(i % 15 + 1)}}))?;
    }
    if admins {
        let mut all = vec![admin.clone()];
        all.extend(also.iter().cloned());
        b.exec(&admin, &c, json!({"update_admins": {"admins": all}}))?;
        let r = b.point(&c, json!({"admin_list": {}}))?;
        if r["admins"].as_array().map(|x| x.len()) != Some(also.len() + 1) {
            return Err(machinery("admin_list", "admins", &r));
        }
    }
    for i in 0..n.min(3) {
        if also.contains(&user(i)) {
            continue;
        }
        b.exec(
            &admin,
            &c,
            json!({"increase_allowance": {"spender": user(i), "amount": {"denom": "tok", "amount": "5"}, "expires": null}}),
        )?;
    }
    b.exec(
        &admin,
        &c,
        json!({"increase_allowance": {"spender": a("noise-spender"), "amount": {"denom": "tok", "amount": "5"}, "expires": null}}),
    )?;
    let mut expected = vec![];
    for (addr, i) in &sorted {
        let r = b.point(&c, json!({"permissions": {"spender": addr}}))?;
        if r != perm_bits(i % 15 + 1) {
            return Err(machinery("permissions", addr, &r));
        }
        expected.push((Key::S(addr.clone()), json!({"spender": addr, "permissions": r})));
    }
    let stored = expected.iter().map(|(k, _)| k.clone()).collect();
    Ok(b.done(c, Map::new(), expected, stored))
}

/// instantiate a multisig over `voters` (address, weight): cw3-fixed directly, cw3-flex over a real cw4-group
fn multisig(b: &mut B, flex: bool, voters: &[(String, u64)], threshold: Value) -> Result<String, String> {
    if flex {
        let g = a("contract-group");
        let c = a("contract-flex");
        let members: Vec<Value> = voters.iter().map(|(a, w)| json!({"addr": a, "weight": w})).collect();
        b.inst(vt_group(), &g, &a("creator"), json!({"admin": a("admin"), "members": members}))?;
        b.inst(
            vt_flex(),
            &c,
            &a("creator"),
            json!({"group_addr": g, "threshold": threshold, "max_voting_period": {"height": 100}, "executor": null, "proposal_deposit": null}),
        )?;
        // votes are weighed with the group snapshot at the proposal's start height
        b.w.advance(1, 5);
        Ok(c)
    } else {
        let c = a("contract-fixed");
        let vs: Vec<Value> = voters.iter().map(|(a, w)| json!({"addr": a, "weight": w})).collect();
        b.inst(vt_fixed(), &c, &a("creator"), json!({"voters": vs, "threshold": threshold, "max_voting_period": {"height": 100}}))?;
        b.w.advance(1, 5);
        Ok(c)
    }
}

/// n proposals in different stages (open, passed, rejected, executed, expired)
fn proposals(n: usize, flex: bool, reverse: bool) -> Result<Built, String> {
    let mut b = B::new();
    let v: Vec<String> = (0..3).map(|i| a(&format!("voter{i}"))).collect();
    let voters: Vec<(String, u64)> = v.iter().map(|x| (x.clone(), 1)).collect();
    let c = multisig(&mut b, flex, &voters, json!({"absolute_count": {"weight": 2}}))?;
    let h = b.w.height;
    for i in 0..n {
        let id = (i + 1) as u64;
        let msgs = if i % 3 == 0 {
            json!([{"bank": {"send": {"to_address": a("payee"), "amount": [{"denom": "tok", "amount": (i + 1).to_string()}]}}}])
        } else {
            json!([])
        };
        let latest = if i % 5 == 3 { json!({"at_height": h + 3}) } else { Value::Null };
        b.exec(
            &v[0],
            &c,
            json!({"propose": {"title": format!("title {i}"), "description": format!("description {i}"), "msgs": msgs, "latest": latest}}),
        )?;
        match i % 3 {
            1 => {
                b.exec(&v[1], &c, json!({"vote": {"proposal_id": id, "vote": "yes"}}))?;
                if i % 6 == 4 {
                    b.exec(&v[2], &c, json!({"execute": {"proposal_id": id}}))?;
                }
            }
            2 => {
                b.exec(&v[1], &c, json!({"vote": {"proposal_id": id, "vote": "no"}}))?;
                b.exec(&v[2], &c, json!({"vote": {"proposal_id": id, "vote": "veto"}}))?;
            }
            _ => {}
        }
    }
    // past the early expiries: their status is computed at query time
    b.w.advance(4, 20);
    let mut expected = vec![];
    for i in 0..n {
        let id = (i + 1) as u64;
        let r = b.point(&c, json!({"proposal": {"proposal_id": id}}))?;
        if r["id"] != json!(id) || r["title"] != json!(format!("title {i}")) {
            return Err(machinery("proposal", &id.to_string(), &r));
        }
        expected.push((Key::N(id), r));
    }
    let stored: Vec<Key> = expected.iter().map(|(k, _)| k.clone()).collect();
    if reverse {
        expected.reverse();
    }
    Ok(b.done(c, Map::new(), expected, stored))
}

/// n ballots on one proposal, with ballots on the neighbouring proposals as noise
fn votes(n: usize, flex: bool, left: Option<bool>, proposer_weight: u64) -> Result<Built, String> {
    let mut b = B::new();
    let pp = a("proposer");
    // the target proposal gets the proposer's ballot plus n-1 others; at least 3 others exist for noise
    let others = n.saturating_sub(1).max(3);
    let mut voters: Vec<(String, u64)> = vec![(pp.clone(), proposer_weight)];
    for i in 0..others {
        voters.push((user(i), (i % 3 + 1) as u64));
    }
    let c = multisig(&mut b, flex, &voters, json!({"absolute_count": {"weight": 1}}))?;
    for k in 0..3 {
        b.exec(&pp, &c, json!({"propose": {"title": format!("p{k}"), "description": "d", "msgs": [], "latest": null}}))?;
    }
    let kinds = ["yes", "no", "abstain", "veto"];
    // noise: proposals 1 and 3
    for id in [1u64, 3] {
        for i in 0..3 {
            b.exec(&user(i), &c, json!({"vote": {"proposal_id": id, "vote": kinds[(i + id as usize) % 4]}}))?;
        }
    }
    // target: proposal 2 (n >= 1), or the non-existent proposal 4 (n == 0)
    let target: u64 = if n == 0 { 4 } else { 2 };
    let mut known: Vec<(String, u64, &str)> = vec![];
    if n >= 1 {
        known.push((pp.clone(), proposer_weight, "yes"));
        for i in 0..n - 1 {
            let kind = kinds[i % 4];
            b.exec(&user(i), &c, json!({"vote": {"proposal_id": 2, "vote": kind}}))?;
            known.push((user(i), (i % 3 + 1) as u64, kind));
        }
    }
    b.w.advance(1, 5);
    known.sort();
    // ballots outlive membership: voters who cast a ballot leave the group (or are re-weighted to 0)
    if let Some(all) = left {
        let k = known.len();
        let (gone, zero): (Vec<usize>, Vec<usize>) = if all {
            ((0..k).collect(), vec![])
        } else {
            let gone = if k == 1 { vec![0] } else { emptied_positions(k) };
            let zero = shifted_positions(k).into_iter().filter(|p| !gone.contains(p)).collect();
            (gone, zero)
        };
        if k > 0 {
            let remove: Vec<String> = gone.iter().map(|p| known[*p].0.clone()).collect();
            let add: Vec<Value> = zero.iter().map(|p| json!({"addr": known[*p].0, "weight": 0})).collect();
            b.exec(&a("admin"), &a("contract-group"), json!({"update_members": {"remove": remove, "add": add}}))?;
            b.w.advance(1, 5);
            for p in &gone {
                let r = b.point(&a("contract-group"), json!({"member": {"addr": known[*p].0, "at_height": null}}))?;
                if !r["weight"].is_null() {
                    return Err(machinery("member (removed)", &known[*p].0, &r));
                }
            }
        }
    }
    let mut expected = vec![];
    for (addr, weight, kind) in &known {
        let r = b.point(&c, json!({"vote": {"proposal_id": target, "voter": addr}}))?;
        let want = json!({"proposal_id": target, "voter": addr, "vote": kind, "weight": weight});
        if r["vote"] != want {
            return Err(machinery("vote", addr, &r));
        }
        expected.push((Key::S(addr.clone()), r["vote"].clone()));
    }
    let stored = expected.iter().map(|(k, _)| k.clone()).collect();
    Ok(b.done(c, args(&[("proposal_id", json!(target))]), expected, stored))
}

fn voter_weight(i: usize) -> u64 {
    ((i + 1) % 4) as u64
}

fn expect_weighted(b: &mut B, c: &str, n: usize, q: &str, arg: &str, weight: fn(usize) -> u64) -> Result<Vec<(Key, Value)>, String> {
    let mut expected = vec![];
    for (addr, i) in sorted_users(n) {
        let r = b.point(c, json!({q: {arg: addr}}))?;
        if r["weight"] != json!(weight(i)) {
            return Err(machinery(q, &addr, &r));
        }
        expected.push((Key::S(addr.clone()), json!({"addr": addr, "weight": r["weight"]})));
    }
    Ok(expected)
}

fn fixed_voters(n: usize) -> Result<Built, String> {
    let mut b = B::new();
    let voters: Vec<(String, u64)> = (0..n).map(|i| (user(i), voter_weight(i))).collect();
    let c = multisig(&mut b, false, &voters, json!({"absolute_count": {"weight": 1}}))?;
    let expected = expect_weighted(&mut b, &c, n, "voter", "address", voter_weight)?;
    let stored = expected.iter().map(|(k, _)| k.clone()).collect();
    Ok(b.done(c, Map::new(), expected, stored))
}

/// cw3-flex answers ListVoters / Voter from its cw4-group (smart and raw queries through the kernel)
fn flex_voters(n: usize) -> Result<Built, String> {
    let mut b = B::new();
    let voters: Vec<(String, u64)> = (0..n).map(|i| (user(i), voter_weight(i))).collect();
    let c = multisig(&mut b, true, &voters, json!({"absolute_percentage": {"percentage": "0.51"}}))?;
    let expected = expect_weighted(&mut b, &c, n, "voter", "address", voter_weight)?;
    let stored = expected.iter().map(|(k, _)| k.clone()).collect();
    Ok(b.done(c, Map::new(), expected, stored))
}

fn member_weight(i: usize) -> u64 {
    (i % 4) as u64
}

/// n members: first half at instantiation, the rest by UpdateMembers in a later block; one member added and removed again
fn group_members(n: usize) -> Result<Built, String> {
    let mut b = B::new();
    let c = a("contract-group");
    let admin = a("admin");
    let first = (n + 1) / 2;
    let init: Vec<Value> = (0..first).map(|i| json!({"addr": user(i), "weight": member_weight(i)})).collect();
    b.inst(vt_group(), &c, &a("creator"), json!({"admin": admin, "members": init}))?;
    b.w.advance(1, 5);
    let mut add: Vec<Value> = (first..n).map(|i| json!({"addr": user(i), "weight": member_weight(i)})).collect();
    add.push(json!({"addr": a("gone"), "weight": 9}));
    b.exec(&admin, &c, json!({"update_members": {"remove": [], "add": add}}))?;
    b.w.advance(1, 5);
    b.exec(&admin, &c, json!({"update_members": {"remove": [a("gone")], "add": []}}))?;
    let gone = b.point(&c, json!({"member": {"addr": a("gone"), "at_height": null}}))?;
    if !gone["weight"].is_null() {
        return Err(machinery("member (removed)", "gone", &gone));
    }
    let mut expected = vec![];
    for (addr, i) in sorted_users(n) {
        let r = b.point(&c, json!({"member": {"addr": addr, "at_height": null}}))?;
        if r["weight"] != json!(member_weight(i)) {
            return Err(machinery("member", &addr, &r));
        }
        expected.push((Key::S(addr.clone()), json!({"addr": addr, "weight": r["weight"]})));
    }
    // the removed member's key is a cursor too (a key returned by a page before the removal)
    let mut stored: Vec<Key> = expected.iter().map(|(k, _)| k.clone()).collect();
    stored.push(Key::S(a("gone")));
    stored.sort();
    Ok(b.done(c, Map::new(), expected, stored))
}

/// n members who bonded native tokens; two stakers below the minimum bond are not members
fn stake_members(n: usize) -> Result<Built, String> {
    let mut b = B::new();
    let c = a("contract-stake");
    b.inst(
        vt_stake(),
        &c,
        &a("creator"),
        json!({"denom": {"native": "stake"}, "tokens_per_weight": "1", "min_bond": "2", "unbonding_period": {"height": 5}, "admin": null}),
    )?;
    for i in 0..n {
        let amt = (i + 2) as u128;
        b.w.set_balance(&user(i), "stake", amt);
        b.exec_funds(&user(i), &c, json!({"bond": {}}), &[cosmwasm_std::coin(amt, "stake")])?;
        if i % 8 == 7 {
            b.w.advance(1, 5);
        }
    }
    for k in 0..2 {
        let low = a(&format!("low{k}"));
        b.w.set_balance(&low, "stake", 1);
        b.exec_funds(&low, &c, json!({"bond": {}}), &[cosmwasm_std::coin(1, "stake")])?;
        let r = b.point(&c, json!({"member": {"addr": low, "at_height": null}}))?;
        if !r["weight"].is_null() {
            return Err(machinery("member (below min_bond)", &low, &r));
        }
    }
    let mut expected = vec![];
    for (addr, i) in sorted_users(n) {
        let r = b.point(&c, json!({"member": {"addr": addr, "at_height": null}}))?;
        if r["weight"] != json!((i + 2) as u64) {
            return Err(machinery("member", &addr, &r));
        }
        expected.push((Key::S(addr.clone()), json!({"addr": addr, "weight": r["weight"]})));
    }
    // a former member (bonded, then unbonded everything) and the stakers below the minimum bond are
    // cursors too
    let left = a("left");
    b.w.set_balance(&left, "stake", 5);
    b.exec_funds(&left, &c, json!({"bond": {}}), &[cosmwasm_std::coin(5, "stake")])?;
    b.w.advance(1, 5);
    b.exec(&left, &c, json!({"unbond": {"tokens": "5"}}))?;
    let r = b.point(&c, json!({"member": {"addr": left, "at_height": null}}))?;
    if !r["weight"].is_null() {
        return Err(machinery("member (unbonded)", &left, &r));
    }
    let mut stored: Vec<Key> = expected.iter().map(|(k, _)| k.clone()).collect();
    stored.extend([Key::S(left), Key::S(a("low0")), Key::S(a("low1"))]);
    stored.sort();
    Ok(b.done(c, Map::new(), expected, stored))
}

fn gas_limit(i: usize) -> Value {
    if i % 3 == 0 {
        Value::Null
    } else {
        json!(1000 + i as u64)
    }
}

/// n allowed tokens: first half in the instantiate allow list, the rest by `Allow` from the governance address
fn ics20_allowed(n: usize) -> Result<Built, String> {
    let mut b = B::new();
    let c = a("contract-ics20");
    let gov = a("gov");
    let first = (n + 1) / 2;
    let init: Vec<Value> = (0..first).map(|i| json!({"contract": user(i), "gas_limit": gas_limit(i)})).collect();
    b.inst(
        vt_ics20(),
        &c,
        &a("creator"),
        json!({"default_timeout": 100, "gov_contract": gov, "allowlist": init, "default_gas_limit": null}),
    )?;
    for i in first..n {
        b.exec(&gov, &c, json!({"allow": {"contract": user(i), "gas_limit": gas_limit(i)}}))?;
    }
    let not = b.point(&c, json!({"allowed": {"contract": a("never-allowed")}}))?;
    if not["is_allowed"] != json!(false) {
        return Err(machinery("allowed", "never-allowed", &not));
    }
    let mut expected = vec![];
    for (addr, i) in sorted_users(n) {
        let r = b.point(&c, json!({"allowed": {"contract": addr}}))?;
        if r["is_allowed"] != json!(true) || r.get("gas_limit").cloned().unwrap_or(Value::Null) != gas_limit(i) {
            return Err(machinery("allowed", &addr, &r));
        }
        expected.push((Key::S(addr.clone()), json!({"contract": addr, "gas_limit": r.get("gas_limit").cloned().unwrap_or(Value::Null)})));
    }
    let stored = expected.iter().map(|(k, _)| k.clone()).collect();
    Ok(b.done(c, Map::new(), expected, stored))
}
