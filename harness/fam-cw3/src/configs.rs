//! configuration matrices per property and tier
use super::model::*;
use super::spec::*;

fn pct(x: u128) -> u128 {
    // x in units of 1e-9
    x * 1_000_000_000
}

fn thresholds(total: u64) -> Vec<(&'static str, Th)> {
    let mut v: Vec<(&'static str, Th)> = vec![
        ("count1", Th::Count(1)),
        ("count2", Th::Count(2)),
        ("countT", Th::Count(total)),
        ("pct50", Th::Pct(pct(500_000_000))),
        ("pct51", Th::Pct(pct(510_000_000))),
        ("pct66.7", Th::Pct(pct(667_000_000))),
        ("pct100", Th::Pct(pct(1_000_000_000))),
        ("q50-33.3", Th::Quorum { t: pct(500_000_000), q: pct(333_333_333) }),
        ("q51-50", Th::Quorum { t: pct(510_000_000), q: pct(500_000_000) }),
        ("q66.7-40", Th::Quorum { t: pct(667_000_000), q: pct(400_000_000) }),
        ("q100-100", Th::Quorum { t: pct(1_000_000_000), q: pct(1_000_000_000) }),
        ("q50-tiny", Th::Quorum { t: pct(500_000_000), q: pct(1) }),
        // 7 to 9 decimal places: w*p lands just above an integer for small weights
        ("pct66.66667", Th::Pct(pct(666_666_700))),
        ("q50.0000001-33.33334", Th::Quorum { t: pct(500_000_001), q: pct(333_333_400) }),
    ];
    v.retain(|(_, t)| match t {
        Th::Count(w) => *w >= 1 && *w <= total,
        _ => true,
    });
    v.dedup_by(|a, b| a.1 == b.1);
    v
}

fn weight_vectors() -> Vec<(&'static str, Vec<(u8, u64)>)> {
    vec![
        ("w111", vec![(0, 1), (1, 1), (2, 1)]),
        ("w011", vec![(0, 0), (1, 1), (2, 1)]),
        ("w012", vec![(0, 0), (1, 1), (2, 2)]),
        ("w123", vec![(0, 1), (1, 2), (2, 3)]),
        ("w13", vec![(0, 1), (1, 3)]),
        ("w001", vec![(0, 0), (1, 0), (2, 1)]),
        ("w00", vec![(0, 0), (1, 0)]),
    ]
}

pub fn configs(prop: &str, thorough: bool) -> Vec<(Cfg, Option<usize>)> {
    let mut out: Vec<(Cfg, Option<usize>)> = vec![];
    match prop {
        "C03" => {
            let p = Props { c03: true, ..Default::default() };
            let mut i = 0usize;
            for flex in [false, true] {
                for (wn, wv) in weight_vectors() {
                    let total: u64 = wv.iter().map(|x| x.1).sum();
                    for (tn, th) in thresholds(total) {
                        for per in [Per::H(2), Per::T(2 * DT)] {
                            i += 1;
                            // quick: a covering subset (every threshold kind x every weight vector at least once, both contracts)
                            if !thorough && i % 4 != 0 && !(wn == "w011" && (tn == "pct51" || tn == "q50-33.3" || tn == "count1") && per == Per::H(2)) && !(wn == "w123" && tn == "q50-33.3" && per == Per::H(2)) {
                                continue;
                            }
                            let mut c = Cfg::base(&format!("C03/{}/{wn}/{tn}/{}", if flex { "flex" } else { "fixed" }, if per == Per::H(2) { "height" } else { "time" }), flex);
                            c.props = p.clone();
                            c.voters = wv.clone();
                            c.th = th;
                            c.period = per;
                            c.proposers = vec![0, 1, 3];
                            c.latest = vec![LatestA::Unset, LatestA::Shorter, LatestA::AlreadyExpired];
                            c.voters_acting = vec![0, 1, 2, 3];
                            c.executors = vec![0, 3];
                            c.closers = vec![1, 3];
                            c.blocks = 4;
                            c.exec_iff = true;
                            out.push((c, None));
                        }
                    }
                }
            }
            // sub-second block times: the expiry instant falls inside a second (period 1 s, blocks 0.6 s apart), so
            // "same second" and "ended" are different things
            for flex in [false, true] {
                for (tn, th) in [("count2", Th::Count(2)), ("pct51", Th::Pct(pct(510_000_000))), ("q50-33.3", Th::Quorum { t: pct(500_000_000), q: pct(333_333_333) })] {
                    if !thorough && flex == (tn == "q50-33.3") {
                        continue;
                    }
                    let mut c = Cfg::base(&format!("C03/{}/w111/{tn}/sub-second-clock", if flex { "flex" } else { "fixed" }), flex);
                    c.props = p.clone();
                    c.th = th;
                    c.period = Per::T(1);
                    c.tick_ns = 600_000_000;
                    c.proposers = vec![0];
                    c.latest = vec![LatestA::Unset, LatestA::Shorter];
                    c.voters_acting = vec![1, 2];
                    c.executors = vec![3];
                    c.closers = vec![3];
                    c.blocks = 4;
                    c.exec_iff = true;
                    out.push((c, None));
                }
            }
            // a proposal whose message makes the multisig close / execute the previous proposal (calls whose sender is
            // the multisig itself): the status of the previous proposal must keep following its ballots
            for flex in [false, true] {
                let mut c = Cfg::base(&format!("C03/{}/w111/count2/nested-close-and-execute", if flex { "flex" } else { "fixed" }), flex);
                c.props = p.clone();
                c.th = Th::Count(2);
                c.max_props = 2;
                c.kinds = vec![PK::Empty, PK::ClosePrev, PK::ExecPrev];
                c.proposers = vec![0];
                c.votes = vec![VoteA::Yes, VoteA::No];
                c.voters_acting = vec![1, 2];
                c.executors = vec![3];
                c.closers = vec![3];
                c.blocks = 3;
                out.push((c, None));
            }
            // a multisig that takes a deposit and refunds failed proposals: the vote that rejects (and pays back) must
            // still leave the status and the tally where the ballots put them
            for (tn, th) in [("pct51", Th::Pct(pct(510_000_000))), ("q60-10", Th::Quorum { t: pct(600_000_000), q: pct(100_000_000) })] {
                let mut c = Cfg::base(&format!("C03/flex/w124/{tn}/native-deposit-refunded-on-rejection"), true);
                c.props = p.clone();
                // C alone (4 of 7) rejects before expiry under both rules; A and B together (3) would pass a tally that forgot C
                c.voters = vec![(0, 1), (1, 2), (2, 4)];
                c.th = th;
                c.deposit = Dep::Native { amount: 2, refund: true };
                c.funds = vec![vec![(0, 2)]];
                c.purse = 2;
                c.proposers = vec![0];
                c.votes = vec![VoteA::Yes, VoteA::No];
                c.voters_acting = vec![1, 2];
                c.executors = vec![3];
                c.closers = vec![3];
                c.blocks = 3;
                out.push((c, None));
            }
            // flex: the group changes AFTER the proposal was opened (status must keep following its own snapshot)
            for (n, wv, th) in [
                ("A1,B2,C1/pct51", vec![(0u8, 1u64), (1, 2), (2, 1)], Th::Pct(pct(510_000_000))),
                ("A2,B2/q50-33.3", vec![(0, 2), (1, 2)], Th::Quorum { t: pct(500_000_000), q: pct(333_333_333) }),
                ("A1,B1,C1/count2", vec![(0, 1), (1, 1), (2, 1)], Th::Count(2)),
            ] {
                if !thorough && n.starts_with("A2,B2") {
                    continue;
                }
                let mut c = Cfg::base(&format!("C03/flex/group-changes-after-opening/{n}"), true);
                c.props = p.clone();
                c.actors = vec!["A", "B", "C", "X", "ADM"];
                c.group_admin = 4;
                c.voters = wv.clone();
                c.th = th;
                c.proposers = vec![0];
                c.votes = vec![VoteA::Yes, VoteA::No, VoteA::Abstain];
                c.voters_acting = vec![0, 1, 2, 3];
                c.executors = vec![3];
                c.closers = vec![3];
                c.blocks = 3;
                c.edits = vec![
                    GroupEdit { remove: vec![1], add: vec![] },
                    GroupEdit { remove: vec![], add: vec![(3, 10)] },
                    GroupEdit { remove: vec![], add: vec![(0, 0)] },
                ];
                c.editors = vec![4];
                c.max_edits = 2;
                c.hooked = true;
                c.edits_after_proposal = true;
                c.exec_iff = true;
                out.push((c, None));
            }
            // flex: weights are RAISED or members added in the proposal's own block, before it is opened
            // (only increases: the reported total then still covers every ballot, so the status must follow)
            for (n, wv, th) in [
                ("A1,B2,C1/pct51", vec![(0u8, 1u64), (1, 2), (2, 1)], Th::Pct(pct(510_000_000))),
                ("A1,B4,C5/q51-50", vec![(0, 1), (1, 4), (2, 5)], Th::Quorum { t: pct(510_000_000), q: pct(500_000_000) }),
            ] {
                if !thorough && n.starts_with("A1,B4") {
                    continue;
                }
                let mut c = Cfg::base(&format!("C03/flex/group-raised-in-the-opening-block/{n}"), true);
                c.props = p.clone();
                c.actors = vec!["A", "B", "C", "X", "ADM"];
                c.group_admin = 4;
                c.voters = wv.clone();
                c.th = th;
                c.proposers = vec![0, 3];
                c.votes = vec![VoteA::Yes, VoteA::No, VoteA::Abstain];
                c.voters_acting = vec![0, 1, 2, 3];
                c.executors = vec![3];
                c.closers = vec![3];
                c.blocks = 3;
                c.edits = vec![GroupEdit { remove: vec![], add: vec![(0, 10)] }, GroupEdit { remove: vec![], add: vec![(3, 4)] }];
                c.editors = vec![4];
                c.max_edits = 1;
                c.exec_iff = true;
                out.push((c, None));
            }
            // two concurrent proposals
            let two: Vec<(&str, Vec<(u8, u64)>, Th)> = vec![
                ("w111/pct51", vec![(0, 1), (1, 1), (2, 1)], Th::Pct(pct(510_000_000))),
                ("w012/q50-33.3", vec![(0, 0), (1, 1), (2, 2)], Th::Quorum { t: pct(500_000_000), q: pct(333_333_333) }),
                ("w123/count2", vec![(0, 1), (1, 2), (2, 3)], Th::Count(2)),
                ("w011/pct100", vec![(0, 0), (1, 1), (2, 1)], Th::Pct(pct(1_000_000_000))),
                ("w13/q66.7-40", vec![(0, 1), (1, 3)], Th::Quorum { t: pct(667_000_000), q: pct(400_000_000) }),
                ("w111/q100-100", vec![(0, 1), (1, 1), (2, 1)], Th::Quorum { t: pct(1_000_000_000), q: pct(1_000_000_000) }),
            ];
            for (k, (n, wv, th)) in two.into_iter().enumerate() {
                for flex in [false, true] {
                    if !thorough && !(k < 2 && flex == (k == 1)) {
                        continue;
                    }
                    let mut c = Cfg::base(&format!("C03/two-proposals/{}/{n}", if flex { "flex" } else { "fixed" }), flex);
                    c.props = p.clone();
                    c.voters = wv.clone();
                    c.th = th;
                    c.max_props = 2;
                    c.proposers = vec![0, 1];
                    c.votes = if thorough { vec![VoteA::Yes, VoteA::No, VoteA::Abstain, VoteA::Veto] } else { vec![VoteA::Yes, VoteA::No, VoteA::Abstain] };
                    c.voters_acting = vec![0, 1, 2];
                    c.executors = vec![3];
                    c.closers = vec![3];
                    c.blocks = 3;
                    c.exec_iff = true;
                    out.push((c, None));
                }
            }
        }
        "C05" => {
            let p = Props { c05: true, c03: true, ..Default::default() };
            let all_latest = vec![LatestA::Unset, LatestA::Shorter, LatestA::Longer, LatestA::Never, LatestA::OtherKind];
            let ths: Vec<(&str, Th)> = vec![
                ("count2", Th::Count(2)),
                ("pct51", Th::Pct(pct(510_000_000))),
                ("q51-50", Th::Quorum { t: pct(510_000_000), q: pct(500_000_000) }),
            ];
            let mut k = 0;
            for flex in [false, true] {
                for (tn, th) in &ths {
                    for ex in [Exec::Anyone, Exec::Member, Exec::Only(3)] {
                        if !flex && ex != Exec::Anyone {
                            continue;
                        }
                        for per in [Per::H(2), Per::T(2 * DT)] {
                            k += 1;
                            if !thorough && !(k % 2 == 1) {
                                continue;
                            }
                            // (a) tagged messages, failing receiver, retries
                            let mut c = Cfg::base(&format!("C05/{}/{tn}/{:?}/{}/tags+faults", if flex { "flex" } else { "fixed" }, ex, if per == Per::H(2) { "height" } else { "time" }), flex);
                            c.props = p.clone();
                            c.actors = vec!["A", "B", "Z", "X"];
                            c.voters = vec![(0, 1), (1, 1), (2, 0)];
                            c.th = *th;
                            c.period = per;
                            c.executor = ex;
                            c.max_props = 2;
                            c.kinds = vec![PK::Tag1, PK::Tag2];
                            c.latest = all_latest.clone();
                            c.votes = vec![VoteA::Yes, VoteA::No];
                            c.proposers = vec![0];
                            c.voters_acting = vec![1, 2, 3];
                            c.executors = vec![0, 2, 3];
                            c.closers = vec![2, 3];
                            c.blocks = 3;
                            c.max_faults = if thorough { 2 } else { 1 };
                            out.push((c, None));
                        }
                    }
                }
            }
            // (a-) a proposal that lists the very same message twice in a row (two equal instalments), and the proposer
            // itself as the caller of Close before and after expiry
            for (flex, per, cnt) in [(false, Per::H(2), 2u64), (true, Per::H(2), 2), (false, Per::T(2 * DT), 2), (true, Per::T(2 * DT), 1), (false, Per::H(2), 1)] {
                // (time-based periods too; with count 1 the proposer's own weight decides at creation)
                let tag = if per == Per::H(2) { "height" } else { "time" };
                let name = if per == Per::H(2) && cnt == 2 {
                    format!("C05/{}/count2/Anyone/height/repeated-message+proposer-closes", if flex { "flex" } else { "fixed" })
                } else {
                    format!("C05/{}/count{cnt}/Anyone/{tag}/repeated-message+proposer-closes", if flex { "flex" } else { "fixed" })
                };
                let mut c = Cfg::base(&name, flex);
                c.period = per;
                c.props = Props { c05: true, c03: true, ..Default::default() };
                c.actors = vec!["A", "B", "Z", "X"];
                c.voters = vec![(0, 1), (1, 1), (2, 0)];
                c.th = Th::Count(cnt);
                c.max_props = 1;
                // (where the period is height-based and two votes are needed: also a proposal of 31 messages, more than a page of any listing)
                c.kinds = if per == Per::H(2) && cnt == 2 { vec![PK::TagTwice, PK::Tag31] } else { vec![PK::TagTwice] };
                c.votes = vec![VoteA::Yes, VoteA::No];
                c.proposers = vec![0];
                c.voters_acting = vec![1];
                c.executors = vec![3];
                c.closers = vec![0, 3];
                c.blocks = 3;
                c.max_faults = 1;
                out.push((c, None));
            }
            // (a') Member executor while the group changes: a voter removed from the group may no longer execute
            for (tn, th) in &ths {
                if !thorough && *tn != "count2" {
                    continue;
                }
                let mut c = Cfg::base(&format!("C05/flex/{tn}/Member/height/group-changes"), true);
                c.props = p.clone();
                c.actors = vec!["A", "B", "Z", "X", "ADM"];
                c.group_admin = 4;
                c.voters = vec![(0, 1), (1, 1), (2, 0)];
                c.th = *th;
                c.executor = Exec::Member;
                c.max_props = 1;
                c.kinds = vec![PK::Tag1];
                c.votes = vec![VoteA::Yes, VoteA::No];
                c.proposers = vec![0];
                c.voters_acting = vec![1, 2];
                c.executors = vec![0, 1, 2, 3];
                c.closers = vec![3];
                c.blocks = 3;
                c.edits = vec![GroupEdit { remove: vec![1], add: vec![] }, GroupEdit { remove: vec![0], add: vec![(3, 1)] }];
                c.editors = vec![4];
                c.max_edits = 2;
                c.edits_after_proposal = true;
                c.hooked = true;
                out.push((c, None));
            }
            // (a0) the dedicated executor is named in an unusual spelling of an address (upper-case bech32): whatever
            // the multisig makes of it, nobody else becomes entitled to execute
            {
                let mut c = Cfg::base("C05/flex/count2/Only(^X)/height/executor-in-upper-case", true);
                c.props = p.clone();
                c.actors = vec!["A", "B", "Z", "X", "^X"];
                c.voters = vec![(0, 1), (1, 1)];
                c.th = Th::Count(2);
                c.executor = Exec::Only(4);
                c.max_props = 1;
                c.kinds = vec![PK::Tag1];
                c.votes = vec![VoteA::Yes, VoteA::No];
                c.proposers = vec![0];
                c.voters_acting = vec![1];
                c.executors = vec![0, 2, 3];
                c.closers = vec![3];
                c.blocks = 3;
                out.push((c, None));
            }
            // (a1) Executor::Member with a non-voting (weight 0) member that the group admin removes later
            {
                let mut c = Cfg::base("C05/flex/count2/Member/height/zero-weight-member-removed", true);
                c.props = p.clone();
                c.actors = vec!["A", "B", "C", "X", "ADM"];
                c.group_admin = 4;
                c.voters = vec![(0, 1), (1, 1), (2, 0)];
                c.th = Th::Count(2);
                c.executor = Exec::Member;
                c.max_props = 1;
                c.kinds = vec![PK::Tag1];
                c.votes = vec![VoteA::Yes];
                c.proposers = vec![0];
                c.voters_acting = vec![1];
                c.executors = vec![2, 3];
                c.closers = vec![3];
                c.blocks = 2;
                c.edits = vec![GroupEdit { remove: vec![2], add: vec![] }, GroupEdit { remove: vec![], add: vec![(3, 0)] }];
                c.editors = vec![4];
                c.max_edits = 2;
                c.hooked = true;
                out.push((c, None));
            }
            // (a2) the group changes in the very block in which the proposal is opened (before and after the Propose):
            // whatever the proposal recorded at creation stays what it is, through later votes by members the change
            // removed or re-weighted
            {
                let mut c = Cfg::base("C05/flex/pct51/Anyone/height/group-changes-in-the-opening-block", true);
                c.props = p.clone();
                c.actors = vec!["A", "B", "C", "X", "ADM"];
                c.group_admin = 4;
                c.voters = vec![(0, 1), (1, 5), (2, 1)];
                c.th = Th::Pct(pct(510_000_000));
                c.max_props = 1;
                c.kinds = vec![PK::Tag1];
                c.votes = vec![VoteA::Yes, VoteA::No];
                c.proposers = vec![0];
                c.voters_acting = vec![1, 2];
                c.executors = vec![3];
                c.closers = vec![3];
                c.blocks = 2;
                c.edits = vec![GroupEdit { remove: vec![1], add: vec![] }, GroupEdit { remove: vec![], add: vec![(2, 4)] }];
                c.editors = vec![4];
                c.max_edits = 1;
                c.hooked = true;
                out.push((c, None));
            }
            // (a3) an Abstain that tips the outcome (the base of a percentage shrinks): what the queries report and
            // what Execute admits must move together
            for flex in [false, true] {
                for (tn, th) in [("pct50", Th::Pct(pct(500_000_000))), ("q50-25", Th::Quorum { t: pct(500_000_000), q: pct(250_000_000) })] {
                    if !thorough && flex != (tn == "pct50") {
                        continue;
                    }
                    let mut c = Cfg::base(&format!("C05/{}/{tn}/Anyone/height/abstain-tips-the-outcome", if flex { "flex" } else { "fixed" }), flex);
                    c.props = p.clone();
                    c.voters = vec![(0, 1), (1, 1), (2, 2)];
                    c.th = th;
                    c.max_props = 1;
                    c.kinds = vec![PK::Tag1];
                    c.votes = vec![VoteA::Yes, VoteA::No, VoteA::Abstain, VoteA::Veto];
                    c.proposers = vec![0];
                    c.voters_acting = vec![1, 2];
                    c.executors = vec![3];
                    c.closers = vec![3];
                    c.blocks = 3;
                    out.push((c, None));
                }
            }
            // (a'') a configured deposit must not change what Execute relays
            for cw20 in [false, true] {
                if !thorough && cw20 {
                    continue;
                }
                let mut c = Cfg::base(&format!("C05/flex/count2/Anyone/height/tags+{}-deposit", if cw20 { "cw20" } else { "native" }), true);
                c.props = p.clone();
                c.voters = vec![(0, 1), (1, 1)];
                c.th = Th::Count(2);
                c.deposit = if cw20 { Dep::Cw20 { amount: 1, refund: true } } else { Dep::Native { amount: 1, refund: true } };
                c.max_props = 2;
                // a text-only proposal (no messages) among them: executing it relays nothing but still executes it
                c.kinds = vec![PK::Empty, PK::Tag1, PK::Tag2, PK::ExecPrev];
                c.votes = vec![VoteA::Yes, VoteA::No];
                c.proposers = vec![0];
                c.voters_acting = vec![1];
                c.executors = vec![0, 3];
                c.closers = vec![3];
                c.blocks = 3;
                c.purse = 2;
                if cw20 {
                    c.allow_amts = vec![1];
                    c.max_allow = 2;
                } else {
                    c.funds = vec![vec![(0, 1)]];
                }
                out.push((c, None));
            }
            // (b) re-entrancy and nesting, funding
            for flex in [false, true] {
                for (ki, kinds) in [vec![PK::Reenter, PK::Tag1], vec![PK::Tag1, PK::ExecPrev], vec![PK::Tag1, PK::ClosePrev], vec![PK::Pay, PK::Tag1]].into_iter().enumerate() {
                    for ex in [Exec::Anyone, Exec::Only(3), Exec::Member] {
                        if !flex && ex != Exec::Anyone {
                            continue;
                        }
                        // quick: restricted executors only for the nested Execute (a call whose sender is the multisig itself)
                        if !thorough && ex != Exec::Anyone && ki != 1 {
                            continue;
                        }
                        let mut c = Cfg::base(&format!("C05/{}/{:?}/{:?}/reentrancy", if flex { "flex" } else { "fixed" }, kinds, ex), flex);
                        c.props = p.clone();
                        c.voters = vec![(0, 1), (1, 1)];
                        c.actors = vec!["A", "B", "Z", "X"];
                        c.th = Th::Count(2);
                        c.executor = ex;
                        c.max_props = if thorough { 3 } else { 2 };
                        c.kinds = kinds.clone();
                        c.latest = vec![LatestA::Unset];
                        c.votes = vec![VoteA::Yes, VoteA::No];
                        c.proposers = vec![0];
                        c.voters_acting = vec![1, 3];
                        c.executors = vec![0, 3];
                        c.closers = vec![3];
                        c.blocks = 3;
                        c.max_fund = if kinds.contains(&PK::Pay) { 2 } else { 0 };
                        c.max_faults = if thorough { 1 } else { 0 };
                        out.push((c, None));
                    }
                }
            }
        }
        "C06" => {
            let p = Props { c06: true, ..Default::default() };
            // fixed: voter lists accepted at instantiation
            for (n, wv) in [
                ("A1,B1,C1", vec![(0u8, 1u64), (1, 1), (2, 1)]),
                ("A0,B1,C2", vec![(0, 0), (1, 1), (2, 2)]),
                ("A1,A2,B1(repeated)", vec![(0, 1), (0, 2), (1, 1)]),
                ("A0,B1,B2(repeated)", vec![(0, 0), (1, 1), (1, 2)]),
                ("Amax-1,B1,C1(sum exceeds u64)", vec![(0, u64::MAX - 1), (1, 1), (2, 1)]),
                ("A1,B1,A2(repeated-apart)", vec![(0, 1), (1, 1), (0, 2)]),
                ("A3,B1,C1,A1(repeated-apart)", vec![(0, 3), (1, 1), (2, 1), (0, 1)]),
                ("A1(single)", vec![(0, 1)]),
                ("A0,B0,C1", vec![(0, 0), (1, 0), (2, 1)]),
                ("A2,B1,A0(repeated with zero weight)", vec![(0, 2), (1, 1), (0, 0)]),
                ("A0,B1,A2(repeated with zero weight)", vec![(0, 0), (1, 1), (0, 2)]),
                ("A0,A0,B1(repeated with zero weight)", vec![(0, 0), (0, 0), (1, 1)]),
            ] {
                for th in [Th::Count(1), Th::Pct(pct(510_000_000))] {
                    let mut c = Cfg::base(&format!("C06/fixed/{n}/{:?}", th), false);
                    c.props = p.clone();
                    c.voters = wv.clone();
                    c.th = th;
                    c.max_props = 2;
                    c.proposers = vec![0, 1, 3];
                    c.votes = vec![VoteA::Yes, VoteA::No];
                    c.voters_acting = vec![0, 1, 2, 3];
                    c.executors = vec![3];
                    c.closers = vec![3];
                    c.blocks = 3;
                    if n == "A1,B1,C1" {
                        // every vote kind, so that a second ballot after an Abstain / Veto is tried too
                        c.max_props = 1;
                        c.votes = vec![VoteA::Yes, VoteA::No, VoteA::Abstain, VoteA::Veto];
                    }
                    out.push((c, None));
                }
            }
            // one voter named in two spellings of its address
            {
                let mut c = Cfg::base("C06/fixed/A1,B1,^A2(two spellings)/Count(1)", false);
                c.props = p.clone();
                c.actors = vec!["A", "B", "C", "X", "^A"];
                c.voters = vec![(0, 1), (1, 1), (4, 2)];
                c.th = Th::Count(1);
                c.proposers = vec![0, 1];
                c.votes = vec![VoteA::Yes, VoteA::No];
                c.voters_acting = vec![0, 1];
                c.executors = vec![3];
                c.closers = vec![3];
                c.blocks = 2;
                out.push((c, None));
            }
            // more voters than the largest page (30): totals, ballots and eligibility of the last ones in address order
            for (flex, th33) in [(false, Th::Count(17)), (true, Th::Count(17)), (false, Th::Pct(pct(510_000_000))), (true, Th::Pct(pct(510_000_000)))] {
                let names: Vec<&'static str> = vec![
                    "V00", "V01", "V02", "V03", "V04", "V05", "V06", "V07", "V08", "V09", "V10", "V11", "V12", "V13", "V14", "V15", "V16",
                    "V17", "V18", "V19", "V20", "V21", "V22", "V23", "V24", "V25", "V26", "V27", "V28", "V29", "V30", "V31", "V32", "ADM",
                ];
                let mut c = Cfg::base(&format!("C06/{}/33-voters/{}", if flex { "flex" } else { "fixed" }, if th33 == Th::Count(17) { "Count(17)" } else { "pct51" }), flex);
                c.props = Props { c06: true, c03: true, ..Default::default() };
                c.actors = names.clone();
                // the three voters that sort last by ADDRESS (whatever their labels) are among the actors that act
                let mut by_addr: Vec<u8> = (0..33u8).collect();
                by_addr.sort_by_key(|i| mc::world::addr_cached(names[*i as usize]));
                c.voters = (0..33u8).map(|i| (i, 1 + (i as u64 % 2))).collect();
                c.group_admin = 33;
                c.th = th33;
                c.proposers = vec![by_addr[0], by_addr[32]];
                c.votes = vec![VoteA::Yes];
                c.voters_acting = vec![by_addr[1], by_addr[30], by_addr[31], by_addr[32]];
                c.executors = vec![by_addr[0]];
                c.closers = vec![];
                c.blocks = 1;
                if flex {
                    c.edits = vec![GroupEdit { remove: vec![], add: vec![(by_addr[32], 5)] }, GroupEdit { remove: vec![by_addr[31]], add: vec![] }];
                    c.editors = vec![33];
                    c.max_edits = 1;
                    c.hooked = true;
                }
                out.push((c, Some(4)));
            }
            // the expiry instant inside a second (sub-second block times): votes just before / at / after it
            for flex in [false, true] {
                let mut c = Cfg::base(&format!("C06/{}/A1,B1,C1/Count(2)/sub-second-clock", if flex { "flex" } else { "fixed" }), flex);
                c.props = Props { c06: true, c03: true, ..Default::default() };
                c.th = Th::Count(2);
                c.period = Per::T(1);
                c.tick_ns = 600_000_000;
                c.proposers = vec![0];
                c.latest = vec![LatestA::Unset, LatestA::Shorter];
                c.votes = vec![VoteA::Yes, VoteA::No];
                c.voters_acting = vec![1, 2, 3];
                c.executors = vec![3];
                c.closers = vec![3];
                c.blocks = 4;
                out.push((c, None));
            }
            // the group behind the multisig is a cw4-stake contract: members change their own weight by bonding and
            // unbonding (down to nothing) while proposals are open
            for (tn, th) in [("count2", Th::Count(2)), ("pct51", Th::Pct(pct(510_000_000)))] {
                if !thorough && tn != "count2" {
                    continue;
                }
                let mut c = Cfg::base(&format!("C06/flex-on-cw4-stake/A1,B2,C1/{tn}/stake-moves"), true);
                c.props = Props { c06: true, c03: true, ..Default::default() };
                c.actors = vec!["A", "B", "C", "X", "ADM"];
                c.group_admin = 4;
                c.stake_group = true;
                c.voters = vec![(0, 1), (1, 2), (2, 1)];
                c.th = th;
                c.max_props = 1;
                c.proposers = vec![0, 3];
                c.votes = vec![VoteA::Yes, VoteA::No];
                c.voters_acting = vec![1, 2, 3];
                c.executors = vec![3];
                c.closers = vec![3];
                c.blocks = 2;
                c.edits = vec![
                    GroupEdit { remove: vec![1], add: vec![] },
                    GroupEdit { remove: vec![], add: vec![(1, 1)] },
                    GroupEdit { remove: vec![], add: vec![(3, 2)] },
                    GroupEdit { remove: vec![], add: vec![(2, 3)] },
                ];
                c.editors = vec![4];
                c.max_edits = 2;
                out.push((c, None));
            }
            // the multisig is unregistered as a hook (and possibly registered again) while proposals are open
            {
                let mut c = Cfg::base("C06/flex/A1,B2,C1/count2/hook-unregistered-later", true);
                c.props = Props { c06: true, c03: true, ..Default::default() };
                c.actors = vec!["A", "B", "C", "X", "ADM"];
                c.group_admin = 4;
                c.voters = vec![(0, 1), (1, 2), (2, 1)];
                c.th = Th::Count(2);
                c.max_props = 1;
                c.proposers = vec![0];
                c.votes = vec![VoteA::Yes];
                c.voters_acting = vec![1, 2, 3];
                c.executors = vec![3];
                c.closers = vec![];
                c.blocks = 2;
                c.edits = vec![GroupEdit { remove: vec![], add: vec![(1, 6), (3, 2)] }, GroupEdit { remove: vec![2], add: vec![] }];
                c.editors = vec![4];
                c.max_edits = 2;
                c.hooked = true;
                c.hook_toggle = true;
                out.push((c, None));
            }
            // flex: group edits placed before / in the same block as / after proposals and votes
            let edits = vec![
                GroupEdit { remove: vec![1], add: vec![] },
                GroupEdit { remove: vec![], add: vec![(3, 2)] },
                GroupEdit { remove: vec![], add: vec![(0, 3)] },
                GroupEdit { remove: vec![], add: vec![(2, 0)] },
                GroupEdit { remove: vec![], add: vec![(1, 5)] },
                GroupEdit { remove: vec![2, 2], add: vec![] },
            ];
            for (n, wv, th) in [
                ("A1,B5,C1/count2", vec![(0u8, 1u64), (1, 5), (2, 1)], Th::Count(2)),
                ("A0,B1/pct51", vec![(0, 0), (1, 1)], Th::Pct(pct(510_000_000))),
                ("A1,B5,C1/q51-50", vec![(0, 1), (1, 5), (2, 1)], Th::Quorum { t: pct(510_000_000), q: pct(500_000_000) }),
            ] {
                if !thorough && n.starts_with("A1,B5,C1/q") {
                    continue;
                }
                // shapes (proposals, group edits, blocks after opening); sized so that every configuration reaches its fixpoint within memory
                let shapes: Vec<(usize, u8, u64)> = if !thorough {
                    vec![(1, 2, 2)]
                } else if wv.len() >= 3 {
                    vec![(2, 1, 2), (1, 3, 3)]
                } else {
                    vec![(2, 2, 2), (1, 3, 3)]
                };
                for (np, ne, nb) in shapes {
                    let mut c = Cfg::base(&if thorough { format!("C06/flex/{n}/edits/{np}p{ne}e{nb}b") } else { format!("C06/flex/{n}/edits") }, true);
                    c.props = Props { c06: true, c03: true, ..Default::default() };
                    c.actors = vec!["A", "B", "C", "X", "ADM"];
                    c.group_admin = 4;
                    c.voters = wv.clone();
                    c.th = th;
                    c.max_props = np;
                    c.proposers = if wv.len() == 2 { vec![0, 1, 3] } else { vec![0, 3] };
                    c.votes = if np == 1 { vec![VoteA::Yes, VoteA::No, VoteA::Abstain] } else { vec![VoteA::Yes, VoteA::No] };
                    c.exec_iff = true;
                    c.voters_acting = vec![0, 1, 2, 3];
                    c.executors = vec![3];
                    c.closers = vec![3];
                    c.blocks = nb;
                    c.edits = edits.clone();
                    c.editors = vec![4, 0];
                    c.max_edits = ne;
                    // the usual deployment: the multisig listens to its group
                    c.hooked = n.starts_with("A1,B5,C1");
                    out.push((c, None));
                }
            }
        }
        "C15" => {
            let p = Props { c15: true, ..Default::default() };
            let ths: Vec<(&str, Th)> = vec![
                ("count3", Th::Count(3)),
                ("pct51", Th::Pct(pct(510_000_000))),
                ("q51-50", Th::Quorum { t: pct(510_000_000), q: pct(500_000_000) }),
            ];
            let mut k = 0;
            for (gn, wv) in [("A1,C3", vec![(0u8, 1u64), (2, 3)]), ("A1,B1,C1", vec![(0, 1), (1, 1), (2, 1)])] {
                for (tn, th) in &ths {
                    if let Th::Count(w) = th {
                        if *w > wv.iter().map(|x| x.1).sum::<u64>() {
                            continue;
                        }
                    }
                    for refund in [true, false] {
                        for cw20 in [false, true] {
                            k += 1;
                            if !thorough && k % 4 != 1 && !(gn == "A1,C3" && *tn == "pct51" && refund) {
                                continue;
                            }
                            let per = if k % 2 == 0 { Per::T(2 * DT) } else { Per::H(2) };
                            let mut c = Cfg::base(&format!("C15/{gn}/{tn}/{}/refund={refund}/{}", if cw20 { "cw20" } else { "native" }, if per == Per::H(2) { "height" } else { "time" }), true);
                            c.period = per;
                            c.props = p.clone();
                            c.voters = wv.clone();
                            c.th = *th;
                            c.deposit = if cw20 { Dep::Cw20 { amount: 2, refund } } else { Dep::Native { amount: 2, refund } };
                            c.max_props = 2;
                            c.kinds = vec![PK::Empty];
                            c.latest = vec![LatestA::Unset, LatestA::Shorter, LatestA::AlreadyExpired];
                            c.proposers = vec![0, 3];
                            c.votes = vec![VoteA::Yes, VoteA::No];
                            c.voters_acting = vec![1, 2];
                            c.executors = vec![0, 3];
                            c.closers = vec![0, 3];
                            c.blocks = 3;
                            c.purse = 4;
                            if cw20 {
                                c.funds = vec![vec![], vec![(0, 1)]];
                                c.allow_amts = vec![1, 2, 3];
                                c.max_allow = 4;
                            } else {
                                c.funds = vec![vec![], vec![(0, 1)], vec![(0, 2)], vec![(0, 3)], vec![(1, 1)], vec![(0, 2), (1, 1)], vec![(0, 0), (1, 1)], vec![(0, 0), (1, 2)], vec![(3, 2)]];
                            }
                            out.push((c, None));
                        }
                    }
                }
            }
            // a quorum proposal that stays Open for the whole period and is voted down only by the
            // at-expiry rule (No outweighs Yes among the votes cast): Close must still return the deposit
            // ... and one that stays Open for the whole period and PASSES only by the at-expiry rule: Execute must
            // return the deposit whether or not refunds for failed proposals are enabled
            for (per, refund) in [(Per::H(2), true), (Per::T(2 * DT), true), (Per::H(2), false), (Per::T(2 * DT), false)] {
                if !thorough && per != Per::H(2) {
                    continue;
                }
                let mut c = Cfg::base(&format!("C15/A1,B3,C4/q51-50/native/refund={refund}/{}", if per == Per::H(2) { "height" } else { "time" }), true);
                c.props = p.clone();
                c.voters = vec![(0, 1), (1, 3), (2, 4)];
                c.th = Th::Quorum { t: pct(510_000_000), q: pct(500_000_000) };
                c.period = per;
                c.deposit = Dep::Native { amount: 2, refund };
                c.max_props = 1;
                c.latest = vec![LatestA::Unset, LatestA::AlreadyExpired];
                c.proposers = vec![0];
                c.votes = vec![VoteA::Yes, VoteA::No, VoteA::Abstain];
                c.voters_acting = vec![1, 2];
                c.executors = vec![3];
                c.closers = vec![0, 3];
                c.blocks = 3;
                c.purse = 4;
                c.funds = vec![vec![(0, 2)]];
                out.push((c, None));
            }
            // a rejection tipped by an Abstain (shrinking base): A proposes, B(3) votes No, C(2) abstains
            for (tn, th) in [("pct51", Th::Pct(pct(510_000_000))), ("q51-50", Th::Quorum { t: pct(510_000_000), q: pct(500_000_000) })] {
                for cw20 in [false, true] {
                    if !thorough && (cw20 || tn != "pct51") {
                        continue;
                    }
                    let mut c = Cfg::base(&format!("C15/A1,B3,C2/{tn}/{}/refund=true/all-vote-kinds", if cw20 { "cw20" } else { "native" }), true);
                    c.props = p.clone();
                    c.voters = vec![(0, 1), (1, 3), (2, 2)];
                    c.th = th;
                    c.deposit = if cw20 { Dep::Cw20 { amount: 2, refund: true } } else { Dep::Native { amount: 2, refund: true } };
                    c.max_props = 1;
                    c.proposers = vec![0];
                    c.votes = vec![VoteA::Yes, VoteA::No, VoteA::Abstain, VoteA::Veto];
                    c.voters_acting = vec![1, 2];
                    c.executors = vec![3];
                    c.closers = vec![0, 3];
                    c.blocks = 3;
                    c.purse = 4;
                    if cw20 {
                        c.allow_amts = vec![2];
                        c.max_allow = 2;
                    } else {
                        c.funds = vec![vec![(0, 2)]];
                    }
                    out.push((c, None));
                }
            }
            // a zero-weight member proposes and everybody else only abstains ("0 of 0" opinions): the proposal fails
            // and its deposit must still be recoverable
            for (tn, th) in [("pct51", Th::Pct(pct(510_000_000))), ("q51-50", Th::Quorum { t: pct(510_000_000), q: pct(500_000_000) })] {
                let mut c = Cfg::base(&format!("C15/A0,B1,C1/{tn}/native/refund=true/zero-weight-proposer-abstentions"), true);
                c.props = p.clone();
                c.voters = vec![(0, 0), (1, 1), (2, 1)];
                c.th = th;
                c.deposit = Dep::Native { amount: 2, refund: true };
                c.max_props = 1;
                c.proposers = vec![0];
                c.votes = vec![VoteA::Abstain, VoteA::No, VoteA::Yes];
                c.voters_acting = vec![1, 2];
                c.executors = vec![3];
                c.closers = vec![0, 3];
                c.blocks = 3;
                c.purse = 4;
                c.funds = vec![vec![(0, 2)]];
                out.push((c, None));
            }
            // the multisig listens to its group: a membership change arriving while a failed proposal's deposit is
            // still owed must not make it unrecoverable
            {
                let mut c = Cfg::base("C15/A1,B1,C1/count3/native/refund=true/hooked-group-changes", true);
                c.props = p.clone();
                c.actors = vec!["A", "B", "C", "X", "ADM"];
                c.group_admin = 4;
                c.voters = vec![(0, 1), (1, 1), (2, 1)];
                c.th = Th::Count(3);
                c.deposit = Dep::Native { amount: 2, refund: true };
                c.max_props = 1;
                c.proposers = vec![0];
                c.votes = vec![VoteA::Yes, VoteA::No];
                c.voters_acting = vec![1];
                c.executors = vec![3];
                c.closers = vec![0, 3];
                c.blocks = 3;
                c.purse = 4;
                c.funds = vec![vec![(0, 2)]];
                c.edits = vec![GroupEdit { remove: vec![], add: vec![(3, 1)] }, GroupEdit { remove: vec![2], add: vec![] }];
                c.editors = vec![4];
                c.max_edits = 2;
                c.hooked = true;
                out.push((c, None));
            }
            // the group is changed in the very block in which a deposit-paying proposal is opened (the proposal then
            // records the group's current total while voters keep their start-of-block weights): whatever the tally
            // does, the deposit goes back at most once
            {
                let mut c = Cfg::base("C15/A2,B2,C5/count4/native/refund=true/group-changed-in-the-opening-block", true);
                c.props = p.clone();
                c.actors = vec!["A", "B", "C", "X", "ADM"];
                c.group_admin = 4;
                c.voters = vec![(0, 2), (1, 2), (2, 5)];
                c.th = Th::Count(4);
                c.deposit = Dep::Native { amount: 2, refund: true };
                c.max_props = 2;
                c.proposers = vec![0, 1];
                c.votes = vec![VoteA::Yes, VoteA::No];
                c.voters_acting = vec![1, 2];
                c.executors = vec![3];
                c.closers = vec![3];
                c.blocks = 2;
                c.purse = 4;
                c.funds = vec![vec![(0, 2)]];
                c.edits = vec![GroupEdit { remove: vec![], add: vec![(2, 1)] }];
                c.editors = vec![4];
                c.max_edits = 1;
                out.push((c, None));
            }
            // a group whose members all have weight 0 (nobody can vote): the proposal expires and Close must still
            // return the deposit
            for (tn, th) in [("pct51", Th::Pct(pct(510_000_000))), ("q51-50", Th::Quorum { t: pct(510_000_000), q: pct(500_000_000) })] {
                let mut c = Cfg::base(&format!("C15/A0,B0/{tn}/native/refund=true/weightless-group"), true);
                c.props = p.clone();
                c.voters = vec![(0, 0), (1, 0)];
                c.th = th;
                c.deposit = Dep::Native { amount: 2, refund: true };
                c.max_props = 1;
                c.proposers = vec![0];
                c.votes = vec![VoteA::Yes, VoteA::No];
                c.voters_acting = vec![1];
                c.executors = vec![3];
                c.closers = vec![0, 3];
                c.blocks = 3;
                c.purse = 4;
                c.funds = vec![vec![(0, 2)]];
                out.push((c, None));
            }
            // a multisig configured with a voting period of zero: whatever Propose does, no deposit may get stuck
            for per in [Per::H(0), Per::T(0)] {
                let mut c = Cfg::base(&format!("C15/A1,C3/count3/native/refund=true/zero-voting-period-{}", if per == Per::H(0) { "height" } else { "time" }), true);
                c.props = p.clone();
                c.voters = vec![(0, 1), (2, 3)];
                c.th = Th::Count(3);
                c.period = per;
                c.deposit = Dep::Native { amount: 2, refund: true };
                c.max_props = 2;
                c.latest = vec![LatestA::Unset, LatestA::Never];
                c.proposers = vec![0, 2];
                c.votes = vec![VoteA::Yes, VoteA::No];
                c.voters_acting = vec![0, 2];
                c.executors = vec![0, 3];
                c.closers = vec![0, 3];
                c.blocks = 2;
                c.purse = 4;
                c.funds = vec![vec![(0, 2)]];
                out.push((c, None));
            }
            // a proposal whose own message spends the multisig's funds (shared pool)
            {
                for refund in [true, false] {
                    if !thorough && !refund {
                        continue;
                    }
                    let mut c = Cfg::base(&format!("C15/A1,C3/count3/native/refund={refund}/spending-proposal"), true);
                    c.props = p.clone();
                    c.voters = vec![(0, 1), (2, 3)];
                    c.th = Th::Count(3);
                    c.deposit = Dep::Native { amount: 2, refund };
                    c.max_props = if thorough { 3 } else { 2 };
                    // (PayDeposit: the proposal pays its proposer exactly the deposit, the same message as the refund before it)
                    c.kinds = vec![PK::Empty, PK::Pay, PK::PayDeposit];
                    c.proposers = vec![0];
                    c.votes = vec![VoteA::Yes, VoteA::No];
                    c.voters_acting = vec![2];
                    c.executors = vec![3];
                    c.closers = vec![3];
                    c.blocks = 3;
                    c.purse = 6;
                    c.funds = vec![vec![(0, 2)]];
                    out.push((c, None));
                }
            }
        }
        _ => {}
    }
    out
}

