//! Independent statement of the cw3 threshold rules in exact integer arithmetic (from the cw3 spec
//! and the property texts C03/C04), not derived from packages/cw3/src/proposal.rs.
use serde::{Deserialize, Serialize};

pub const ONE: u128 = 1_000_000_000_000_000_000; // Decimal atomics for 1.0

#[derive(Clone, Copy, Debug, PartialEq, Eq, Hash, PartialOrd, Ord, Serialize, Deserialize)]
pub enum Th {
    Count(u64),
    /// percentage in Decimal atomics (18 places)
    Pct(u128),
    Quorum { t: u128, q: u128 },
}

#[derive(Clone, Copy, Debug, PartialEq, Eq, Hash, PartialOrd, Ord, Default, Serialize, Deserialize)]
pub struct Tally {
    pub y: u64,
    pub n: u64,
    pub a: u64,
    pub v: u64,
}

impl Tally {
    pub fn sum(&self) -> u128 {
        self.y as u128 + self.n as u128 + self.a as u128 + self.v as u128
    }
}

/// ceil(w * p) for p given in 1e-18 units; w <= 2^64, p <= 1e18 so the product fits u128
pub fn needed(w: u128, p: u128) -> u128 {
    (w * p + ONE - 1) / ONE
}

/// The documented rule evaluated at the end of voting. `slack` = 0 for the exact rule, 1 for the
/// "one vote laxer" rule the property allows for percentages with more than 9 decimal places.
pub fn passes_at_expiry(th: &Th, total: u64, t: &Tally, slack: u128) -> bool {
    if t.y == 0 {
        return false;
    }
    let y = t.y as u128;
    let total = total as u128;
    match th {
        Th::Count(w) => y >= *w as u128,
        Th::Pct(p) => {
            let base = total.saturating_sub(t.a as u128);
            y >= needed(base, *p).saturating_sub(slack)
        }
        Th::Quorum { t: thr, q } => {
            let voted = t.sum();
            if voted < needed(total, *q).saturating_sub(slack) {
                return false;
            }
            let opinions = voted - t.a as u128;
            y >= needed(opinions, *thr).saturating_sub(slack)
        }
    }
}

/// every way the outstanding weight r can still be cast (or stay uncast), at unit granularity
fn completions(r: u64, mut f: impl FnMut(u64, u64, u64, u64) -> bool) -> bool {
    // returns true if f returned true for some completion (short-circuits)
    for dy in 0..=r {
        for dn in 0..=(r - dy) {
            for da in 0..=(r - dy - dn) {
                for dv in 0..=(r - dy - dn - da) {
                    if f(dy, dn, da, dv) {
                        return true;
                    }
                }
            }
        }
    }
    false
}

/// Before expiry: does EVERY completion of the outstanding votes pass? (brute force; small totals only)
pub fn must_pass(th: &Th, total: u64, t: &Tally, slack: u128) -> bool {
    let r = (total as u128).saturating_sub(t.sum()) as u64;
    if r > 48 {
        // too many completions to enumerate: the two extreme completions decide (the rule is monotone:
        // more Yes never hurts, more No/Veto or fewer votes never help) — nobody else votes, or all
        // the outstanding weight votes No
        let all_no = Tally { n: t.n.saturating_add(r), ..*t };
        return passes_at_expiry(th, total, t, slack) && passes_at_expiry(th, total, &all_no, slack);
    }
    !completions(r, |dy, dn, da, dv| {
        let c = Tally { y: t.y + dy, n: t.n + dn, a: t.a + da, v: t.v + dv };
        !passes_at_expiry(th, total, &c, slack)
    })
}

/// Before expiry: does SOME completion of the outstanding votes pass?
pub fn can_pass(th: &Th, total: u64, t: &Tally) -> bool {
    let r = (total as u128).saturating_sub(t.sum()) as u64;
    if r > 48 {
        // best completion: all the outstanding weight votes Yes
        let all_yes = Tally { y: t.y.saturating_add(r), ..*t };
        return passes_at_expiry(th, total, &all_yes, 0) || passes_at_expiry(th, total, t, 0);
    }
    completions(r, |dy, dn, da, dv| {
        let c = Tally { y: t.y + dy, n: t.n + dn, a: t.a + da, v: t.v + dv };
        passes_at_expiry(th, total, &c, 0)
    })
}

/// the outcome the ballots imply (exact rule)
pub fn spec_passes(th: &Th, total: u64, t: &Tally, expired: bool) -> bool {
    if expired {
        passes_at_expiry(th, total, t, 0)
    } else {
        must_pass(th, total, t, 0)
    }
}

pub fn to_threshold(th: &Th) -> cw_utils::Threshold {
    use cosmwasm_std::Decimal;
    let d = |a: u128| Decimal::from_atomics(a, 18).unwrap();
    match th {
        Th::Count(w) => cw_utils::Threshold::AbsoluteCount { weight: *w },
        Th::Pct(p) => cw_utils::Threshold::AbsolutePercentage { percentage: d(*p) },
        Th::Quorum { t, q } => cw_utils::Threshold::ThresholdQuorum { threshold: d(*t), quorum: d(*q) },
    }
}

pub fn from_response(r: &cw_utils::ThresholdResponse) -> (Th, u64) {
    use cw_utils::ThresholdResponse as R;
    match r {
        R::AbsoluteCount { weight, total_weight } => (Th::Count(*weight), *total_weight),
        R::AbsolutePercentage { percentage, total_weight } => (Th::Pct(percentage.atomics().u128()), *total_weight),
        R::ThresholdQuorum { threshold, quorum, total_weight } => (
            Th::Quorum { t: threshold.atomics().u128(), q: quorum.atomics().u128() },
            *total_weight,
        ),
    }
}

/// true if the percentage(s) have at most 9 decimal places (where the library promises exactness)
pub fn is_p9(th: &Th) -> bool {
    let nine = |p: u128| p % 1_000_000_000 == 0;
    match th {
        Th::Count(_) => true,
        Th::Pct(p) => nine(*p),
        Th::Quorum { t, q } => nine(*t) && nine(*q),
    }
}
