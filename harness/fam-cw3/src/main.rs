mod lattice;
mod model;
mod spec;
use mc::report::{load_replay, run_replay};
use mc::{Bounds, Known, Report, RunStats};
use model::*;
use rayon::prelude::*;
use spec::*;

fn pct(x: u128) -> u128 {
    // x in units of 1e-9
    x * 1_000_000_000
}

fn thresholds(total: u64) -> Vec<(&'static str, Th)> {
    let mut v: Vec<(&'static str, Th)> = vec![
        ("count1", Th::Count(1)),
        ("count2", Th::Count(2)),
        ("countT", Th::Count(total)),
        ("pct50", Th::Pct(pct(500_000_000))),
        ("pct51", Th::Pct(pct(510_000_000))),
        ("pct66.7", Th::Pct(pct(667_000_000))),
        ("pct100", Th::Pct(pct(1_000_000_000))),
        ("q50-33.3", Th::Quorum { t: pct(500_000_000), q: pct(333_333_333) }),
        ("q51-50", Th::Quorum { t: pct(510_000_000), q: pct(500_000_000) }),
        ("q66.7-40", Th::Quorum { t: pct(667_000_000), q: pct(400_000_000) }),
        ("q100-100", Th::Quorum { t: pct(1_000_000_000), q: pct(1_000_000_000) }),
        ("q50-tiny", Th::Quorum { t: pct(500_000_000), q: pct(1) }),
    ];
    v.retain(|(_, t)| match t {
        Th::Count(w) => *w >= 1 && *w <= total,
        _ => true,
    });
    v.dedup_by(|a, b| a.1 == b.1);
    v
}

fn weight_vectors() -> Vec<(&'static str, Vec<(u8, u64)>)> {
    vec![
        ("w111", vec![(0, 1), (1, 1), (2, 1)]),
        ("w011", vec![(0, 0), (1, 1), (2, 1)]),
        ("w012", vec![(0, 0), (1, 1), (2, 2)]),
        ("w123", vec![(0, 1), (1, 2), (2, 3)]),
        ("w13", vec![(0, 1), (1, 3)]),
        ("w001", vec![(0, 0), (1, 0), (2, 1)]),
    ]
}

fn configs(prop: &str, thorough: bool) -> Vec<(Cfg, Option<usize>)> {
    let mut out: Vec<(Cfg, Option<usize>)> = vec![];
    match prop {
        "C03" => {
            let p = Props { c03: true, ..Default::default() };
            let mut i = 0usize;
            for flex in [false, true] {
                for (wn, wv) in weight_vectors() {
                    let total: u64 = wv.iter().map(|x| x.1).sum();
                    for (tn, th) in thresholds(total) {
                        for per in [Per::H(2), Per::T(2 * DT)] {
                            i += 1;
                            // quick: a covering subset (every threshold kind x every weight vector at least once, both contracts)
                            if !thorough && i % 11 != 0 && !(wn == "w011" && (tn == "pct51" || tn == "q50-33.3" || tn == "count1") && per == Per::H(2)) {
                                continue;
                            }
                            let mut c = Cfg::base(&format!("C03/{}/{wn}/{tn}/{}", if flex { "flex" } else { "fixed" }, if per == Per::H(2) { "height" } else { "time" }), flex);
                            c.props = p.clone();
                            c.voters = wv.clone();
                            c.th = th;
                            c.period = per;
                            c.proposers = vec![0, 1, 3];
                            c.latest = vec![LatestA::Unset, LatestA::Shorter, LatestA::AlreadyExpired];
                            c.voters_acting = vec![0, 1, 2, 3];
                            c.executors = vec![0, 3];
                            c.closers = vec![1, 3];
                            c.blocks = 4;
                            c.exec_iff = true;
                            out.push((c, None));
                        }
                    }
                }
            }
            // two concurrent proposals
            let two: Vec<(&str, Vec<(u8, u64)>, Th)> = vec![
                ("w111/pct51", vec![(0, 1), (1, 1), (2, 1)], Th::Pct(pct(510_000_000))),
                ("w012/q50-33.3", vec![(0, 0), (1, 1), (2, 2)], Th::Quorum { t: pct(500_000_000), q: pct(333_333_333) }),
                ("w123/count2", vec![(0, 1), (1, 2), (2, 3)], Th::Count(2)),
                ("w011/pct100", vec![(0, 0), (1, 1), (2, 1)], Th::Pct(pct(1_000_000_000))),
                ("w13/q66.7-40", vec![(0, 1), (1, 3)], Th::Quorum { t: pct(667_000_000), q: pct(400_000_000) }),
                ("w111/q100-100", vec![(0, 1), (1, 1), (2, 1)], Th::Quorum { t: pct(1_000_000_000), q: pct(1_000_000_000) }),
            ];
            for (k, (n, wv, th)) in two.into_iter().enumerate() {
                for flex in [false, true] {
                    if !thorough && !(k < 2 && flex == (k == 1)) {
                        continue;
                    }
                    let mut c = Cfg::base(&format!("C03/two-proposals/{}/{n}", if flex { "flex" } else { "fixed" }), flex);
                    c.props = p.clone();
                    c.voters = wv.clone();
                    c.th = th;
                    c.max_props = 2;
                    c.proposers = vec![0, 1];
                    c.votes = if thorough { vec![VoteA::Yes, VoteA::No, VoteA::Abstain, VoteA::Veto] } else { vec![VoteA::Yes, VoteA::No, VoteA::Abstain] };
                    c.voters_acting = vec![0, 1, 2];
                    c.executors = vec![3];
                    c.closers = vec![3];
                    c.blocks = 3;
                    c.exec_iff = true;
                    out.push((c, None));
                }
            }
        }
        "C05" => {
            let p = Props { c05: true, ..Default::default() };
            let all_latest = vec![LatestA::Unset, LatestA::Shorter, LatestA::Longer, LatestA::Never, LatestA::OtherKind];
            let ths: Vec<(&str, Th)> = vec![
                ("count2", Th::Count(2)),
                ("pct51", Th::Pct(pct(510_000_000))),
                ("q51-50", Th::Quorum { t: pct(510_000_000), q: pct(500_000_000) }),
            ];
            let mut k = 0;
            for flex in [false, true] {
                for (tn, th) in &ths {
                    for ex in [Exec::Anyone, Exec::Member, Exec::Only(3)] {
                        if !flex && ex != Exec::Anyone {
                            continue;
                        }
                        for per in [Per::H(2), Per::T(2 * DT)] {
                            k += 1;
                            if !thorough && !(k % 5 == 1) {
                                continue;
                            }
                            // (a) tagged messages, failing receiver, retries
                            let mut c = Cfg::base(&format!("C05/{}/{tn}/{:?}/{}/tags+faults", if flex { "flex" } else { "fixed" }, ex, if per == Per::H(2) { "height" } else { "time" }), flex);
                            c.props = p.clone();
                            c.actors = vec!["A", "B", "Z", "X"];
                            c.voters = vec![(0, 1), (1, 1), (2, 0)];
                            c.th = *th;
                            c.period = per;
                            c.executor = ex;
                            c.max_props = 2;
                            c.kinds = vec![PK::Tag1, PK::Tag2];
                            c.latest = all_latest.clone();
                            c.votes = vec![VoteA::Yes, VoteA::No];
                            c.proposers = vec![0];
                            c.voters_acting = vec![1, 2, 3];
                            c.executors = vec![0, 2, 3];
                            c.closers = vec![2, 3];
                            c.blocks = 3;
                            c.max_faults = if thorough { 2 } else { 1 };
                            out.push((c, None));
                        }
                    }
                }
            }
            // (b) re-entrancy and nesting, funding
            for flex in [false, true] {
                for (ki, kinds) in [vec![PK::Reenter, PK::Tag1], vec![PK::Tag1, PK::ExecPrev], vec![PK::Tag1, PK::ClosePrev], vec![PK::Pay, PK::Tag1]].into_iter().enumerate() {
                    for ex in [Exec::Anyone, Exec::Only(3)] {
                        if !flex && ex != Exec::Anyone {
                            continue;
                        }
                        if !thorough && !(flex == (ki % 2 == 0) && ex == Exec::Anyone) {
                            continue;
                        }
                        let mut c = Cfg::base(&format!("C05/{}/{:?}/{:?}/reentrancy", if flex { "flex" } else { "fixed" }, kinds, ex), flex);
                        c.props = p.clone();
                        c.voters = vec![(0, 1), (1, 1)];
                        c.actors = vec!["A", "B", "Z", "X"];
                        c.th = Th::Count(2);
                        c.executor = ex;
                        c.max_props = if thorough { 3 } else { 2 };
                        c.kinds = kinds.clone();
                        c.latest = vec![LatestA::Unset];
                        c.votes = vec![VoteA::Yes, VoteA::No];
                        c.proposers = vec![0];
                        c.voters_acting = vec![1, 3];
                        c.executors = vec![0, 3];
                        c.closers = vec![3];
                        c.blocks = 3;
                        c.max_fund = if kinds.contains(&PK::Pay) { 2 } else { 0 };
                        c.max_faults = if thorough { 1 } else { 0 };
                        out.push((c, None));
                    }
                }
            }
        }
        "C06" => {
            let p = Props { c06: true, ..Default::default() };
            // fixed: voter lists accepted at instantiation
            for (n, wv) in [
                ("A1,B1,C1", vec![(0u8, 1u64), (1, 1), (2, 1)]),
                ("A0,B1,C2", vec![(0, 0), (1, 1), (2, 2)]),
                ("A1,A2,B1(repeated)", vec![(0, 1), (0, 2), (1, 1)]),
                ("A0,B1,B2(repeated)", vec![(0, 0), (1, 1), (1, 2)]),
                ("A1(single)", vec![(0, 1)]),
                ("A0,B0,C1", vec![(0, 0), (1, 0), (2, 1)]),
            ] {
                for th in [Th::Count(1), Th::Pct(pct(510_000_000))] {
                    let mut c = Cfg::base(&format!("C06/fixed/{n}/{:?}", th), false);
                    c.props = p.clone();
                    c.voters = wv.clone();
                    c.th = th;
                    c.max_props = 2;
                    c.proposers = vec![0, 1, 3];
                    c.votes = vec![VoteA::Yes, VoteA::No];
                    c.voters_acting = vec![0, 1, 2, 3];
                    c.executors = vec![3];
                    c.closers = vec![3];
                    c.blocks = 3;
                    out.push((c, None));
                }
            }
            // flex: group edits placed before / in the same block as / after proposals and votes
            let edits = vec![
                GroupEdit { remove: vec![1], add: vec![] },
                GroupEdit { remove: vec![], add: vec![(3, 2)] },
                GroupEdit { remove: vec![], add: vec![(0, 3)] },
                GroupEdit { remove: vec![], add: vec![(2, 0)] },
                GroupEdit { remove: vec![], add: vec![(1, 5)] },
            ];
            for (n, wv, th) in [
                ("A1,B5,C1/count2", vec![(0u8, 1u64), (1, 5), (2, 1)], Th::Count(2)),
                ("A0,B1/pct51", vec![(0, 0), (1, 1)], Th::Pct(pct(510_000_000))),
                ("A1,B5,C1/q51-50", vec![(0, 1), (1, 5), (2, 1)], Th::Quorum { t: pct(510_000_000), q: pct(500_000_000) }),
            ] {
                if !thorough && n.starts_with("A1,B5,C1/q") {
                    continue;
                }
                let mut c = Cfg::base(&format!("C06/flex/{n}/edits"), true);
                c.props = p.clone();
                c.actors = vec!["A", "B", "C", "X", "ADM"];
                c.group_admin = 4;
                c.voters = wv.clone();
                c.th = th;
                c.max_props = if thorough { 2 } else { 1 };
                c.proposers = vec![0, 3];
                c.votes = vec![VoteA::Yes, VoteA::No];
                c.voters_acting = vec![0, 1, 2, 3];
                c.executors = vec![3];
                c.closers = vec![3];
                c.blocks = if thorough { 3 } else { 2 };
                c.edits = edits.clone();
                c.editors = vec![4, 0];
                c.max_edits = if thorough { 3 } else { 2 };
                out.push((c, None));
            }
        }
        "C15" => {
            let p = Props { c15: true, ..Default::default() };
            let ths: Vec<(&str, Th)> = vec![
                ("count3", Th::Count(3)),
                ("pct51", Th::Pct(pct(510_000_000))),
                ("q51-50", Th::Quorum { t: pct(510_000_000), q: pct(500_000_000) }),
            ];
            let mut k = 0;
            for (gn, wv) in [("A1,C3", vec![(0u8, 1u64), (2, 3)]), ("A1,B1,C1", vec![(0, 1), (1, 1), (2, 1)])] {
                for (tn, th) in &ths {
                    if let Th::Count(w) = th {
                        if *w > wv.iter().map(|x| x.1).sum::<u64>() {
                            continue;
                        }
                    }
                    for refund in [true, false] {
                        for cw20 in [false, true] {
                            k += 1;
                            if !thorough && k % 4 != 1 && !(gn == "A1,C3" && *tn == "pct51" && refund) {
                                continue;
                            }
                            let mut c = Cfg::base(&format!("C15/{gn}/{tn}/{}/refund={refund}", if cw20 { "cw20" } else { "native" }), true);
                            c.props = p.clone();
                            c.voters = wv.clone();
                            c.th = *th;
                            c.deposit = if cw20 { Dep::Cw20 { amount: 2, refund } } else { Dep::Native { amount: 2, refund } };
                            c.max_props = 2;
                            c.kinds = vec![PK::Empty];
                            c.proposers = vec![0, 3];
                            c.votes = vec![VoteA::Yes, VoteA::No];
                            c.voters_acting = vec![1, 2];
                            c.executors = vec![0, 3];
                            c.closers = vec![0, 3];
                            c.blocks = 3;
                            c.purse = 4;
                            if cw20 {
                                c.funds = vec![vec![], vec![(0, 1)]];
                                c.allow_amts = vec![1, 2, 3];
                                c.max_allow = 4;
                            } else {
                                c.funds = vec![vec![], vec![(0, 1)], vec![(0, 2)], vec![(0, 3)], vec![(1, 1)], vec![(0, 2), (1, 1)]];
                            }
                            out.push((c, None));
                        }
                    }
                }
            }
            // a proposal whose own message spends the multisig's funds (shared pool)
            if thorough {
                for refund in [true, false] {
                    let mut c = Cfg::base(&format!("C15/A1,C3/count3/native/refund={refund}/spending-proposal"), true);
                    c.props = p.clone();
                    c.voters = vec![(0, 1), (2, 3)];
                    c.th = Th::Count(3);
                    c.deposit = Dep::Native { amount: 2, refund };
                    c.max_props = 3;
                    c.kinds = vec![PK::Empty, PK::Pay];
                    c.proposers = vec![0];
                    c.votes = vec![VoteA::Yes, VoteA::No];
                    c.voters_acting = vec![2];
                    c.executors = vec![3];
                    c.closers = vec![3];
                    c.blocks = 3;
                    c.purse = 6;
                    c.funds = vec![vec![(0, 2)]];
                    out.push((c, None));
                }
            }
        }
        _ => {}
    }
    out
}

fn describe(prop: &str) -> (&'static str, &'static str) {
    match prop {
        "C03" => (
            "cw3-fixed and cw3-flex(+real cw4-group): weight vectors [1,1,1],[0,1,1],[0,1,2],[1,2,3],[1,3],[0,0,1] x thresholds AbsoluteCount{1,2,T}, AbsolutePercentage{50,51,66.7,100%}, ThresholdQuorum{(50,33.3),(51,50),(66.7,40),(100,100),(50,1e-9)} x Height/Time voting period; Propose by members (incl. zero-weight) and an outsider with latest in {none, shorter, already expired}; Vote{yes,no,abstain,veto} by everyone; Execute, Close by member and outsider; AdvanceBlock to two blocks past expiry; one proposal (full matrix) and two concurrent proposals (subset)",
            "after every step, for every proposal: status from Proposal{id}, ListProposals and ReverseProposals agree; tally recomputed from the paged ListVotes; independent spec function in exact integer arithmetic (Passed iff yes>0 and every completion of the outstanding weight satisfies the rule at expiry / the rule itself after expiry; Rejected only if expired unpassed or no completion passes; Open only before expiry and not passing); Execute admitted iff implied Passed; Close admitted only if expired, not passing, not executed",
        ),
        "C05" => (
            "proposals carrying tagged messages to a receiver stub (1 or 2, order observable), a bank send the multisig cannot afford until funded, a re-entrant Execute of itself, a nested Execute/Close of the previous proposal; up to 2 (quick) / 3 (thorough) concurrent proposals; latest in {none, shorter, longer than max, never, other kind}; Vote{yes,no}; Execute/Close by proposer, zero-weight member, outsider, Only(addr) executor; AdvanceBlock; receiver failure toggled on/off (fault bound 1 quick / 2 thorough); executor in {None, Member, Only} (flex); all three threshold kinds; both period kinds",
            "kernel dispatch trace: each proposal's messages reach the receiver at most once over the whole history, exactly as proposed and in order, only inside an accepted Execute (top-level or nested) made while its status was Passed and by an authorised caller; failed dispatch leaves everything unchanged and the proposal executable later; Close accepted only on expired, unpassed, never-dispatched proposals and delivers nothing; per-proposal status automaton Open->{Passed,Rejected}, Passed->Executed; ids = previous max + 1, listings ordered; title/msgs/threshold/total/proposer/expiry/deposit never change; expiry <= creation + max voting period, other-kind latest refused",
        ),
        "C06" => (
            "cw3-fixed voter lists incl. repeated addresses, zero weights, single voter; cw3-flex with a real cw4-group [A:1,B:5,C:1] / [A:0,B:1]: UpdateMembers (remove B, add X:2, re-weight A->3, C->0, B->5) by the group admin and by a member, placed by BFS before, in the same block as (before and after the Propose) and after each proposal and vote; Propose by member/outsider; Vote{yes,no} by everyone; AdvanceBlock",
            "reference records the membership at the start of every block; per proposal: threshold.total_weight == sum of that snapshot; every ballot (paged ListVotes, and Vote{voter} point query agrees) carries the voter's snapshot weight; addresses absent or with weight 0 in the snapshot have no ballot except the proposer's implicit Yes; one ballot per address, recorded ballots never change; votes accepted only before expiry, on unexecuted proposals, from eligible addresses without a ballot; sum of ballots <= total; cross-checked against the group's own Member{at_height}/TotalWeight{at_height}; fixed: total == sum of ListVoters",
        ),
        "C15" => (
            "cw3-flex with native deposit (2 ucosm) or cw20 deposit (2 of a real cw20-base token pulled with TransferFrom), refund_failed_proposals on/off, three threshold kinds, groups [A:1,C:3] and [A:1,B:1,C:1]; Propose with funds {none,1,2,3,other denom,two coins} / cw20 allowance {1,2,3} set by prior IncreaseAllowance; Vote{yes,no}; Execute and Close (repeated) by proposer and outsider; AdvanceBlock; 2 (3) proposals sharing the pool; finite purses",
            "deposit ledger vs REAL bank / cw20 balances of every actor and the multisig after every step: Propose accepted only with exactly the configured coin attached (native) and moves exactly the deposit proposer->multisig; refund only to the proposer, at most once, mandatory on Execute, permitted (refunds enabled) on the Vote that makes the proposal fail or on Close, never otherwise; recoverability: from every reachable state with a failed, unrefunded proposal and refunds enabled, a bounded exhaustive search over AdvanceBlock^k (k<=4) [Vote]? (Close|Execute) by any actor must reach a state where the proposer has the deposit back",
        ),
        "C04" => (
            "every total T in 0..=N (N=9 quick, 16 thorough), every tally (yes,no,abstain,veto) with sum <= T, every AbsoluteCount 1..=T, percentages/quorums at every rounding boundary i/j reachable with weights <= N (floor/ceil at 9 and at 18 decimals and their +-1 ulp neighbours), expired and not; large scope T in {2^32, 2^63, 2^64-2, 2^64-1} with counters on a boundary grid {0,1,T/3,T/2-1,T/2,T/2+1,T-1,T}",
            "needed(w,p)=ceil(w*p) in u128; after expiry the library's decision equals the documented formula with yes>0 (percentages with <= 9 decimals) or lies between exact and one-vote-laxer (18 decimals); before expiry: backward dynamic programming over the lattice gives mustPass (all completions) / canPass (some completion): library Passed => mustPass, library Rejected => not canPass; never passed and rejected together; never Passed with yes=0; no panic for tallies <= total; current_status consistent with is_passed/is_rejected",
        ),
        _ => ("", ""),
    }
}

fn run(prop: &str, tier: &str) -> i32 {
    let thorough = tier == "thorough";
    let known = Known::load(prop);
    let mut rep = Report::new(prop, tier, if prop == "C04" { "cw3-lattice" } else { "cw3" });
    let (alpha, oracle) = describe(prop);
    rep.alphabet = alpha.into();
    rep.oracle = oracle.into();
    if prop == "C04" {
        rep.bounds = "complete enumeration of the stated finite lattice (small scope) and boundary grid (large scope; completions restricted to the same grid)".into();
        rep.assumptions = vec!["Threshold::validate (cw-utils) bounds percentages to [0.5,1] and quorum to (0,1]; only such thresholds are enumerated".into()];
        rep.runs = lattice::run(thorough, &known);
        return rep.finish();
    }
    let cfgs = configs(prop, thorough);
    if cfgs.is_empty() {
        eprintln!("fam-cw3 does not serve {prop}");
        return 2;
    }
    rep.bounds = "every configuration is a closed system (finite proposals, capped clock, bounded edits/faults/funds) explored to fixpoint; state cap 8e6 and time cap per configuration reported if hit".into();
    rep.assumptions = vec![
        "kernel: atomic transactions, in-order message dispatch, sub-call rollback (cross-validated against cw-multi-test by ./check kernel-diff)".into(),
        "small actor sets and weights; thresholds with at most 9 decimals".into(),
        "flex multisig is instantiated one block after its group".into(),
    ];
    let seed = mc::report::seed();
    let runs: Vec<RunStats> = cfgs
        .par_iter()
        .map(|(c, d)| {
            let m = Cw3Model { cfg: c.clone() };
            let b = Bounds { max_depth: *d, max_states: 8_000_000, max_secs: if thorough { 2400.0 } else { 120.0 } };
            mc::bfs(&m, &b, &known, seed)
        })
        .collect();
    rep.runs = runs;
    rep.finish()
}

fn main() {
    mc::world::silence_panics();
    let a = mc::parse_args();
    let code = if a.cmd == "replay" {
        let rf = load_replay(a.path.as_deref().unwrap_or(""));
        if rf.model == "cw3-lattice" {
            rf.actions.first().map(lattice::replay_case).unwrap_or(2)
        } else {
            let all: Vec<(Cfg, Option<usize>)> = configs(&rf.property, true).into_iter().chain(configs(&rf.property, false)).collect();
            match all.into_iter().find(|(c, _)| c.name == rf.config) {
                Some((c, _)) => run_replay(&Cw3Model { cfg: c }, &rf),
                None => {
                    eprintln!("machinery error: unknown config {}", rf.config);
                    2
                }
            }
        }
    } else {
        run(&a.cmd, &a.tier)
    };
    std::process::exit(code);
}
