fn main() {
    eprintln!("fam-cw3: not built yet");
    std::process::exit(2);
}
