mod configs;
mod lattice;
mod model;
mod spec;
use mc::report::{load_replay, run_replay};
use mc::{Bounds, Known, Report, RunStats};
use model::*;
use configs::configs;

fn describe(prop: &str) -> (&'static str, &'static str) {
    match prop {
        "C03" => (
            "cw3-fixed and cw3-flex(+real cw4-group): weight vectors [1,1,1],[0,1,1],[0,1,2],[1,2,3],[1,3],[0,0,1] x thresholds AbsoluteCount{1,2,T}, AbsolutePercentage{50,51,66.7,100%}, ThresholdQuorum{(50,33.3),(51,50),(66.7,40),(100,100),(50,1e-9)} x Height/Time voting period; Propose by members (incl. zero-weight) and an outsider with latest in {none, shorter, already expired}; Vote{yes,no,abstain,veto} by everyone; Execute, Close by member and outsider; AdvanceBlock to two blocks past expiry; one proposal (full matrix) and two concurrent proposals (subset); sub-second block times (expiry instant inside a second); proposals whose message makes the multisig close / execute the previous proposal; a flex multisig that listens to its group (MemberChangedHook); a deposit refunded by the rejecting vote",
            "after every step, for every proposal: status from Proposal{id}, ListProposals and ReverseProposals agree; tally recomputed from the paged ListVotes; independent spec function in exact integer arithmetic (Passed iff yes>0 and every completion of the outstanding weight satisfies the rule at expiry / the rule itself after expiry; Rejected only if expired unpassed or no completion passes; Open only before expiry and not passing); Execute admitted iff implied Passed; Close admitted only if expired, not passing, not executed",
        ),
        "C05" => (
            "proposals carrying tagged messages to a receiver stub (1 or 2, order observable), a bank send the multisig cannot afford until funded, a re-entrant Execute of itself, a nested Execute/Close of the previous proposal; up to 2 (quick) / 3 (thorough) concurrent proposals; latest in {none, shorter, longer than max, never, other kind}; Vote{yes,no}; Execute/Close by proposer, zero-weight member, outsider, Only(addr) executor; AdvanceBlock; receiver failure toggled on/off (fault bound 1 quick / 2 thorough); executor in {None, Member, Only} (flex, also Only(address in upper case) and Member with a zero-weight member removed later); all three threshold kinds; both period kinds; text-only proposals with a deposit; the same message twice in a row; group changes in the opening block; an Abstain that tips the outcome; the proposer as caller of Close",
            "kernel dispatch trace: each proposal's messages reach the receiver at most once over the whole history, exactly as proposed and in order, only inside an accepted Execute (top-level or nested) made while its status was Passed and by an authorised caller; failed dispatch leaves everything unchanged and the proposal executable later; Close accepted only on expired, unpassed, never-dispatched proposals and delivers nothing; per-proposal status automaton Open->{Passed,Rejected}, Passed->Executed; ids = previous max + 1, listings ordered; title/msgs/threshold/total/proposer/expiry/deposit never change; expiry <= creation + max voting period, other-kind latest refused",
        ),
        "C06" => (
            "cw3-fixed voter lists incl. repeated addresses, zero weights, single voter; cw3-flex with a real cw4-group [A:1,B:5,C:1] / [A:0,B:1]: UpdateMembers (remove B, add X:2, re-weight A->3, C->0, B->5) by the group admin and by a member, placed by BFS before, in the same block as (before and after the Propose) and after each proposal and vote; Propose by member/outsider; Vote{yes,no,abstain,veto} by everyone; AdvanceBlock; voter lists repeating an address with weight 0 or in two spellings; 33 voters / members (count and percentage thresholds); the multisig registered as a hook, unregistered and re-registered by the admin; a cw4-stake contract as the group (members bond / unbond, down to nothing); sub-second block times",
            "reference records the membership at the start of every block; per proposal: threshold.total_weight == sum of that snapshot; every ballot (paged ListVotes, and Vote{voter} point query agrees) carries the voter's snapshot weight; addresses absent or with weight 0 in the snapshot have no ballot except the proposer's implicit Yes; one ballot per address, recorded ballots never change; votes accepted only before expiry, on unexecuted proposals, from eligible addresses without a ballot; sum of ballots <= total; a snapshot voter is not refused because the group changed later; cross-checked against the group's own Member{at_height}/TotalWeight{at_height}; fixed: total == sum of ListVoters",
        ),
        "C15" => (
            "cw3-flex with native deposit (2 ucosm) or cw20 deposit (2 of a real cw20-base token pulled with TransferFrom), refund_failed_proposals on/off, three threshold kinds, groups [A:1,C:3] and [A:1,B:1,C:1]; Propose with funds {none,1,2,3,other denom,two coins} / cw20 allowance {1,2,3} set by prior IncreaseAllowance; Vote{yes,no}; Execute and Close (repeated) by proposer and outsider; AdvanceBlock; 2 (3) proposals sharing the pool; finite purses; fund lists with zero-amount coins and the deposit denom in upper case; a zero-weight proposer with abstentions only; a voting period of zero; a quorum proposal passing only at expiry with refunds off; a hooked group changing while a deposit is owed",
            "deposit ledger vs REAL bank / cw20 balances of every actor and the multisig after every step: Propose accepted only with exactly the configured coin attached (native) and moves exactly the deposit proposer->multisig; refund only to the proposer, at most once, mandatory on Execute, permitted (refunds enabled) on the Vote that makes the proposal fail or on Close, never otherwise; recoverability: from every reachable state with a failed, unrefunded proposal and refunds enabled, a bounded exhaustive search over AdvanceBlock^k (k<=4) [Vote]? (Close|Execute) by any actor must reach a state where the proposer has the deposit back",
        ),
        "C04" => (
            "every total T in 0..=N (N=12 quick, 24 thorough), every tally (yes,no,abstain,veto) with sum <= T, every AbsoluteCount 1..=T, percentages/quorums at every rounding boundary i/j reachable with weights <= N (floor/ceil at 9 and at 18 decimals and their +-1 ulp neighbours), expired and not; large scope T in {2^32, 2^63, 2^64-2, 2^64-1} with counters on a boundary grid {0,1,T/3,T/2-1,T/2,T/2+1,T-1,T}",
            "needed(w,p)=ceil(w*p) in u128; after expiry the library's decision equals the documented formula with yes>0 (percentages with <= 9 decimals) or lies between exact and one-vote-laxer (18 decimals); before expiry: backward dynamic programming over the lattice gives mustPass (all completions) / canPass (some completion): library Passed => mustPass, library Rejected => not canPass; never passed and rejected together; never Passed with yes=0; no panic for tallies <= total; current_status consistent with is_passed/is_rejected; the verdict depends on the block only through whether voting has ended (seven clocks: AtHeight at h-1/h, AtTime with a sub-second expiry instant just before/at/after it, Never)",
        ),
        _ => ("", ""),
    }
}

fn run(prop: &str, tier: &str) -> i32 {
    let thorough = tier == "thorough";
    let known = Known::load(prop);
    let mut rep = Report::new(prop, tier, if prop == "C04" { "cw3-lattice" } else { "cw3" });
    let (alpha, oracle) = describe(prop);
    rep.alphabet = alpha.into();
    rep.oracle = oracle.into();
    if prop == "C04" {
        rep.bounds = "complete enumeration of the stated finite lattice (small scope) and boundary grid (large scope; completions restricted to the same grid)".into();
        rep.assumptions = vec!["Threshold::validate (cw-utils) bounds percentages to [0.5,1] and quorum to (0,1]; only such thresholds are enumerated".into()];
        rep.runs = lattice::run(thorough, &known);
        return rep.finish();
    }
    let cfgs = configs(prop, thorough);
    if cfgs.is_empty() {
        eprintln!("fam-cw3 does not serve {prop}");
        return 2;
    }
    rep.bounds = "every configuration is a closed system (finite proposals, capped clock, bounded edits/faults/funds) explored to fixpoint; state cap 3e6 and time cap per configuration reported if hit".into();
    rep.assumptions = vec![
        "kernel: atomic transactions, in-order message dispatch, sub-call rollback (cross-validated against cw-multi-test by ./check kernel-diff)".into(),
        "small actor sets and weights; thresholds with at most 9 decimals".into(),
        "flex multisig is instantiated one block after its group".into(),
    ];
    let seed = mc::report::seed();
    let runs: Vec<RunStats> = mc::run_pooled(cfgs.len(), |i| {
        let (c, d) = &cfgs[i];
        let m = Cw3Model { cfg: c.clone() };
        let b = Bounds { max_depth: *d, max_states: 3_000_000, max_secs: if thorough { 2400.0 } else { 120.0 } };
        mc::bfs(&m, &b, &known, seed)
    });
    rep.runs = runs;
    rep.finish()
}

fn main() {
    mc::world::guarded_main(|| {
    let a = mc::parse_args();
    let code = if a.cmd == "replay" {
        let rf = load_replay(a.path.as_deref().unwrap_or(""));
        if rf.model == "cw3-lattice" {
            rf.actions.first().map(lattice::replay_case).unwrap_or(2)
        } else {
            let all: Vec<(Cfg, Option<usize>)> = configs(&rf.property, true).into_iter().chain(configs(&rf.property, false)).collect();
            match all.into_iter().find(|(c, _)| c.name == rf.config) {
                Some((c, _)) => run_replay(&Cw3Model { cfg: c }, &rf),
                None => {
                    eprintln!("machinery error: unknown config {}", rf.config);
                    2
                }
            }
        }
    } else {
        run(&a.cmd, &a.tier)
    };
    code
    })
}
