//! C04: the decision functions of `cw3::Proposal` over the whole tally lattice (small scope, backward
//! dynamic programming for the for-all / exists-completion meaning of early decisions) and over a
//! boundary grid for weights up to 2^64-1 (large scope).
use crate::spec::*;
use cosmwasm_std::testing::mock_env;
use cosmwasm_std::{Addr, BlockInfo};
use cw3::{Proposal, Status, Votes};
use cw_utils::Expiration;
use mc::explore::{Found, RunStats};
use rayon::prelude::*;
use serde_json::json;
use std::collections::BTreeSet;
use std::panic::{catch_unwind, AssertUnwindSafe};

fn block(h: u64) -> BlockInfo {
    let mut b = mock_env().block;
    b.height = h;
    b
}

fn proposal(th: &Th, total: u64, t: &Tally) -> Proposal {
    Proposal {
        title: String::new(),
        description: String::new(),
        start_height: 1,
        expires: Expiration::AtHeight(100),
        msgs: vec![],
        status: Status::Open,
        threshold: to_threshold(th),
        total_weight: total,
        votes: Votes { yes: t.y, no: t.n, abstain: t.a, veto: t.v },
        proposer: Addr::unchecked("p"),
        deposit: None,
    }
}

/// what the library says: (is_passed, is_rejected, current_status) or None if it panicked
fn lib(p: &Proposal, expired: bool) -> Option<(bool, bool, Status)> {
    let b = block(if expired { 150 } else { 50 });
    catch_unwind(AssertUnwindSafe(|| (p.is_passed(&b), p.is_rejected(&b), p.current_status(&b)))).ok()
}

/// Other clocks under which the same tally must get the same verdict: the decision may depend on the block
/// only through "has the voting period ended" (height >= AtHeight, time >= AtTime in nanoseconds, Never
/// never ends). (label, expiration, block height, block time in ns, ended)
fn clocks() -> Vec<(&'static str, Expiration, u64, u64, bool)> {
    use cosmwasm_std::Timestamp;
    const T: u64 = 1_700_000_000_000_000_000; // a whole second
    vec![
        ("AtHeight(100)@99", Expiration::AtHeight(100), 99, T, false),
        ("AtHeight(100)@100", Expiration::AtHeight(100), 100, T, true),
        ("AtTime(T+0.5s)@T+0.1s", Expiration::AtTime(Timestamp::from_nanos(T + 500_000_000)), 50, T + 100_000_000, false),
        ("AtTime(T+0.5s)@T+0.5s", Expiration::AtTime(Timestamp::from_nanos(T + 500_000_000)), 50, T + 500_000_000, true),
        ("AtTime(T+0.5s)@T+0.9s", Expiration::AtTime(Timestamp::from_nanos(T + 500_000_000)), 50, T + 900_000_000, true),
        ("AtTime(T+1s)@T+0.999999999s", Expiration::AtTime(Timestamp::from_nanos(T + 1_000_000_000)), 500, T + 999_999_999, false),
        ("Never@h=10^9", Expiration::Never {}, 1_000_000_000, T * 2, false),
    ]
}

fn lib_clock(p: &Proposal, exp: &Expiration, h: u64, ns: u64) -> Option<(bool, bool, Status)> {
    let mut q = p.clone();
    q.expires = *exp;
    let mut b = mock_env().block;
    b.height = h;
    b.time = cosmwasm_std::Timestamp::from_nanos(ns);
    catch_unwind(AssertUnwindSafe(|| (q.is_passed(&b), q.is_rejected(&b), q.current_status(&b)))).ok()
}

/// rounding boundaries reachable with weights <= n, with `places` decimals, within [lo, 1]
fn boundary_fractions(n: u64, places: u32, lo_num: u64, lo_den: u64) -> BTreeSet<u128> {
    let unit: u128 = 10u128.pow(18 - places);
    let mut out = BTreeSet::new();
    let lo = ONE * lo_num as u128 / lo_den as u128;
    for j in 1..=n {
        for i in 1..=j {
            let exact_num = ONE * i as u128;
            let fl = exact_num / j as u128 / unit * unit;
            let ce = if fl * (j as u128) == exact_num { fl } else { fl + unit };
            for c in [fl.saturating_sub(unit), fl, ce, ce + unit] {
                if c >= lo && c <= ONE && c > 0 {
                    out.insert(c);
                }
            }
        }
    }
    out
}

pub struct Scope {
    pub n_small: u64,
    pub frac_n: u64,
    pub quorum_t_n: u64,
    pub quorum_q_n: u64,
    pub large: bool,
}

fn thresholds(total: u64, sc: &Scope) -> Vec<Th> {
    let mut out = vec![];
    for w in 1..=total {
        out.push(Th::Count(w));
    }
    let n = sc.frac_n.min(total.max(2));
    for p in boundary_fractions(n, 9, 1, 2) {
        out.push(Th::Pct(p));
    }
    for p in boundary_fractions(n.min(8), 18, 1, 2) {
        out.push(Th::Pct(p));
    }
    let ts: Vec<u128> = boundary_fractions(sc.quorum_t_n, 9, 1, 2)
        .into_iter()
        .chain(boundary_fractions(2, 18, 1, 2))
        .collect();
    let qs: Vec<u128> = boundary_fractions(sc.quorum_q_n.min(total.max(1)), 9, 0, 1)
        .into_iter()
        .chain(boundary_fractions(2, 18, 0, 1))
        .collect();
    for t in &ts {
        for q in &qs {
            out.push(Th::Quorum { t: *t, q: *q });
        }
    }
    out.sort();
    out.dedup();
    out
}

fn viol(out: &mut Vec<Found>, clause: &str, th: &Th, total: u64, t: &Tally, expired: bool, detail: String) {
    if out.iter().filter(|f| f.clause == clause).count() >= 3 {
        return;
    }
    let mut tags = vec![];
    if t.y == 0 {
        tags.push("zero_yes".to_string());
    }
    out.push(Found {
        config: "C04/lattice".into(),
        clause: clause.to_string(),
        detail,
        tags,
        trace: vec![json!({"threshold": th, "total_weight": total.to_string(), "tally": {"yes": t.y.to_string(), "no": t.n.to_string(), "abstain": t.a.to_string(), "veto": t.v.to_string()}, "expired": expired})],
        known: None,
    });
}

/// evaluate every clause on one lattice state given the DP facts
#[allow(clippy::too_many_arguments)]
fn judge(
    th: &Th,
    total: u64,
    t: &Tally,
    mp_allowed: bool, // every completion passes (with the slack the property allows)
    cp_exact: bool,   // some completion passes exactly
    out: &mut Vec<Found>,
    counters: &mut [u64; 4],
) {
    let p = proposal(th, total, t);
    let p9 = is_p9(th);
    // ---- before expiry
    match lib(&p, false) {
        None => viol(out, "C04.no_panic", th, total, t, false, "library panicked on a tally not exceeding the total".into()),
        Some((pass, rej, st)) => {
            if pass && rej {
                viol(out, "C04.never_both", th, total, t, false, "is_passed and is_rejected both true".into());
            }
            if pass && t.y == 0 {
                viol(out, "C04.passed_without_yes", th, total, t, false, "reported Passed with zero Yes weight".into());
            }
            if pass && !mp_allowed {
                viol(out, "C04.early_pass_sound", th, total, t, false, "reported Passed before expiry although some completion of the outstanding votes fails".into());
            }
            if rej && cp_exact {
                viol(out, "C04.early_reject_sound", th, total, t, false, "reported Rejected before expiry although some completion of the outstanding votes passes".into());
            }
            let want = if pass { Status::Passed } else if rej { Status::Rejected } else { Status::Open };
            if st != want {
                viol(out, "C04.status_consistent", th, total, t, false, format!("current_status {:?} but is_passed={pass} is_rejected={rej}", st));
            }
            if pass {
                counters[0] += 1
            }
            if rej {
                counters[1] += 1
            }
        }
    }
    // ---- the verdict depends on the clock only through "voting has ended"
    {
        let base = [lib(&p, false), lib(&p, true)];
        for (label, exp, h, ns, ended) in clocks() {
            let got = lib_clock(&p, &exp, h, ns);
            if got != base[ended as usize] {
                viol(
                    out,
                    "C04.decision_depends_only_on_whether_voting_ended",
                    th,
                    total,
                    t,
                    ended,
                    format!("with {label} (voting {}) the library says {:?}, with AtHeight(100) at height {} it says {:?}", if ended { "ended" } else { "still open" }, got, if ended { 150 } else { 50 }, base[ended as usize]),
                );
            }
        }
    }
    // ---- after expiry
    match lib(&p, true) {
        None => viol(out, "C04.no_panic", th, total, t, true, "library panicked on a tally not exceeding the total".into()),
        Some((pass, rej, st)) => {
            let exact = passes_at_expiry(th, total, t, 0);
            let lax = passes_at_expiry(th, total, t, 1);
            if pass && t.y == 0 {
                viol(out, "C04.passed_without_yes", th, total, t, true, "reported Passed with zero Yes weight".into());
            }
            if p9 {
                if pass != exact {
                    viol(out, "C04.expired_decision_exact", th, total, t, true, format!("library says passed={pass}, the documented formula in exact arithmetic says {exact}"));
                }
            } else {
                if exact && !pass {
                    viol(out, "C04.never_stricter_than_exact", th, total, t, true, "exact formula passes but the library does not".into());
                }
                if pass && !lax {
                    viol(out, "C04.within_one_vote", th, total, t, true, "library passes although even one vote less than required would not".into());
                }
            }
            if pass && rej {
                viol(out, "C04.never_both", th, total, t, true, "is_passed and is_rejected both true".into());
            }
            let want = if pass { Status::Passed } else { Status::Rejected };
            if st != want {
                viol(out, "C04.status_consistent", th, total, t, true, format!("current_status {:?} after expiry but is_passed={pass}", st));
            }
            if pass {
                counters[2] += 1
            } else {
                counters[3] += 1
            }
        }
    }
}

fn small_scope(sc: &Scope) -> (u64, u64, Vec<Found>, [u64; 4], usize) {
    let totals: Vec<u64> = (0..=sc.n_small).collect();
    let parts: Vec<(u64, u64, Vec<Found>, [u64; 4], usize)> = totals
        .par_iter()
        .map(|&total| {
            let ths = thresholds(total, sc);
            // lattice of tallies with sum <= total
            let tn = total as usize + 1;
            let idx = |y: usize, n: usize, a: usize, v: usize| ((y * tn + n) * tn + a) * tn + v;
            let mut states = 0u64;
            let mut edges = 0u64;
            let mut found = vec![];
            let mut counters = [0u64; 4];
            for th in &ths {
                let slack = if is_p9(th) { 0 } else { 1 };
                let mut mp = vec![false; tn * tn * tn * tn];
                let mut cp = vec![false; tn * tn * tn * tn];
                // process by decreasing sum
                for s in (0..=total as usize).rev() {
                    for y in 0..=s {
                        for n in 0..=(s - y) {
                            for a in 0..=(s - y - n) {
                                let v = s - y - n - a;
                                let t = Tally { y: y as u64, n: n as u64, a: a as u64, v: v as u64 };
                                let leaf_allowed = passes_at_expiry(th, total, &t, slack);
                                let leaf_exact = passes_at_expiry(th, total, &t, 0);
                                let (mut m, mut c) = (leaf_allowed, leaf_exact);
                                if s < total as usize {
                                    for (dy, dn, da, dv) in [(1, 0, 0, 0), (0, 1, 0, 0), (0, 0, 1, 0), (0, 0, 0, 1)] {
                                        let j = idx(y + dy, n + dn, a + da, v + dv);
                                        m &= mp[j];
                                        c |= cp[j];
                                        edges += 1;
                                    }
                                }
                                mp[idx(y, n, a, v)] = m;
                                cp[idx(y, n, a, v)] = c;
                                states += 2;
                                judge(th, total, &t, m, c, &mut found, &mut counters);
                            }
                        }
                    }
                }
            }
            (states, edges, found, counters, ths.len())
        })
        .collect();
    let mut acc = (0u64, 0u64, vec![], [0u64; 4], 0usize);
    for (s, e, f, c, n) in parts {
        acc.0 += s;
        acc.1 += e;
        acc.2.extend(f);
        for i in 0..4 {
            acc.3[i] += c[i];
        }
        acc.4 += n;
    }
    acc
}

fn large_scope() -> (u64, u64, Vec<Found>, [u64; 4], usize) {
    let totals: Vec<u64> = vec![1u64 << 32, 1u64 << 63, u64::MAX - 1, u64::MAX];
    let parts: Vec<(u64, u64, Vec<Found>, [u64; 4], usize)> = totals
        .par_iter()
        .map(|&total| {
            let grid = |r: u64| -> Vec<u64> {
                let mut g = vec![0, 1, r / 3, (r / 2).saturating_sub(1), r / 2, r / 2 + 1, r.saturating_sub(1), r];
                g.retain(|x| *x <= r);
                g.sort();
                g.dedup();
                g
            };
            let mut ths: Vec<Th> = vec![Th::Count(1), Th::Count(total / 2), Th::Count(total / 2 + 1), Th::Count(total - 1), Th::Count(total)];
            let mut ps: BTreeSet<u128> = boundary_fractions(4, 9, 1, 2);
            ps.extend(boundary_fractions(3, 18, 1, 2));
            ps.extend([ONE / 2, ONE, ONE / 2 + 1_000_000_000, ONE - 1_000_000_000, ONE / 2 + 1, ONE - 1]);
            for p in &ps {
                ths.push(Th::Pct(*p));
            }
            let mut qs: BTreeSet<u128> = boundary_fractions(3, 9, 0, 1);
            qs.extend([1u128, 1_000_000_000, ONE - 1, ONE]);
            for t in [ONE / 2, ONE / 2 + 1, 666_666_667_000_000_000, ONE - 1, ONE] {
                for q in &qs {
                    ths.push(Th::Quorum { t, q: *q });
                }
            }
            let g = grid(total);
            let mut states = 0u64;
            let mut edges = 0u64;
            let mut found = vec![];
            let mut counters = [0u64; 4];
            for th in &ths {
                let slack = if is_p9(th) { 0 } else { 1 };
                for &y in &g {
                    for &n in &g {
                        for &a in &g {
                            for &v in &g {
                                let t = Tally { y, n, a, v };
                                if t.sum() > total as u128 {
                                    continue;
                                }
                                let r = (total as u128 - t.sum()) as u64;
                                // completions restricted to the boundary grid of the outstanding weight
                                let rg = grid(r);
                                let mut m = true;
                                let mut c = false;
                                for &dy in &rg {
                                    for &dn in &rg {
                                        for &da in &rg {
                                            for &dv in &rg {
                                                if dy as u128 + dn as u128 + da as u128 + dv as u128 > r as u128 {
                                                    continue;
                                                }
                                                let ct = Tally { y: y + dy, n: n + dn, a: a + da, v: v + dv };
                                                m &= passes_at_expiry(th, total, &ct, slack);
                                                c |= passes_at_expiry(th, total, &ct, 0);
                                                edges += 1;
                                            }
                                        }
                                    }
                                }
                                states += 2;
                                judge(th, total, &t, m, c, &mut found, &mut counters);
                            }
                        }
                    }
                }
            }
            (states, edges, found, counters, ths.len())
        })
        .collect();
    let mut acc = (0u64, 0u64, vec![], [0u64; 4], 0usize);
    for (s, e, f, c, n) in parts {
        acc.0 += s;
        acc.1 += e;
        acc.2.extend(f);
        for i in 0..4 {
            acc.3[i] += c[i];
        }
        acc.4 += n;
    }
    acc
}

pub fn run(thorough: bool, known: &dyn mc::KnownMatcher) -> Vec<RunStats> {
    let sc = if thorough {
        Scope { n_small: 24, frac_n: 24, quorum_t_n: 6, quorum_q_n: 8, large: true }
    } else {
        Scope { n_small: 12, frac_n: 12, quorum_t_n: 3, quorum_q_n: 5, large: true }
    };
    let mut runs = vec![];
    let t0 = std::time::Instant::now();
    let (states, edges, found, counters, nth) = small_scope(&sc);
    runs.push(mk_stats(
        format!("C04/small-scope/total<={}/thresholds={}", sc.n_small, nth),
        states, edges, found, counters, known, t0.elapsed().as_secs_f64(),
    ));
    if sc.large {
        let t1 = std::time::Instant::now();
        let (states, edges, found, counters, nth) = large_scope();
        runs.push(mk_stats(
            format!("C04/large-scope/total in {{2^32,2^63,2^64-2,2^64-1}}/thresholds={}", nth),
            states, edges, found, counters, known, t1.elapsed().as_secs_f64(),
        ));
    }
    runs
}

fn mk_stats(name: String, states: u64, edges: u64, found: Vec<Found>, c: [u64; 4], known: &dyn mc::KnownMatcher, wall: f64) -> RunStats {
    let mut st = RunStats { config: name.clone(), states, transitions: edges.max(1), fixpoint: true, wall_s: wall, ..Default::default() };
    st.labels.insert("early:library says Passed".into(), (c[0], 0));
    st.labels.insert("early:library says Rejected".into(), (c[1], 0));
    st.labels.insert("expired:library says Passed".into(), (c[2], 0));
    st.labels.insert("expired:library says Rejected".into(), (c[3], 0));
    for mut f in found {
        f.config = name.clone();
        let v = mc::Violation { clause: f.clause.clone(), detail: f.detail.clone(), tags: f.tags.clone() };
        if let Some(d) = known.matches(&v) {
            *st.known_hits.entry(d.clone()).or_insert(0) += 1;
            if st.known_hits[&d] == 1 {
                f.known = Some(d);
                st.found.push(f);
            }
        } else {
            st.found.push(f);
        }
    }
    st.samples.push(vec![json!({"note": "lattice state = (threshold, total, yes, no, abstain, veto, expired?)", "example": {"threshold": {"Pct": "500000000000000000"}, "total": 3, "tally": [1, 1, 0, 0], "expired": false}})]);
    st
}

/// replay of one lattice state
pub fn replay_case(v: &serde_json::Value) -> i32 {
    let th: Th = match serde_json::from_value(v["threshold"].clone()) {
        Ok(t) => t,
        Err(e) => {
            eprintln!("machinery error: {e}");
            return 2;
        }
    };
    let g = |k: &str| v["tally"][k].as_str().and_then(|s| s.parse::<u64>().ok()).unwrap_or(0);
    let total: u64 = v["total_weight"].as_str().and_then(|s| s.parse().ok()).unwrap_or(0);
    let t = Tally { y: g("yes"), n: g("no"), a: g("abstain"), v: g("veto") };
    let p = proposal(&th, total, &t);
    for expired in [false, true] {
        println!("threshold={:?} total={} tally={:?} expired={} -> library (is_passed,is_rejected,status)={:?}; exact formula at expiry={} ", th, total, t, expired, lib(&p, expired), passes_at_expiry(&th, total, &t, 0));
    }
    let mut found = vec![];
    let mut c = [0u64; 4];
    let small = total <= 24;
    let (m, cp) = if small {
        (must_pass(&th, total, &t, if is_p9(&th) { 0 } else { 1 }), can_pass(&th, total, &t))
    } else {
        (true, false)
    };
    judge(&th, total, &t, m, cp, &mut found, &mut c);
    for f in &found {
        println!("    VIOLATED clause={} {}", f.clause, f.detail);
    }
    if found.is_empty() {
        0
    } else {
        1
    }
}
