//! cw3-fixed-multisig and cw3-flex-multisig (+ real cw4-group, cw20-base, sink) under exhaustive
//! exploration: alphabet, reference and oracles for C03, C05, C06, C15.
use super::spec::*;
use cosmwasm_std::{coin, to_json_binary, to_json_vec, BankMsg, Coin, CosmosMsg, Timestamp, Uint128, WasmMsg};
use cw3::{ProposalListResponse, ProposalResponse, Status, Vote, VoteInfo, VoteListResponse, VoteResponse, VoterListResponse};
use cw_utils::{Duration, Expiration};
use mc::world::{addr_cached, ContractVt, World};
use mc::{fp128, Model, Step, Violation};
use serde::{Deserialize, Serialize};
use std::collections::{BTreeMap, BTreeSet};
use std::sync::{Arc, OnceLock};

pub const H0: u64 = 10;
pub const T0: u64 = 1000;
pub const DT: u64 = 5;
pub const DENOM: &str = "ucosm";
pub const DENOM2: &str = "uother";
/// the deposit denom spelled in upper case: a different bank denom
pub fn denom_of(d: u8) -> String {
    match d {
        0 => DENOM.to_string(),
        1 => DENOM2.to_string(),
        // (asset index 2 is the cw20 deposit token in the ledger)
        _ => DENOM.to_uppercase(),
    }
}

pub fn vt_fixed() -> &'static ContractVt {
    static VT: OnceLock<ContractVt> = OnceLock::new();
    VT.get_or_init(|| {
        mc::contract_vt!("cw3-fixed", cw3_fixed_multisig::contract, cw3_fixed_multisig::msg::InstantiateMsg, cw3_fixed_multisig::msg::ExecuteMsg, cw3_fixed_multisig::msg::QueryMsg)
    })
}
pub fn vt_flex() -> &'static ContractVt {
    static VT: OnceLock<ContractVt> = OnceLock::new();
    VT.get_or_init(|| {
        mc::contract_vt!("cw3-flex", cw3_flex_multisig::contract, cw3_flex_multisig::msg::InstantiateMsg, cw3_flex_multisig::msg::ExecuteMsg, cw3_flex_multisig::msg::QueryMsg)
    })
}
pub fn vt_group() -> &'static ContractVt {
    static VT: OnceLock<ContractVt> = OnceLock::new();
    VT.get_or_init(|| {
        mc::contract_vt!("cw4-group", cw4_group::contract, cw4_group::msg::InstantiateMsg, cw4_group::msg::ExecuteMsg, cw4_group::msg::QueryMsg)
    })
}
pub fn vt_stake() -> &'static ContractVt {
    static VT: OnceLock<ContractVt> = OnceLock::new();
    VT.get_or_init(|| {
        mc::contract_vt!("cw4-stake", cw4_stake::contract, cw4_stake::msg::InstantiateMsg, cw4_stake::msg::ExecuteMsg, cw4_stake::msg::QueryMsg)
    })
}
pub const STAKE_DENOM: &str = "ustake";
pub fn vt_cw20() -> &'static ContractVt {
    static VT: OnceLock<ContractVt> = OnceLock::new();
    VT.get_or_init(|| {
        mc::contract_vt!("cw20-base", cw20_base::contract, cw20_base::msg::InstantiateMsg, cw20_base::msg::ExecuteMsg, cw20_base::msg::QueryMsg)
    })
}

pub fn ms() -> String {
    addr_cached("multisig")
}
pub fn group() -> String {
    addr_cached("group")
}
pub fn tok() -> String {
    addr_cached("deposit-token")
}
pub fn sink() -> String {
    addr_cached("sink")
}

#[derive(Clone, Copy, Debug, PartialEq, Eq, Hash, Serialize, Deserialize)]
pub enum Per {
    H(u64),
    T(u64),
}

#[derive(Clone, Copy, Debug, PartialEq, Eq, Hash, Serialize, Deserialize)]
pub enum Exec {
    Anyone,
    Member,
    Only(u8),
}

#[derive(Clone, Copy, Debug, PartialEq, Eq, Hash, Serialize, Deserialize)]
pub enum Dep {
    None,
    Native { amount: u128, refund: bool },
    Cw20 { amount: u128, refund: bool },
}

/// what a proposal carries
#[derive(Clone, Copy, Debug, PartialEq, Eq, Hash, PartialOrd, Ord, Serialize, Deserialize)]
pub enum PK {
    Empty,
    Tag1,
    Tag2,
    /// bank send of 1 ucosm from the multisig to actor 0 (fails until the multisig is funded)
    Pay,
    /// first message re-enters Execute of the same proposal, then a tagged message
    Reenter,
    /// first message executes proposal `id-1` (or 1), then a tagged message
    ExecPrev,
    /// first message closes proposal `id-1`, then a tagged message
    ClosePrev,
    /// the same tagged message twice in a row, then another one (two equal instalments)
    TagTwice,
    /// bank send of exactly the configured native deposit (else 1 ucosm) to actor 0: where actor 0 is the proposer
    /// this message is byte-identical to the deposit refund that precedes it (seeded C15_r12_1)
    PayDeposit,
    /// 31 tagged messages: one more than the page limit of the list queries (seeded C05_r11_1)
    Tag31,
}

#[derive(Clone, Copy, Debug, PartialEq, Eq, Hash, PartialOrd, Ord, Serialize, Deserialize)]
pub enum LatestA {
    Unset,
    Shorter,
    Longer,
    Never,
    AlreadyExpired,
    OtherKind,
}

#[derive(Clone, Copy, Debug, PartialEq, Eq, Hash, PartialOrd, Ord, Serialize, Deserialize)]
pub enum VoteA {
    Yes,
    No,
    Abstain,
    Veto,
}
impl VoteA {
    fn to(self) -> Vote {
        match self {
            VoteA::Yes => Vote::Yes,
            VoteA::No => Vote::No,
            VoteA::Abstain => Vote::Abstain,
            VoteA::Veto => Vote::Veto,
        }
    }
    fn from(v: &Vote) -> VoteA {
        match v {
            Vote::Yes => VoteA::Yes,
            Vote::No => VoteA::No,
            Vote::Abstain => VoteA::Abstain,
            Vote::Veto => VoteA::Veto,
        }
    }
}

/// funds attached to Propose: list of (denom index 0=ucosm 1=uother, amount)
pub type FundsA = Vec<(u8, u8)>;

#[derive(Clone, Debug, Serialize, Deserialize)]
pub enum Act {
    Propose { by: u8, kind: PK, latest: LatestA, funds: FundsA },
    Vote { by: u8, id: u64, vote: VoteA },
    Execute { by: u8, id: u64 },
    Close { by: u8, id: u64 },
    Advance,
    GroupUpdate { by: u8, edit: u8 },
    Fund,
    SinkFail { on: bool },
    IncAllow { by: u8, amt: u8 },
    /// MemberChangedHook sent to the flex multisig directly by somebody who is not its group
    HookDirect { by: u8 },
    /// the group admin unregisters (false) / registers (true) the multisig as a hook of its group
    GroupHook { add: bool },
}

#[derive(Clone, Debug, Default)]
pub struct Props {
    pub c03: bool,
    pub c05: bool,
    pub c06: bool,
    pub c15: bool,
}

#[derive(Clone, Debug)]
pub struct GroupEdit {
    pub remove: Vec<u8>,
    pub add: Vec<(u8, u64)>,
}

#[derive(Clone, Debug)]
pub struct Cfg {
    pub name: String,
    pub flex: bool,
    pub actors: Vec<&'static str>,
    /// initial voter list (fixed) / group members (flex); may repeat an address for cw3-fixed
    pub voters: Vec<(u8, u64)>,
    pub group_admin: u8,
    pub th: Th,
    pub period: Per,
    pub executor: Exec,
    pub deposit: Dep,
    pub props: Props,
    pub max_props: usize,
    pub kinds: Vec<PK>,
    pub latest: Vec<LatestA>,
    pub votes: Vec<VoteA>,
    pub proposers: Vec<u8>,
    pub voters_acting: Vec<u8>,
    pub executors: Vec<u8>,
    pub closers: Vec<u8>,
    pub edits: Vec<GroupEdit>,
    pub editors: Vec<u8>,
    pub max_edits: u8,
    /// group edits are only offered once a proposal exists and only in later blocks than its creation
    pub edits_after_proposal: bool,
    pub funds: Vec<FundsA>,
    pub allow_amts: Vec<u8>,
    pub max_allow: u8,
    /// blocks after H0+1 the clock may advance
    pub blocks: u64,
    pub max_faults: u8,
    pub max_fund: u8,
    /// initial native balance of every actor (C15)
    pub purse: u128,
    /// C03: also require that a Passed proposal is admitted by Execute (configs without messages/deposit/executor)
    pub exec_iff: bool,
    /// flex: the multisig is registered as a hook of its group (every accepted UpdateMembers is followed,
    /// in the same transaction, by a MemberChangedHook call into the multisig)
    pub hooked: bool,
    /// block time step in nanoseconds (DT seconds by default; sub-second in the configurations that put the
    /// expiry instant inside a second)
    pub tick_ns: u64,
    /// the group admin may unregister / re-register the multisig as a hook at any time (hooked configurations)
    pub hook_toggle: bool,
    /// flex: the group behind the multisig is a cw4-stake contract (1 token = 1 weight, min_bond 1); a group
    /// edit is carried out by the members themselves bonding / unbonding down or up to the weight named
    pub stake_group: bool,
}

impl Cfg {
    pub fn base(name: &str, flex: bool) -> Cfg {
        Cfg {
            name: name.into(),
            flex,
            actors: vec!["A", "B", "C", "X"],
            voters: vec![(0, 1), (1, 1), (2, 1)],
            group_admin: 3,
            th: Th::Count(2),
            period: Per::H(2),
            executor: Exec::Anyone,
            deposit: Dep::None,
            props: Props::default(),
            max_props: 1,
            kinds: vec![PK::Empty],
            latest: vec![LatestA::Unset],
            votes: vec![VoteA::Yes, VoteA::No, VoteA::Abstain, VoteA::Veto],
            proposers: vec![0],
            voters_acting: vec![0, 1, 2, 3],
            executors: vec![0, 3],
            closers: vec![0, 3],
            edits: vec![],
            editors: vec![],
            max_edits: 0,
            edits_after_proposal: false,
            funds: vec![vec![]],
            allow_amts: vec![],
            max_allow: 4,
            blocks: 4,
            max_faults: 0,
            max_fund: 0,
            purse: 0,
            exec_iff: false,
            hooked: false,
            tick_ns: DT * NS,
            hook_toggle: false,
            stake_group: false,
        }
    }
    /// An actor named "^X" is the account X spelled in upper case (voter lists naming one account twice)
    pub fn addr(&self, i: u8) -> String {
        let n = self.actors[i as usize];
        match n.strip_prefix('^') {
            Some(base) => addr_cached(base).to_uppercase(),
            None => addr_cached(n),
        }
    }
    pub fn canon(&self, i: u8) -> u8 {
        match self.actors[i as usize].strip_prefix('^') {
            Some(base) => self.actors.iter().position(|a| *a == base).map(|p| p as u8).unwrap_or(i),
            None => i,
        }
    }
    fn idx_of(&self, a: &str) -> Option<u8> {
        (0..self.actors.len() as u8).find(|i| self.addr(*i) == a)
    }
    fn max_expiry(&self, h: u64, t: u64) -> Expiration {
        match self.period {
            Per::H(n) => Expiration::AtHeight(h + n),
            Per::T(n) => Expiration::AtTime(Timestamp::from_nanos(t + n * NS)),
        }
    }
}

pub const NS: u64 = 1_000_000_000;
/// (height, time in nanoseconds) of the world's current block
pub fn now(w: &World) -> (u64, u64) {
    (w.height, w.time_s * NS + w.time_ns)
}

#[derive(Clone, Copy, Debug, PartialEq, Eq, Hash, PartialOrd, Ord)]
pub enum ExpKey {
    Never,
    H(u64),
    T(u64),
}
impl ExpKey {
    fn from(e: &Expiration) -> ExpKey {
        match e {
            Expiration::Never {} => ExpKey::Never,
            Expiration::AtHeight(h) => ExpKey::H(*h),
            Expiration::AtTime(t) => ExpKey::T(t.nanos()),
        }
    }
    fn expired(&self, h: u64, t: u64) -> bool {
        match self {
            ExpKey::Never => false,
            ExpKey::H(x) => h >= *x,
            ExpKey::T(x) => t >= *x,
        }
    }
}

#[derive(Clone, Copy, Debug, PartialEq, Eq, Hash, PartialOrd, Ord)]
pub enum St {
    Pending,
    Open,
    Rejected,
    Passed,
    Executed,
}
impl St {
    fn from(s: &Status) -> St {
        match s {
            Status::Pending => St::Pending,
            Status::Open => St::Open,
            Status::Rejected => St::Rejected,
            Status::Passed => St::Passed,
            Status::Executed => St::Executed,
        }
    }
}

/// what the queries report about one proposal
#[derive(Clone, Debug, PartialEq, Eq)]
pub struct PObs {
    pub id: u64,
    pub status: St,
    pub list_status: Option<St>,
    pub rev_status: Option<St>,
    pub list_fixed: Option<u128>,
    pub rev_fixed: Option<u128>,
    pub th: Th,
    pub total: u64,
    pub expires: ExpKey,
    /// fingerprint of everything except the status
    pub fixed: u128,
    /// voter address -> (vote, weight) from the fully paged ListVotes
    pub ballots: BTreeMap<String, (VoteA, u64)>,
    pub ballot_dups: bool,
    /// Vote{voter} point queries for every actor
    pub point: BTreeMap<u8, Option<(VoteA, u64)>>,
}

impl PObs {
    pub fn tally(&self) -> Tally {
        let mut t = Tally::default();
        for (v, w) in self.ballots.values() {
            match v {
                VoteA::Yes => t.y = t.y.saturating_add(*w),
                VoteA::No => t.n = t.n.saturating_add(*w),
                VoteA::Abstain => t.a = t.a.saturating_add(*w),
                VoteA::Veto => t.v = t.v.saturating_add(*w),
            }
        }
        t
    }
}

#[derive(Clone, Debug, PartialEq, Eq, Default)]
pub struct Obs {
    pub props: Vec<PObs>,
    pub list_ids: Vec<u64>,
    pub rev_ids: Vec<u64>,
    /// real balances: (holder, asset) -> amount; holders = actors then multisig (index 255); asset 0=ucosm 1=uother 2=cw20
    pub bal: BTreeMap<(u8, u8), u128>,
    /// fixed multisig: ListVoters
    pub voters: BTreeMap<String, u64>,
    pub errors: Vec<String>,
}

#[derive(Clone, Debug, PartialEq, Eq, Hash)]
pub struct PRef {
    pub proposer: u8,
    pub kind: PK,
    pub created_h: u64,
    pub created_t: u64,
    pub snapshot: BTreeMap<u8, u64>,
    pub snap_total: u128,
    pub same_block_change: bool,
    pub cur_total_at_propose: u128,
    pub cur_proposer_weight: Option<u64>,
    pub executed: bool,
    pub dispatched: u8,
    pub fixed: u128,
    pub returned: u8,
    pub taken: bool,
}

#[derive(Clone, Debug, PartialEq, Eq, Hash, Default)]
pub struct Ref {
    pub props: Vec<PRef>,
    pub group_now: BTreeMap<u8, u64>,
    pub group_start: BTreeMap<u8, u64>,
    pub changed_this_block: bool,
    pub edits: u8,
    pub faults: u8,
    pub funded: u8,
    pub bal: BTreeMap<(u8, u8), u128>,
    pub allowed: u8,
    pub dead: bool,
}

#[derive(Clone)]
pub struct State {
    pub w: World,
    pub r: Ref,
    pub obs: Arc<Obs>,
}

pub struct Cw3Model {
    pub cfg: Cfg,
}

const MS: u8 = 255;

fn q<Q: Serialize, R: serde::de::DeserializeOwned>(w: &World, c: &str, m: &Q) -> Result<R, String> {
    w.query(c, m)
}

fn prop_fixed_fp(p: &ProposalResponse) -> u128 {
    let s = serde_json::json!({
        "title": p.title, "description": p.description,
        "msgs": format!("{:?}", p.msgs),
        "expires": format!("{:?}", p.expires),
        "threshold": format!("{:?}", p.threshold),
        "proposer": p.proposer.to_string(),
        "deposit": format!("{:?}", p.deposit),
    });
    fp128(&s.to_string())
}

impl Cw3Model {
    fn qmsg(&self, m: &cw3::Cw3QueryMsg) -> Vec<u8> {
        to_json_vec(m).unwrap()
    }

    pub fn observe(&self, w: &World) -> Obs {
        let cfg = &self.cfg;
        let msa = ms();
        let mut o = Obs::default();
        // full listing, both directions, paged
        let mut listed: BTreeMap<u64, St> = BTreeMap::new();
        let mut listed_fx: BTreeMap<u64, u128> = BTreeMap::new();
        let mut rev_fx: BTreeMap<u64, u128> = BTreeMap::new();
        let mut cursor: Option<u64> = None;
        for _ in 0..20 {
            match q::<_, ProposalListResponse>(w, &msa, &cw3::Cw3QueryMsg::ListProposals { start_after: cursor, limit: Some(30) }) {
                Ok(p) => {
                    if p.proposals.is_empty() {
                        break;
                    }
                    cursor = p.proposals.last().map(|x| x.id);
                    for x in p.proposals {
                        o.list_ids.push(x.id);
                        listed.insert(x.id, St::from(&x.status));
                        listed_fx.insert(x.id, prop_fixed_fp(&x));
                    }
                }
                Err(e) => {
                    o.errors.push(format!("ListProposals: {e}"));
                    break;
                }
            }
        }
        let mut rev: BTreeMap<u64, St> = BTreeMap::new();
        let mut cursor: Option<u64> = None;
        for _ in 0..20 {
            match q::<_, ProposalListResponse>(w, &msa, &cw3::Cw3QueryMsg::ReverseProposals { start_before: cursor, limit: Some(30) }) {
                Ok(p) => {
                    if p.proposals.is_empty() {
                        break;
                    }
                    cursor = p.proposals.last().map(|x| x.id);
                    for x in p.proposals {
                        o.rev_ids.push(x.id);
                        rev.insert(x.id, St::from(&x.status));
                        rev_fx.insert(x.id, prop_fixed_fp(&x));
                    }
                }
                Err(e) => {
                    o.errors.push(format!("ReverseProposals: {e}"));
                    break;
                }
            }
        }
        // point queries for ids 1..=n where n is what the listing or the raw counter says
        let n = o.list_ids.iter().copied().max().unwrap_or(0).max(o.rev_ids.iter().copied().max().unwrap_or(0));
        let n = n.max(self.raw_count(w));
        for id in 1..=n {
            match q::<_, ProposalResponse>(w, &msa, &cw3::Cw3QueryMsg::Proposal { proposal_id: id }) {
                Ok(p) => {
                    let (th, total) = from_response(&p.threshold);
                    let mut ballots = BTreeMap::new();
                    let mut dups = false;
                    let mut cursor: Option<String> = None;
                    for _ in 0..20 {
                        match q::<_, VoteListResponse>(w, &msa, &cw3::Cw3QueryMsg::ListVotes { proposal_id: id, start_after: cursor.clone(), limit: Some(30) }) {
                            Ok(v) => {
                                if v.votes.is_empty() {
                                    break;
                                }
                                cursor = v.votes.last().map(|x| x.voter.clone());
                                for VoteInfo { voter, vote, weight, .. } in v.votes {
                                    if ballots.insert(voter, (VoteA::from(&vote), weight)).is_some() {
                                        dups = true;
                                    }
                                }
                            }
                            Err(e) => {
                                o.errors.push(format!("ListVotes({id}): {e}"));
                                break;
                            }
                        }
                    }
                    let mut point = BTreeMap::new();
                    if cfg.props.c06 {
                        for i in 0..cfg.actors.len() as u8 {
                            match q::<_, VoteResponse>(w, &msa, &cw3::Cw3QueryMsg::Vote { proposal_id: id, voter: cfg.addr(i) }) {
                                Ok(v) => {
                                    point.insert(i, v.vote.map(|x| (VoteA::from(&x.vote), x.weight)));
                                }
                                Err(e) => o.errors.push(format!("Vote({id},{}): {e}", cfg.actors[i as usize])),
                            }
                        }
                    }
                    o.props.push(PObs {
                        id,
                        status: St::from(&p.status),
                        list_status: listed.get(&id).copied(),
                        rev_status: rev.get(&id).copied(),
                        list_fixed: listed_fx.get(&id).copied(),
                        rev_fixed: rev_fx.get(&id).copied(),
                        th,
                        total,
                        expires: ExpKey::from(&p.expires),
                        fixed: prop_fixed_fp(&p),
                        ballots,
                        ballot_dups: dups,
                        point,
                    });
                }
                Err(e) => o.errors.push(format!("Proposal({id}): {e}")),
            }
        }
        if cfg.props.c15 {
            let assets: [&str; 2] = [DENOM, DENOM2];
            for h in (0..cfg.actors.len() as u8).chain([MS]) {
                let ad = if h == MS { msa.clone() } else { cfg.addr(h) };
                for (ai, d) in assets.iter().enumerate() {
                    o.bal.insert((h, ai as u8), w.balance(&ad, d));
                }
                o.bal.insert((h, 3), w.balance(&ad, &DENOM.to_uppercase()));
                if matches!(cfg.deposit, Dep::Cw20 { .. }) {
                    match q::<_, cw20::BalanceResponse>(w, &tok(), &cw20::Cw20QueryMsg::Balance { address: ad }) {
                        Ok(b) => {
                            o.bal.insert((h, 2), b.balance.u128());
                        }
                        Err(e) => o.errors.push(format!("cw20 Balance: {e}")),
                    }
                }
            }
        }
        if !cfg.flex && cfg.props.c06 {
            let mut cursor: Option<String> = None;
            for _ in 0..20 {
                match q::<_, VoterListResponse>(w, &msa, &cw3::Cw3QueryMsg::ListVoters { start_after: cursor.clone(), limit: Some(30) }) {
                    Ok(v) => {
                        if v.voters.is_empty() {
                            break;
                        }
                        cursor = v.voters.last().map(|x| x.addr.clone());
                        for x in v.voters {
                            o.voters.insert(x.addr, x.weight);
                        }
                    }
                    Err(e) => {
                        o.errors.push(format!("ListVoters: {e}"));
                        break;
                    }
                }
            }
        }
        let _ = self.qmsg(&cw3::Cw3QueryMsg::Threshold {});
        o
    }

    /// the raw proposal counter (public item `proposal_count`), so that a proposal hidden from the listings is still inspected
    fn raw_count(&self, w: &World) -> u64 {
        w.raw(&ms(), b"proposal_count")
            .and_then(|v| cosmwasm_std::from_json::<u64>(&v).ok())
            .unwrap_or(0)
    }

    fn authorised(&self, r: &Ref, caller: Option<u8>) -> bool {
        match self.cfg.executor {
            Exec::Anyone => true,
            Exec::Member => match caller {
                Some(c) => {
                    if self.cfg.flex {
                        r.group_now.contains_key(&c)
                    } else {
                        true
                    }
                }
                None => false,
            },
            Exec::Only(e) => caller == Some(e),
        }
    }

    fn msgs_of(&self, kind: PK, pid: u64) -> Vec<CosmosMsg> {
        let tag = |i: u32| -> CosmosMsg {
            WasmMsg::Execute {
                contract_addr: sink(),
                msg: to_json_binary(&serde_json::json!({"tag": [pid, i]})).unwrap(),
                funds: vec![],
            }
            .into()
        };
        let exec = |m: &cw3_fixed_multisig::msg::ExecuteMsg| -> CosmosMsg {
            WasmMsg::Execute { contract_addr: ms(), msg: to_json_binary(m).unwrap(), funds: vec![] }.into()
        };
        let prev = if pid > 1 { pid - 1 } else { 1 };
        match kind {
            PK::Empty => vec![],
            PK::Tag1 => vec![tag(0)],
            PK::Tag2 => vec![tag(0), tag(1)],
            PK::Pay => vec![BankMsg::Send { to_address: self.cfg.addr(0), amount: vec![coin(1, DENOM)] }.into()],
            PK::PayDeposit => vec![BankMsg::Send { to_address: self.cfg.addr(0), amount: vec![coin(self.pay_deposit_amount(), DENOM)] }.into()],
            PK::Reenter => vec![exec(&cw3_fixed_multisig::msg::ExecuteMsg::Execute { proposal_id: pid }), tag(0)],
            PK::ExecPrev => vec![exec(&cw3_fixed_multisig::msg::ExecuteMsg::Execute { proposal_id: prev }), tag(0)],
            PK::ClosePrev => vec![exec(&cw3_fixed_multisig::msg::ExecuteMsg::Close { proposal_id: prev }), tag(0)],
            PK::TagTwice => vec![tag(0), tag(0), tag(1)],
            PK::Tag31 => (0..31).map(tag).collect(),
        }
    }

    fn pay_deposit_amount(&self) -> u128 {
        match self.cfg.deposit {
            Dep::Native { amount, .. } => amount,
            _ => 1,
        }
    }

    fn n_tags(kind: PK) -> u32 {
        match kind {
            PK::Empty | PK::Pay | PK::PayDeposit => 0,
            PK::Tag2 => 2,
            PK::TagTwice => 3,
            PK::Tag31 => 31,
            _ => 1,
        }
    }

    /// the tag indices a proposal of this kind carries, in order
    fn tags_of(kind: PK) -> Vec<u32> {
        match kind {
            PK::TagTwice => vec![0, 0, 1],
            k => (0..Cw3Model::n_tags(k)).collect(),
        }
    }

    fn latest_of(&self, l: LatestA, h: u64, t: u64) -> Option<Expiration> {
        let cfg = &self.cfg;
        match (l, cfg.period) {
            (LatestA::Unset, _) => None,
            (LatestA::Never, _) => Some(Expiration::Never {}),
            (LatestA::Shorter, Per::H(_)) => Some(Expiration::AtHeight(h + 1)),
            (LatestA::Shorter, Per::T(_)) => Some(Expiration::AtTime(Timestamp::from_nanos(t + cfg.tick_ns))),
            (LatestA::Longer, Per::H(n)) => Some(Expiration::AtHeight(h + n + 2)),
            (LatestA::Longer, Per::T(n)) => Some(Expiration::AtTime(Timestamp::from_nanos(t + n * NS + 2 * cfg.tick_ns))),
            (LatestA::AlreadyExpired, Per::H(_)) => Some(Expiration::AtHeight(h)),
            (LatestA::AlreadyExpired, Per::T(_)) => Some(Expiration::AtTime(Timestamp::from_nanos(t))),
            (LatestA::OtherKind, Per::H(_)) => Some(Expiration::AtTime(Timestamp::from_nanos(t + cfg.tick_ns))),
            (LatestA::OtherKind, Per::T(_)) => Some(Expiration::AtHeight(h + 1)),
        }
    }

    /// the outcome the recorded ballots imply for a proposal, at block (h, t)
    fn implied(&self, p: &PObs, h: u64, t: u64) -> (bool, bool, bool, Tally) {
        let tally = p.tally();
        let expired = p.expires.expired(h, t);
        if tally.sum() > p.total as u128 {
            return (false, false, expired, tally);
        }
        let passes = spec_passes(&p.th, p.total, &tally, expired);
        let canp = if expired { passes } else { can_pass(&p.th, p.total, &tally) };
        (passes, canp, expired, tally)
    }

    fn d3_tags(&self, pr: &PRef, po: &PObs) -> Vec<String> {
        let mut tags = vec![];
        if self.cfg.flex && pr.same_block_change {
            let proposer_ballot = po.ballots.get(&self.cfg.addr(pr.proposer)).map(|b| b.1);
            if po.total as u128 == pr.cur_total_at_propose && proposer_ballot == Some(pr.cur_proposer_weight.unwrap_or(0)) {
                tags.push("flex_propose_after_group_change_in_same_block_uses_current_total_and_weight".to_string());
            }
        }
        tags
    }

    fn check_state(&self, w: &World, r: &Ref, o: &Obs, v: &mut Vec<Violation>) {
        let cfg = &self.cfg;
        let (h, t) = now(w);
        for e in &o.errors {
            // a query that aborts is attributed to the known same-block finding only if it concerns a
            // proposal that was created after a group change in its own block (its tally can exceed
            // its total, and the status arithmetic then underflows)
            let mut tags = vec![];
            let direct_fail = |id: u64| o.errors.iter().any(|x| x.starts_with(&format!("Proposal({id})")));
            let same_block_ids: Vec<u64> = r.props.iter().enumerate().filter(|(_, p)| p.same_block_change).map(|(i, _)| i as u64 + 1).collect();
            let concerns = same_block_ids.iter().any(|id| e.starts_with(&format!("Proposal({id})")) || e.starts_with(&format!("ListVotes({id})")))
                || ((e.starts_with("ListProposals") || e.starts_with("ReverseProposals")) && same_block_ids.iter().any(|id| direct_fail(*id)));
            if self.cfg.flex && concerns {
                tags.push("query_aborts_for_proposal_created_after_group_change_in_same_block".into());
            }
            v.push(Violation::tagged("query_fails", e.clone(), tags));
        }
        if o.props.len() != r.props.len() {
            v.push(Violation::new("C05.proposal_count", format!("queries show {} proposals, reference {}", o.props.len(), r.props.len())));
            return;
        }
        if cfg.props.c05 || cfg.props.c03 {
            let want: Vec<u64> = (1..=r.props.len() as u64).collect();
            let mut rv = want.clone();
            rv.reverse();
            if o.list_ids != want || o.rev_ids != rv {
                v.push(Violation::new("C05.listing_order_and_ids", format!("ListProposals ids {:?} ReverseProposals ids {:?} expected 1..={}", o.list_ids, o.rev_ids, r.props.len())));
            }
        }
        for (pr, po) in r.props.iter().zip(o.props.iter()) {
            let (passes, canp, expired, tally) = self.implied(po, h, t);
            let over = tally.sum() > po.total as u128;
            // in C06 runs the status oracle skips proposals hit by the known same-block finding (their total is wrong by D3)
            // D3 (known finding) can make a proposal's ballots outweigh its total; only then is the status
            // oracle not applicable. Otherwise the status must follow from the REPORTED total and ballots.
            if cfg.props.c03 && !(pr.same_block_change && over) {
                if po.list_status != Some(po.status) || po.rev_status != Some(po.status) {
                    v.push(Violation::new("C03.status_same_in_all_proposal_queries", format!("proposal {}: Proposal query {:?}, ListProposals {:?}, ReverseProposals {:?}", po.id, po.status, po.list_status, po.rev_status)));
                }
                if po.list_fixed != Some(po.fixed) || po.rev_fixed != Some(po.fixed) {
                    v.push(Violation::new("C03.proposal_same_in_all_proposal_queries", format!("proposal {}: threshold/total/expiry/content reported by Proposal, ListProposals and ReverseProposals differ", po.id)));
                }
                if over {
                    v.push(Violation::new("C03.ballots_exceed_total", format!("proposal {}: ballots {:?} total {}", po.id, tally, po.total)));
                } else {
                    let zero_yes = if tally.y == 0 { vec!["zero_yes".to_string()] } else { vec![] };
                    let ctx = format!("proposal {} threshold {:?} total {} tally {:?} expired {} executed {}", po.id, po.th, po.total, tally, expired, pr.executed);
                    if pr.executed {
                        if po.status != St::Executed {
                            v.push(Violation::new("C03.executed_stays_executed", format!("{ctx}: status {:?}", po.status)));
                        }
                    } else {
                        match po.status {
                            St::Passed => {
                                if !passes {
                                    v.push(Violation::tagged("C03.passed_only_if_ballots_imply_pass", format!("{ctx}: status Passed"), zero_yes));
                                }
                            }
                            St::Rejected => {
                                if passes || (!expired && canp) {
                                    v.push(Violation::new("C03.rejected_only_if_expired_unpassed_or_cannot_pass", format!("{ctx}: status Rejected")));
                                }
                            }
                            St::Open => {
                                if expired {
                                    v.push(Violation::new("C03.open_only_before_expiry", format!("{ctx}: status Open")));
                                }
                                if passes {
                                    v.push(Violation::new("C03.passed_when_ballots_imply_pass", format!("{ctx}: status Open")));
                                }
                            }
                            St::Executed => v.push(Violation::new("C03.executed_only_after_execute", format!("{ctx}: status Executed"))),
                            St::Pending => v.push(Violation::new("C03.status_pending", ctx.clone())),
                        }
                    }
                }
            }
            if cfg.props.c05 {
                if po.fixed != pr.fixed {
                    v.push(Violation::new("C05.proposal_fixed_at_creation", format!("proposal {}: content/threshold/expiry/proposer/deposit differ from what was first observed", po.id)));
                }
                let lim = cfg.max_expiry(pr.created_h, pr.created_t);
                let okexp = match (po.expires, ExpKey::from(&lim)) {
                    (ExpKey::H(a), ExpKey::H(b)) => a <= b,
                    (ExpKey::T(a), ExpKey::T(b)) => a <= b,
                    _ => false,
                };
                if !okexp {
                    v.push(Violation::new("C05.expiry_within_max_voting_period", format!("proposal {} created at height {} time {} expires {:?}, maximum {:?}", po.id, pr.created_h, pr.created_t, po.expires, lim)));
                }
                if pr.executed != (po.status == St::Executed) {
                    v.push(Violation::new("C05.executed_iff_execute_succeeded", format!("proposal {}: status {:?}, reference executed={}", po.id, po.status, pr.executed)));
                }
            }
            if cfg.props.c06 {
                let tags = self.d3_tags(pr, po);
                if po.total as u128 != pr.snap_total {
                    v.push(Violation::tagged("C06.total_is_sum_of_snapshot_weights", format!("proposal {}: total_weight {} but the snapshot it was opened against sums to {} ({:?})", po.id, po.total, pr.snap_total, pr.snapshot), tags.clone()));
                }
                if over {
                    v.push(Violation::tagged("C06.ballots_never_outweigh_total", format!("proposal {}: ballots {:?} sum {} > total {}", po.id, po.ballots.values().collect::<Vec<_>>(), tally.sum(), po.total), tags.clone()));
                }
                if po.ballot_dups {
                    v.push(Violation::new("C06.one_ballot_per_voter", format!("proposal {}: a voter appears twice in ListVotes", po.id)));
                }
                for (voter, (_, wgt)) in &po.ballots {
                    match cfg.idx_of(voter) {
                        None => v.push(Violation::new("C06.ballot_of_unknown_address", format!("proposal {}: {voter}", po.id))),
                        Some(i) => {
                            let sw = pr.snapshot.get(&i).copied();
                            if i == pr.proposer {
                                if *wgt != sw.unwrap_or(0) {
                                    v.push(Violation::tagged("C06.ballot_weight_is_snapshot_weight", format!("proposal {}: proposer {} ballot weight {} snapshot weight {:?}", po.id, cfg.actors[i as usize], wgt, sw), tags.clone()));
                                }
                            } else {
                                match sw {
                                    Some(x) if x >= 1 => {
                                        if *wgt != x {
                                            v.push(Violation::tagged("C06.ballot_weight_is_snapshot_weight", format!("proposal {}: voter {} ballot weight {} snapshot weight {}", po.id, cfg.actors[i as usize], wgt, x), tags.clone()));
                                        }
                                    }
                                    _ => v.push(Violation::tagged("C06.ineligible_address_has_ballot", format!("proposal {}: voter {} has a ballot of weight {} but snapshot weight {:?}", po.id, cfg.actors[i as usize], wgt, sw), tags.clone())),
                                }
                            }
                        }
                    }
                }
                for (i, pv) in &po.point {
                    let lv = po.ballots.get(&cfg.addr(*i)).copied();
                    if *pv != lv {
                        v.push(Violation::new("C06.vote_query_matches_listing", format!("proposal {}: Vote{{{}}} = {:?}, ListVotes entry {:?}", po.id, cfg.actors[*i as usize], pv, lv)));
                    }
                }
                if cfg.flex {
                    // the group's own history must agree with the reference snapshot (binds the reference to cw4-group)
                    for i in 0..cfg.actors.len() as u8 {
                        let m: Result<cw4::MemberResponse, String> = q(w, &group(), &cw4::Cw4QueryMsg::Member { addr: cfg.addr(i), at_height: Some(pr.created_h) });
                        if let Ok(m) = m {
                            if m.weight != pr.snapshot.get(&i).copied() {
                                v.push(Violation::new("C06.reference_snapshot_matches_group_history", format!("Member{{{}, at_height {}}} = {:?}, reference snapshot {:?}", cfg.actors[i as usize], pr.created_h, m.weight, pr.snapshot.get(&i))));
                            }
                        }
                    }
                    let tw: Result<cw4::TotalWeightResponse, String> = q(w, &group(), &cw4::Cw4QueryMsg::TotalWeight { at_height: Some(pr.created_h) });
                    if let Ok(tw) = tw {
                        if tw.weight as u128 != pr.snap_total {
                            v.push(Violation::new("C06.reference_snapshot_matches_group_history", format!("TotalWeight{{at_height {}}} = {}, reference {}", pr.created_h, tw.weight, pr.snap_total)));
                        }
                    }
                }
            }
        }
        if cfg.props.c06 && !cfg.flex {
            let sum: u128 = o.voters.values().map(|x| *x as u128).sum();
            for po in &o.props {
                if po.total as u128 != sum {
                    v.push(Violation::new("C06.total_is_sum_of_listed_voters", format!("proposal {}: total_weight {} but ListVoters weights sum to {}", po.id, po.total, sum)));
                }
            }
        }
        if cfg.props.c15 && o.bal != r.bal {
            let diff: Vec<String> = o
                .bal
                .iter()
                .filter(|(k, x)| r.bal.get(k) != Some(x))
                .map(|(k, x)| format!("holder {} asset {}: real {} ledger {:?}", if k.0 == MS { "multisig".to_string() } else { cfg.actors[k.0 as usize].to_string() }, ["ucosm", "uother", "cw20", "UCOSM"].get(k.1 as usize).copied().unwrap_or("?"), x, r.bal.get(k)))
                .collect();
            v.push(Violation::new("C15.balances_match_deposit_ledger", diff.join("; ")));
        }
    }

    /// C15 recoverability: can the deposit of failed proposal `id` still be brought back?
    fn recoverable(&self, w: &World, pr: &PRef, id: u64) -> bool {
        let cfg = &self.cfg;
        let asset = match cfg.deposit {
            Dep::Native { .. } => 0u8,
            Dep::Cw20 { .. } => 2u8,
            Dep::None => return true,
        };
        let prop_addr = cfg.addr(pr.proposer);
        let balance = |w: &World| -> u128 {
            if asset == 0 {
                w.balance(&prop_addr, DENOM)
            } else {
                q::<_, cw20::BalanceResponse>(w, &tok(), &cw20::Cw20QueryMsg::Balance { address: prop_addr.clone() }).map(|b| b.balance.u128()).unwrap_or(0)
            }
        };
        let before = balance(w);
        // bounded exhaustive search over every sequence of the form
        //   AdvanceBlock^k (k = 0..=4) . [Vote by any actor]? . (Close | Execute) by any actor
        // looking for a state where the proposer got the deposit back
        let n = cfg.actors.len() as u8;
        let finishers = |w: &World| -> bool {
            for by in 0..n {
                for msg in [
                    cw3_flex_multisig::msg::ExecuteMsg::Close { proposal_id: id },
                    cw3_flex_multisig::msg::ExecuteMsg::Execute { proposal_id: id },
                ] {
                    let mut w2 = w.clone();
                    if w2.execute_json(&cfg.addr(by), &ms(), &msg, &[]).ok() && balance(&w2) > before {
                        return true;
                    }
                }
            }
            false
        };
        let mut wk = w.clone();
        // recoverability is judged modulo solvency of the shared pool: an executed proposal may have
        // spent the multisig's funds (its own decision, not a refund defect), so the probe tops the
        // multisig up to the deposit amount before trying
        if let Dep::Native { amount, .. } = cfg.deposit {
            if wk.balance(&ms(), DENOM) < amount {
                wk.set_balance(&ms(), DENOM, amount);
            }
        }
        for _k in 0..=4 {
            if balance(&wk) > before || finishers(&wk) {
                return true;
            }
            for by in 0..n {
                for vote in [Vote::Yes, Vote::No, Vote::Abstain, Vote::Veto] {
                    let mut w2 = wk.clone();
                    if w2.execute_json(&cfg.addr(by), &ms(), &cw3_flex_multisig::msg::ExecuteMsg::Vote { proposal_id: id, vote }, &[]).ok()
                        && (balance(&w2) > before || finishers(&w2))
                    {
                        return true;
                    }
                }
            }
            wk.advance_nanos(1, self.cfg.tick_ns);
        }
        false
    }
}

fn label(a: &Act) -> String {
    match a {
        Act::Propose { .. } => "Propose",
        Act::Vote { .. } => "Vote",
        Act::Execute { .. } => "Execute",
        Act::Close { .. } => "Close",
        Act::Advance => "AdvanceBlock",
        Act::GroupUpdate { .. } => "GroupUpdateMembers",
        Act::HookDirect { .. } => "MemberChangedHookDirect",
        Act::GroupHook { .. } => "GroupAddOrRemoveHook",
        Act::Fund => "FundMultisig",
        Act::SinkFail { .. } => "ToggleReceiverFailure",
        Act::IncAllow { .. } => "Cw20IncreaseAllowance",
    }
    .to_string()
}

impl Model for Cw3Model {
    type State = State;
    type Action = Act;

    fn name(&self) -> String {
        self.cfg.name.clone()
    }

    fn init(&self) -> (State, Vec<Violation>) {
        let cfg = &self.cfg;
        let mut w = World::new();
        w.height = H0;
        w.time_s = T0;
        let mut v = vec![];
        let creator = addr_cached("creator");
        let mut r = Ref::default();
        w.instantiate(&mc::stubs::SINK, &sink(), &creator, b"{}", &[]);
        let period = match cfg.period {
            Per::H(n) => Duration::Height(n),
            Per::T(n) => Duration::Time(n),
        };
        let mut voters_map: BTreeMap<u8, u64> = BTreeMap::new();
        let mut dup = false;
        for (i, wg) in &cfg.voters {
            if voters_map.insert(cfg.canon(*i), *wg).is_some() {
                dup = true;
            }
        }
        let ok;
        if cfg.flex {
            let gm = cw4_group::msg::InstantiateMsg {
                admin: Some(cfg.addr(cfg.group_admin)),
                members: cfg.voters.iter().map(|(i, wg)| cw4::Member { addr: cfg.addr(*i), weight: *wg }).collect(),
            };
            let o = if cfg.stake_group {
                let sm = cw4_stake::msg::InstantiateMsg {
                    denom: cw20::Denom::Native(STAKE_DENOM.into()),
                    tokens_per_weight: Uint128::new(1),
                    min_bond: Uint128::new(1),
                    unbonding_period: Duration::Height(1),
                    admin: Some(cfg.addr(cfg.group_admin)),
                };
                let o = w.instantiate(vt_stake(), &group(), &creator, &to_json_vec(&sm).unwrap(), &[]);
                for (i, wg) in &cfg.voters {
                    w.set_balance(&cfg.addr(*i), STAKE_DENOM, 1_000);
                    if *wg > 0 {
                        let b = w.execute_json(&cfg.addr(*i), &group(), &cw4_stake::msg::ExecuteMsg::Bond {}, &[coin(*wg as u128, STAKE_DENOM)]);
                        if !b.ok() {
                            v.push(Violation::new("cfg.initial_bond_refused", b.err()));
                        }
                    }
                }
                o
            } else {
                w.instantiate(vt_group(), &group(), &creator, &to_json_vec(&gm).unwrap(), &[])
            };
            if !o.ok() {
                r.dead = true;
                return (State { w, r, obs: Arc::new(Obs::default()) }, v);
            }
            if let Dep::Cw20 { .. } = cfg.deposit {
                let tm = cw20_base::msg::InstantiateMsg {
                    name: "Deposit".into(),
                    symbol: "DEP".into(),
                    decimals: 0,
                    initial_balances: (0..cfg.actors.len() as u8).map(|i| cw20::Cw20Coin { address: cfg.addr(i), amount: Uint128::new(cfg.purse) }).collect(),
                    mint: None,
                    marketing: None,
                };
                w.instantiate(vt_cw20(), &tok(), &creator, &to_json_vec(&tm).unwrap(), &[]);
            }
            w.advance(1, DT);
            let dep = match cfg.deposit {
                Dep::None => None,
                Dep::Native { amount, refund } => Some(cw3::UncheckedDepositInfo { amount: Uint128::new(amount), denom: cw20::UncheckedDenom::Native(DENOM.into()), refund_failed_proposals: refund }),
                Dep::Cw20 { amount, refund } => Some(cw3::UncheckedDepositInfo { amount: Uint128::new(amount), denom: cw20::UncheckedDenom::Cw20(tok()), refund_failed_proposals: refund }),
            };
            let im = cw3_flex_multisig::msg::InstantiateMsg {
                group_addr: group(),
                threshold: to_threshold(&cfg.th),
                max_voting_period: period,
                executor: match cfg.executor {
                    Exec::Anyone => None,
                    Exec::Member => Some(cw3_flex_multisig::state::Executor::Member),
                    Exec::Only(e) => Some(cw3_flex_multisig::state::Executor::Only(cosmwasm_std::Addr::unchecked(cfg.addr(e)))),
                },
                proposal_deposit: dep,
            };
            let o = w.instantiate(vt_flex(), &ms(), &creator, &to_json_vec(&im).unwrap(), &[]);
            ok = o.ok();
            if ok && cfg.hooked {
                let h = w.execute_json(&cfg.addr(cfg.group_admin), &group(), &cw4_group::msg::ExecuteMsg::AddHook { addr: ms() }, &[]);
                if !h.ok() {
                    v.push(Violation::new("cfg.add_hook_refused", "group admin could not register the multisig as a hook".into()));
                }
            }
        } else {
            w.advance(1, DT);
            let im = cw3_fixed_multisig::msg::InstantiateMsg {
                voters: cfg.voters.iter().map(|(i, wg)| cw3_fixed_multisig::msg::Voter { addr: cfg.addr(*i), weight: *wg }).collect(),
                threshold: to_threshold(&cfg.th),
                max_voting_period: period,
            };
            let o = w.instantiate(vt_fixed(), &ms(), &creator, &to_json_vec(&im).unwrap(), &[]);
            ok = o.ok();
            if ok && dup && cfg.props.c06 {
                // a repeated address: the voter list and the total cannot both be right — checked on the
                // first proposal through total == sum(ListVoters); nothing to do here
            }
        }
        if !ok {
            r.dead = true;
            return (State { w, r, obs: Arc::new(Obs::default()) }, v);
        }
        r.group_now = voters_map.clone();
        r.group_start = voters_map;
        if cfg.props.c15 || !matches!(cfg.deposit, Dep::None) {
            for i in 0..cfg.actors.len() as u8 {
                w.set_balance(&cfg.addr(i), DENOM, cfg.purse);
                w.set_balance(&cfg.addr(i), DENOM2, 1);
                w.set_balance(&cfg.addr(i), &DENOM.to_uppercase(), 2);
            }
        }
        let obs = self.observe(&w);
        if cfg.props.c15 {
            r.bal = obs.bal.clone();
        }
        self.check_state(&w, &r, &obs, &mut v);
        (State { w, r, obs: Arc::new(obs) }, v)
    }

    fn actions(&self, s: &State) -> Vec<Act> {
        let cfg = &self.cfg;
        let mut out = vec![];
        if s.r.dead {
            return out;
        }
        let n = s.r.props.len();
        if n < cfg.max_props {
            for &by in &cfg.proposers {
                for &kind in &cfg.kinds {
                    for &latest in &cfg.latest {
                        for f in &cfg.funds {
                            out.push(Act::Propose { by, kind, latest, funds: f.clone() });
                        }
                    }
                }
            }
        }
        for id in 1..=n as u64 {
            for &by in &cfg.voters_acting {
                for &vote in &cfg.votes {
                    out.push(Act::Vote { by, id, vote });
                }
            }
            for &by in &cfg.executors {
                out.push(Act::Execute { by, id });
            }
            for &by in &cfg.closers {
                out.push(Act::Close { by, id });
            }
        }
        if s.w.height < H0 + 1 + cfg.blocks {
            out.push(Act::Advance);
        }
        let edit_ok = !cfg.edits_after_proposal || s.r.props.last().map(|p| p.created_h < s.w.height).unwrap_or(false);
        if s.r.edits < cfg.max_edits && edit_ok {
            for &by in &cfg.editors {
                for e in 0..cfg.edits.len() as u8 {
                    out.push(Act::GroupUpdate { by, edit: e });
                }
            }
        }
        if cfg.hooked && !s.r.props.is_empty() {
            out.push(Act::HookDirect { by: cfg.group_admin });
        }
        if cfg.hooked && cfg.hook_toggle {
            out.push(Act::GroupHook { add: false });
            out.push(Act::GroupHook { add: true });
        }
        if s.r.funded < cfg.max_fund {
            out.push(Act::Fund);
        }
        if cfg.max_faults > 0 {
            let on = s.w.failing.contains(&sink());
            if on {
                out.push(Act::SinkFail { on: false });
            } else if s.r.faults < cfg.max_faults {
                out.push(Act::SinkFail { on: true });
            }
        }
        for &by in &cfg.proposers {
            for &amt in &cfg.allow_amts {
                if s.r.allowed + amt <= cfg.max_allow {
                    out.push(Act::IncAllow { by, amt });
                }
            }
        }
        out
    }

    fn step(&self, s: &State, a: &Act) -> Step<State> {
        let cfg = &self.cfg;
        let mut v = vec![];
        let mut w = s.w.clone();
        let mut r = s.r.clone();
        let pre = &*s.obs;
        let (h, t) = now(&s.w);
        let lbl = label(a);
        let msa = ms();
        let mut ok = true;
        let mut out_tx: Option<mc::TxOut> = None;
        match a {
            Act::Advance => {
                w.advance_nanos(1, cfg.tick_ns);
                r.group_start = r.group_now.clone();
                r.changed_this_block = false;
            }
            Act::SinkFail { on } => {
                if *on {
                    w.failing.insert(sink());
                    r.faults += 1;
                } else {
                    w.failing.remove(&sink());
                }
            }
            Act::Fund => {
                let b = w.balance(&msa, DENOM);
                w.set_balance(&msa, DENOM, b + 1);
                r.funded += 1;
                if cfg.props.c15 {
                    *r.bal.entry((MS, 0)).or_insert(0) += 1;
                }
            }
            Act::GroupUpdate { edit, .. } if cfg.stake_group => {
                // every member named moves its own stake to the weight named (a removal = unbond everything)
                let e = &cfg.edits[*edit as usize];
                let targets: Vec<(u8, u64)> = e.add.iter().copied().chain(e.remove.iter().map(|i| (*i, 0))).collect();
                ok = true;
                for (i, want) in targets {
                    let cur = r.group_now.get(&i).copied().unwrap_or(0);
                    let o = if want > cur {
                        w.set_balance(&cfg.addr(i), STAKE_DENOM, 1_000);
                        w.execute_json(&cfg.addr(i), &group(), &cw4_stake::msg::ExecuteMsg::Bond {}, &[coin((want - cur) as u128, STAKE_DENOM)])
                    } else if want < cur {
                        w.execute_json(&cfg.addr(i), &group(), &cw4_stake::msg::ExecuteMsg::Unbond { tokens: Uint128::new((cur - want) as u128) }, &[])
                    } else {
                        continue;
                    };
                    if !o.ok() {
                        v.push(Violation::new("cfg.stake_move_refused", format!("{a:?}: {}", o.err())));
                        ok = false;
                        break;
                    }
                    if want == 0 {
                        r.group_now.remove(&i);
                    } else {
                        r.group_now.insert(i, want);
                    }
                }
                if ok {
                    r.changed_this_block = true;
                    r.edits += 1;
                }
            }
            Act::GroupUpdate { by, edit } => {
                let e = &cfg.edits[*edit as usize];
                let m = cw4_group::msg::ExecuteMsg::UpdateMembers {
                    remove: e.remove.iter().map(|i| cfg.addr(*i)).collect(),
                    add: e.add.iter().map(|(i, wg)| cw4::Member { addr: cfg.addr(*i), weight: *wg }).collect(),
                };
                let o = w.execute_json(&cfg.addr(*by), &group(), &m, &[]);
                ok = o.ok();
                if ok {
                    if *by != cfg.group_admin {
                        v.push(Violation::new("group_update_by_non_admin_accepted", format!("{a:?}")));
                    }
                    for (i, wg) in &e.add {
                        r.group_now.insert(*i, *wg);
                    }
                    for i in &e.remove {
                        r.group_now.remove(i);
                    }
                    r.changed_this_block = true;
                    r.edits += 1;
                }
            }
            Act::GroupHook { add } => {
                let m = if *add { cw4_group::msg::ExecuteMsg::AddHook { addr: msa.clone() } } else { cw4_group::msg::ExecuteMsg::RemoveHook { addr: msa.clone() } };
                let o = w.execute_json(&cfg.addr(cfg.group_admin), &group(), &m, &[]);
                ok = o.ok();
            }
            Act::HookDirect { by } => {
                // claims that every snapshot voter lost its weight
                let diffs: Vec<cw4::MemberDiff> = r.group_start.iter().map(|(i, wg)| cw4::MemberDiff::new(cfg.addr(*i), Some(*wg), None)).collect();
                let m = cw3_flex_multisig::msg::ExecuteMsg::MemberChangedHook(cw4::MemberChangedHookMsg { diffs });
                let o = w.execute_json(&cfg.addr(*by), &msa, &m, &[]);
                ok = o.ok();
            }
            Act::IncAllow { by, amt } => {
                let m = cw20::Cw20ExecuteMsg::IncreaseAllowance { spender: msa.clone(), amount: Uint128::new(*amt as u128), expires: None };
                let o = w.execute_json(&cfg.addr(*by), &tok(), &m, &[]);
                ok = o.ok();
                if ok {
                    r.allowed += *amt;
                }
            }
            Act::Propose { by, kind, latest, funds } => {
                let pid = r.props.len() as u64 + 1;
                let coins: Vec<Coin> = funds.iter().map(|(d, am)| coin(*am as u128, denom_of(*d))).collect();
                let title = format!("p{pid}");
                let msgs = self.msgs_of(*kind, pid);
                let lat = self.latest_of(*latest, h, t);
                let o = if cfg.flex {
                    w.execute_json(&cfg.addr(*by), &msa, &cw3_flex_multisig::msg::ExecuteMsg::Propose { title, description: "d".into(), msgs, latest: lat }, &coins)
                } else {
                    w.execute_json(&cfg.addr(*by), &msa, &cw3_fixed_multisig::msg::ExecuteMsg::Propose { title, description: "d".into(), msgs, latest: lat }, &coins)
                };
                ok = o.ok();
                out_tx = Some(o);
            }
            Act::Vote { by, id, vote } => {
                let o = w.execute_json(&cfg.addr(*by), &msa, &cw3_fixed_multisig::msg::ExecuteMsg::Vote { proposal_id: *id, vote: vote.to() }, &[]);
                ok = o.ok();
                out_tx = Some(o);
            }
            Act::Execute { by, id } => {
                let o = w.execute_json(&cfg.addr(*by), &msa, &cw3_fixed_multisig::msg::ExecuteMsg::Execute { proposal_id: *id }, &[]);
                ok = o.ok();
                out_tx = Some(o);
            }
            Act::Close { by, id } => {
                let o = w.execute_json(&cfg.addr(*by), &msa, &cw3_fixed_multisig::msg::ExecuteMsg::Close { proposal_id: *id }, &[]);
                ok = o.ok();
                out_tx = Some(o);
            }
        }
        if !ok && std::env::var_os("MC_TRACE").is_some() {
            eprintln!("MC_TRACE {a:?} refused: {}", out_tx.as_ref().map(|o| o.err()).unwrap_or_default());
        }
        // a refused call leaves the world untouched (kernel commit rule, checked by fingerprint): its
        // observation is the previous one
        let unchanged = !ok && fp128(&w) == fp128(&s.w);
        let obs = if unchanged { (*s.obs).clone() } else { self.observe(&w) };

        // ---------------------------------------------------------------- deliveries seen by the kernel
        // tagged messages delivered to the sink in this transaction (committed ones only), per proposal
        let mut delivered: BTreeMap<u64, Vec<u32>> = BTreeMap::new();
        let mut nested_exec: BTreeSet<u64> = BTreeSet::new();
        if let Some(o) = &out_tx {
            for d in o.committed() {
                match &d.msg {
                    CosmosMsg::Wasm(WasmMsg::Execute { contract_addr, msg, .. }) if *contract_addr == sink() => {
                        if let Ok(val) = serde_json::from_slice::<serde_json::Value>(msg.as_slice()) {
                            if let (Some(p), Some(i)) = (val["tag"][0].as_u64(), val["tag"][1].as_u64()) {
                                delivered.entry(p).or_default().push(i as u32);
                            }
                        }
                    }
                    CosmosMsg::Wasm(WasmMsg::Execute { contract_addr, msg, .. }) if *contract_addr == msa => {
                        if let Ok(cw3_fixed_multisig::msg::ExecuteMsg::Execute { proposal_id }) = cosmwasm_std::from_json(msg) {
                            nested_exec.insert(proposal_id);
                        }
                    }
                    _ => {}
                }
            }
        }

        if !ok {
            if obs != *pre && !matches!(a, Act::Advance | Act::SinkFail { .. } | Act::Fund) {
                v.push(Violation::new("failed_call_changed_state", format!("{a:?}")));
            }
            if cfg.props.c03 && cfg.exec_iff {
                if let Act::Execute { id, .. } = a {
                    if let Some(po) = pre.props.iter().find(|p| p.id == *id) {
                        let (passes, _, _, _) = self.implied(po, h, t);
                        let executed = r.props[(*id - 1) as usize].executed;
                        let d3_over = r.props[(*id - 1) as usize].same_block_change && po.tally().sum() > po.total as u128;
                        if passes && !executed && !d3_over && self.authorised(&r, match a { Act::Execute { by, .. } => Some(*by), _ => None }) {
                            v.push(Violation::new("C03.execute_admitted_when_passed", format!("{a:?} refused although the ballots imply Passed (tally {:?}, total {})", po.tally(), po.total)));
                        }
                    }
                }
            }
            if cfg.props.c05 {
                if let Act::Execute { by, id } = a {
                    // retryable: a Passed proposal whose messages can be delivered must be executable by an authorised caller
                    if let Some(po) = pre.props.iter().find(|p| p.id == *id) {
                        let pr = &r.props[(*id - 1) as usize];
                        let deliverable = matches!(pr.kind, PK::Empty | PK::Tag1 | PK::Tag2 | PK::TagTwice | PK::Tag31) && !w.failing.contains(&sink());
                        if po.status == St::Passed && !pr.executed && deliverable && self.authorised(&r, Some(*by)) {
                            v.push(Violation::new("C05.passed_proposal_is_executable", format!("{a:?} refused: {}", out_tx.as_ref().map(|o| o.err()).unwrap_or_default())));
                        }
                    }
                }
            }
            if cfg.props.c06 && cfg.flex {
                if let Act::Vote { by, id, .. } = a {
                    // "membership changes made after the proposal was opened never alter its ballots, total or
                    // outcome": a voter of the proposal's own snapshot who has not voted yet is refused only because
                    // the group looks different now
                    if let Some(po) = pre.props.iter().find(|p| p.id == *id) {
                        let pr = &r.props[(*id - 1) as usize];
                        let sw = pr.snapshot.get(by).copied().unwrap_or(0);
                        let votable = matches!(po.status, St::Open | St::Passed | St::Rejected) && !pr.executed && !po.expires.expired(h, t);
                        let had = po.ballots.contains_key(&cfg.addr(*by));
                        let group_changed_since = r.group_now != pr.snapshot && !pr.same_block_change;
                        if votable && !had && sw >= 1 && group_changed_since {
                            v.push(Violation::new(
                                "C06.later_group_change_does_not_bar_snapshot_voter",
                                format!("{a:?} refused ({}): snapshot weight {sw}, group now {:?}", out_tx.as_ref().map(|o| o.err()).unwrap_or_default(), r.group_now),
                            ));
                        }
                    }
                }
            }
            return Step { next: State { w, r, obs: s.obs.clone() }, label: lbl, ok, violations: v };
        }

        // ---------------------------------------------------------------- accepted call: step the reference
        match a {
            Act::Propose { by, kind, funds, .. } => {
                let total_now: u128 = r.group_now.values().map(|x| *x as u128).sum();
                let pr = PRef {
                    proposer: *by,
                    kind: *kind,
                    created_h: h,
                    created_t: t,
                    snapshot: r.group_start.clone(),
                    snap_total: r.group_start.values().map(|x| *x as u128).sum(),
                    same_block_change: r.changed_this_block,
                    cur_total_at_propose: total_now,
                    cur_proposer_weight: r.group_now.get(by).copied(),
                    executed: false,
                    dispatched: 0,
                    fixed: obs.props.last().map(|p| p.fixed).unwrap_or(0),
                    returned: 0,
                    taken: !matches!(cfg.deposit, Dep::None),
                };
                if obs.props.len() != pre.props.len() + 1 {
                    v.push(Violation::new("C05.propose_creates_one_proposal", format!("{} proposals before, {} after", pre.props.len(), obs.props.len())));
                }
                r.props.push(pr);
                if cfg.props.c15 {
                    // funds attached always travel with the call
                    for (d, am) in funds {
                        *r.bal.entry((*by, *d)).or_insert(0) -= *am as u128;
                        *r.bal.entry((MS, *d)).or_insert(0) += *am as u128;
                    }
                    match cfg.deposit {
                        Dep::Native { amount, .. } => {
                            // coins of amount zero carry nothing: what must be attached is exactly the deposit
                            let paid: Vec<&(u8, u8)> = funds.iter().filter(|f| f.1 > 0).collect();
                            let exact = paid.len() == 1 && paid[0].0 == 0 && paid[0].1 as u128 == amount;
                            if !exact {
                                v.push(Violation::new("C15.propose_requires_exact_native_deposit", format!("{a:?} accepted, required exactly {amount}{DENOM}")));
                            }
                        }
                        Dep::Cw20 { amount, .. } => {
                            *r.bal.entry((*by, 2)).or_insert(0) = r.bal.get(&(*by, 2)).copied().unwrap_or(0).wrapping_sub(amount);
                            *r.bal.entry((MS, 2)).or_insert(0) += amount;
                        }
                        Dep::None => {}
                    }
                }
            }
            Act::Vote { by, id, vote } => {
                if let Some(po) = pre.props.iter().find(|p| p.id == *id) {
                    let pr = &r.props[(*id - 1) as usize];
                    if cfg.props.c06 {
                        let expired = po.expires.expired(h, t);
                        let sw = pr.snapshot.get(by).copied().unwrap_or(0);
                        let had = po.ballots.contains_key(&cfg.addr(*by));
                        if expired || pr.executed || had || sw < 1 {
                            v.push(Violation::tagged(
                                "C06.vote_admitted_only_if_eligible",
                                format!("{a:?} accepted: expired={expired} executed={} already_voted={had} snapshot_weight={sw}", pr.executed),
                                self.d3_tags(pr, po),
                            ));
                        }
                    }
                    if cfg.props.c06 || cfg.props.c03 {
                        // earlier ballots never change, the new one is exactly this vote
                        if let Some(npo) = obs.props.iter().find(|p| p.id == *id) {
                            for (k, b) in &po.ballots {
                                if npo.ballots.get(k) != Some(b) {
                                    v.push(Violation::new("C06.recorded_ballots_never_change", format!("proposal {id}: ballot of {k} changed {:?} -> {:?}", b, npo.ballots.get(k))));
                                }
                            }
                            match npo.ballots.get(&cfg.addr(*by)) {
                                Some((vv, _)) if vv == vote => {}
                                other => v.push(Violation::new("C06.vote_recorded_as_cast", format!("{a:?}: recorded {:?}", other))),
                            }
                            if !po.ballots.contains_key(&cfg.addr(*by)) && npo.ballots.len() != po.ballots.len() + 1 {
                                v.push(Violation::new("C06.one_new_ballot_per_vote", format!("{a:?}: {} ballots before, {} after", po.ballots.len(), npo.ballots.len())));
                            }
                        }
                    }
                }
            }
            Act::Execute { by, id } => {
                if let Some(po) = pre.props.iter().find(|p| p.id == *id) {
                    let (passes, _, _, tally) = self.implied(po, h, t);
                    let pr = r.props[(*id - 1) as usize].clone();
                    let skip_d3 = pr.same_block_change && tally.sum() > po.total as u128;
                    if cfg.props.c03 && !skip_d3 && (!passes || pr.executed) {
                        let tags = if tally.y == 0 { vec!["zero_yes".to_string()] } else { vec![] };
                        v.push(Violation::tagged("C03.execute_admitted_only_when_passed", format!("{a:?} accepted: threshold {:?} total {} tally {:?} executed {}", po.th, po.total, tally, pr.executed), tags));
                    }
                    if cfg.props.c05 {
                        if po.status != St::Passed {
                            v.push(Violation::new("C05.execute_only_while_passed", format!("{a:?} accepted while status was {:?}", po.status)));
                        }
                        if !self.authorised(&r, Some(*by)) {
                            v.push(Violation::new("C05.execute_only_by_authorised_executor", format!("{a:?} accepted, executor setting {:?}", cfg.executor)));
                        }
                    }
                    r.props[(*id - 1) as usize].executed = true;
                    if cfg.props.c15 {
                        if pr.returned > 0 && !matches!(cfg.deposit, Dep::None) {
                            v.push(Violation::new(
                                "C15.deposit_returned_at_most_once",
                                format!("{a:?} accepted for a proposal whose deposit had already been returned ({} time(s)): executing it returns the deposit again", pr.returned),
                            ));
                        }
                        if let Dep::Native { amount, .. } | Dep::Cw20 { amount, .. } = cfg.deposit {
                            let asset = if matches!(cfg.deposit, Dep::Native { .. }) { 0 } else { 2 };
                            *r.bal.entry((MS, asset)).or_insert(0) = r.bal.get(&(MS, asset)).copied().unwrap_or(0).wrapping_sub(amount);
                            *r.bal.entry((pr.proposer, asset)).or_insert(0) += amount;
                            r.props[(*id - 1) as usize].returned += 1;
                        }
                        if pr.kind == PK::Pay {
                            *r.bal.entry((MS, 0)).or_insert(0) = r.bal.get(&(MS, 0)).copied().unwrap_or(0).wrapping_sub(1);
                            *r.bal.entry((0, 0)).or_insert(0) += 1;
                        }
                        if pr.kind == PK::PayDeposit {
                            let x = self.pay_deposit_amount();
                            *r.bal.entry((MS, 0)).or_insert(0) = r.bal.get(&(MS, 0)).copied().unwrap_or(0).wrapping_sub(x);
                            *r.bal.entry((0, 0)).or_insert(0) += x;
                        }
                    }
                }
                // nested executions of other proposals (re-entrancy alphabets)
                for nid in &nested_exec {
                    if nid != id && (*nid as usize) <= r.props.len() {
                        let po = pre.props.iter().find(|p| p.id == *nid);
                        if cfg.props.c05 {
                            if let Some(po) = po {
                                if po.status != St::Passed {
                                    v.push(Violation::new("C05.execute_only_while_passed", format!("nested Execute of proposal {nid} accepted while status was {:?}", po.status)));
                                }
                            }
                            if !self.authorised(&r, None) {
                                v.push(Violation::new("C05.execute_only_by_authorised_executor", format!("nested Execute of proposal {nid} by the multisig itself accepted, executor setting {:?}", cfg.executor)));
                            }
                        }
                        r.props[(*nid - 1) as usize].executed = true;
                    }
                }
            }
            Act::Close { id, .. } => {
                if let Some(po) = pre.props.iter().find(|p| p.id == *id) {
                    let (passes, _, expired, tally) = self.implied(po, h, t);
                    let pr = r.props[(*id - 1) as usize].clone();
                    let skip_d3 = pr.same_block_change && tally.sum() > po.total as u128;
                    if (cfg.props.c03 || cfg.props.c05) && !skip_d3 && (!expired || passes || pr.executed) {
                        v.push(Violation::new(
                            if cfg.props.c03 { "C03.close_admitted_only_when_expired_unpassed" } else { "C05.close_only_expired_unpassed" },
                            format!("{a:?} accepted: expired={expired} ballots imply pass={passes} executed={} tally {:?}", pr.executed, tally),
                        ));
                    }
                    if cfg.props.c05 && (pr.dispatched > 0 || !delivered.is_empty()) {
                        v.push(Violation::new("C05.close_never_dispatches", format!("{a:?}: messages delivered {:?}, earlier dispatches {}", delivered, pr.dispatched)));
                    }
                }
            }
            _ => {}
        }

        // ---------------------------------------------------------------- C05: who got which messages
        if cfg.props.c05 {
            for (pid, tags) in &delivered {
                if *pid as usize > r.props.len() || *pid == 0 {
                    v.push(Violation::new("C05.dispatch_of_unknown_proposal", format!("{a:?}: tag for proposal {pid}")));
                    continue;
                }
                let legit_step = match a {
                    Act::Execute { id, .. } => id == pid || nested_exec.contains(pid),
                    _ => false,
                };
                if !legit_step {
                    v.push(Violation::new("C05.dispatch_only_inside_execute", format!("{a:?}: messages of proposal {pid} were dispatched")));
                }
                let pr = &mut r.props[(*pid - 1) as usize];
                let want: Vec<u32> = Cw3Model::tags_of(pr.kind);
                if *tags != want {
                    v.push(Violation::new("C05.dispatched_exactly_as_proposed", format!("{a:?}: proposal {pid} delivered message indices {:?}, proposed {:?}", tags, want)));
                }
                pr.dispatched = pr.dispatched.saturating_add(1);
                if pr.dispatched > 1 {
                    v.push(Violation::new("C05.dispatched_at_most_once", format!("{a:?}: messages of proposal {pid} dispatched {} times over the history", pr.dispatched)));
                }
            }
            if let (Act::Execute { id, .. }, Some(o)) = (a, &out_tx) {
                // what the multisig itself sent out in this call: exactly the proposed list, in order; the
                // only other message allowed is the return of the proposal's own deposit
                let pr = &r.props[(*id - 1) as usize];
                let want = self.msgs_of(pr.kind, *id);
                let sent: Vec<&CosmosMsg> = o.dispatched.iter().filter(|d| d.depth == 0 && d.sender == msa).map(|d| &d.msg).collect();
                let is_refund = |m: &CosmosMsg| -> bool {
                    match (cfg.deposit, m) {
                        (Dep::Native { amount, .. }, CosmosMsg::Bank(BankMsg::Send { to_address, amount: coins })) => {
                            *to_address == cfg.addr(pr.proposer) && coins.len() == 1 && coins[0].denom == DENOM && coins[0].amount.u128() == amount
                        }
                        (Dep::Cw20 { .. }, CosmosMsg::Wasm(WasmMsg::Execute { contract_addr, .. })) => *contract_addr == tok(),
                        _ => false,
                    }
                };
                let mut rest: Vec<&CosmosMsg> = vec![];
                let mut refunds = 0;
                for m in &sent {
                    if refunds == 0 && is_refund(m) && !want.contains(m) {
                        refunds += 1;
                    } else {
                        rest.push(m);
                    }
                }
                if rest.len() != want.len() || rest.iter().zip(want.iter()).any(|(x, y)| *x != y) {
                    v.push(Violation::new(
                        "C05.relays_exactly_the_proposed_messages",
                        format!("{a:?}: the multisig sent {} message(s) {:?}, the proposal holds {} {:?}", rest.len(), rest, want.len(), want),
                    ));
                }
                if Cw3Model::n_tags(pr.kind) > 0 && !delivered.contains_key(id) {
                    v.push(Violation::new("C05.execute_dispatches_the_messages", format!("{a:?} succeeded but none of its messages reached the receiver")));
                }
            }
            // status automaton, per proposal that existed before
            for po in &pre.props {
                if let Some(npo) = obs.props.iter().find(|p| p.id == po.id) {
                    let fine = match (po.status, npo.status) {
                        (St::Open, St::Open | St::Passed | St::Rejected) => true,
                        (St::Passed, St::Passed | St::Executed) => true,
                        (St::Rejected, St::Rejected) => true,
                        (St::Executed, St::Executed) => true,
                        _ => false,
                    };
                    if !fine {
                        v.push(Violation::new("C05.status_only_moves_forward", format!("{a:?}: proposal {} went {:?} -> {:?}", po.id, po.status, npo.status)));
                    }
                }
            }
            if !matches!(a, Act::Propose { .. }) && obs.props.len() != pre.props.len() {
                v.push(Violation::new("C05.proposal_count", format!("{a:?} changed the number of proposals {} -> {}", pre.props.len(), obs.props.len())));
            }
        }

        // ---------------------------------------------------------------- C15: refunds on Vote / Close are permitted, not mandated
        if cfg.props.c15 {
            if let Dep::Native { amount, refund } | Dep::Cw20 { amount, refund } = cfg.deposit {
                let asset = if matches!(cfg.deposit, Dep::Native { .. }) { 0 } else { 2 };
                let target: Option<u64> = match a {
                    Act::Close { id, .. } => Some(*id),
                    Act::Vote { id, .. } => {
                        // only the vote that makes the proposal fail may refund
                        let before = pre.props.iter().find(|p| p.id == *id).map(|p| p.status);
                        let after = obs.props.iter().find(|p| p.id == *id).map(|p| p.status);
                        if before == Some(St::Open) && after == Some(St::Rejected) {
                            Some(*id)
                        } else {
                            None
                        }
                    }
                    _ => None,
                };
                if let Some(id) = target {
                    let pr = r.props[(id - 1) as usize].clone();
                    if refund && pr.returned == 0 && obs.bal != r.bal {
                        // does "refund to the proposer" explain the real balances?
                        let mut alt = r.bal.clone();
                        *alt.entry((MS, asset)).or_insert(0) = alt.get(&(MS, asset)).copied().unwrap_or(0).wrapping_sub(amount);
                        *alt.entry((pr.proposer, asset)).or_insert(0) += amount;
                        if alt == obs.bal {
                            r.bal = alt;
                            r.props[(id - 1) as usize].returned += 1;
                        }
                    }
                }
            }
        }
        if std::env::var_os("MC_TRACE").is_some() {
            if let Some(inst) = w.contracts.get(&msa) {
                for (k, val) in inst.store.0.iter() {
                    if k.windows(9).any(|x| x == b"proposals") && !k.windows(14).any(|x| x == b"proposal_count") {
                        eprintln!("MC_TRACE raw {}", String::from_utf8_lossy(val));
                    }
                }
            }
            for po in &obs.props {
                eprintln!("MC_TRACE after {a:?}: proposal {} status {:?} th {:?} total {} tally {:?} expires {:?}", po.id, po.status, po.th, po.total, po.tally(), po.expires);
            }
        }
        self.check_state(&w, &r, &obs, &mut v);

        // ---------------------------------------------------------------- C15: recoverability of failed proposals' deposits
        if cfg.props.c15 && matches!(a, Act::Vote { .. } | Act::Advance | Act::Close { .. } | Act::Propose { .. }) {
            if let Dep::Native { refund: true, .. } | Dep::Cw20 { refund: true, .. } = cfg.deposit {
                let (nh, nt) = now(&w);
                for (pr, po) in r.props.iter().zip(obs.props.iter()) {
                    if pr.returned > 0 || pr.executed || !pr.taken {
                        continue;
                    }
                    let (passes, canp, expired, _) = self.implied(po, nh, nt);
                    let failed = (expired && !passes) || (!expired && !canp);
                    if failed && !self.recoverable(&w, pr, po.id) {
                        let mut tags = vec![];
                        if !expired || po.status == St::Rejected {
                            tags.push("voted_down_before_expiry".to_string());
                        }
                        v.push(Violation::tagged(
                            "C15.failed_proposal_deposit_is_recoverable",
                            format!("proposal {} failed (expired={expired}, status {:?}) with refunds enabled, but no sequence AdvanceBlock^k (k<=4) [Vote]? (Close|Execute) by any actor returns the deposit", po.id, po.status),
                            tags,
                        ));
                    }
                }
            }
        }
        Step { next: State { w, r, obs: Arc::new(obs) }, label: lbl, ok, violations: v }
    }

    fn fingerprint(&self, s: &State) -> u128 {
        fp128(&(&s.w, &s.r))
    }
}
