//! The scenarios: real contracts from /repo (plus the stubs) set up identically in both runtimes,
//! each with a small fixed action alphabet.
use crate::engine::{user, Act, Code, Pair, Scenario};
use crate::stubs::{self, receiver, replier};
use cosmwasm_std::{coins, to_json_binary, BankMsg, Coin, CosmosMsg, Empty, ReplyOn, Uint128};
use cw20::{Cw20Coin, Cw20ExecuteMsg, Cw20ReceiveMsg, Denom, UncheckedDenom};
use cw3::{UncheckedDepositInfo, Vote};
use cw4::Member;
use cw_multi_test::{Contract, ContractWrapper};
use cw_utils::{Duration, Threshold};
use mc::world::ContractVt;
use std::sync::OnceLock;

// ------------------------------------------------------------------ real contracts, both runtimes

macro_rules! real_vt {
    ($fname:ident, $name:expr, $m:path, $i:ty, $e:ty, $q:ty) => {
        pub fn $fname() -> &'static ContractVt {
            static VT: OnceLock<ContractVt> = OnceLock::new();
            VT.get_or_init(|| mc::contract_vt!($name, $m, $i, $e, $q))
        }
    };
}
real_vt!(group_vt, "cw4-group", cw4_group::contract, cw4_group::msg::InstantiateMsg, cw4_group::msg::ExecuteMsg, cw4_group::msg::QueryMsg);
real_vt!(flex_vt, "cw3-flex-multisig", cw3_flex_multisig::contract, cw3_flex_multisig::msg::InstantiateMsg, cw3_flex_multisig::msg::ExecuteMsg, cw3_flex_multisig::msg::QueryMsg);
real_vt!(cw20_vt, "cw20-base", cw20_base::contract, cw20_base::msg::InstantiateMsg, cw20_base::msg::ExecuteMsg, cw20_base::msg::QueryMsg);
real_vt!(stake_vt, "cw4-stake", cw4_stake::contract, cw4_stake::msg::InstantiateMsg, cw4_stake::msg::ExecuteMsg, cw4_stake::msg::QueryMsg);

fn group_mt() -> Box<dyn Contract<Empty>> {
    Box::new(ContractWrapper::new(
        cw4_group::contract::execute,
        cw4_group::contract::instantiate,
        cw4_group::contract::query,
    ))
}
fn flex_mt() -> Box<dyn Contract<Empty>> {
    Box::new(ContractWrapper::new(
        cw3_flex_multisig::contract::execute,
        cw3_flex_multisig::contract::instantiate,
        cw3_flex_multisig::contract::query,
    ))
}
fn cw20_mt() -> Box<dyn Contract<Empty>> {
    Box::new(ContractWrapper::new(
        cw20_base::contract::execute,
        cw20_base::contract::instantiate,
        cw20_base::contract::query,
    ))
}
fn stake_mt() -> Box<dyn Contract<Empty>> {
    Box::new(ContractWrapper::new(
        cw4_stake::contract::execute,
        cw4_stake::contract::instantiate,
        cw4_stake::contract::query,
    ))
}

fn setup_exec(p: &mut Pair, a: Act) {
    let (o, d) = p.step_both(&a);
    if let Some(d) = d {
        panic!("setup: runtimes disagree on {}: {d}", a.label());
    }
    if !o.ok {
        panic!("setup: {} failed in both runtimes: {}", a.label(), o.info);
    }
}

/// plain bank transfer in both runtimes (setup only)
fn fund(p: &mut Pair, from: &str, to: &str, c: Vec<Coin>) {
    use cw_multi_test::Executor;
    p.w.bank_send(from, to, &c).expect("setup: kernel bank send");
    p.app
        .send_tokens(
            cosmwasm_std::Addr::unchecked(from),
            cosmwasm_std::Addr::unchecked(to),
            &c,
        )
        .expect("setup: multi-test bank send");
    if let Some(d) = p.compare_state() {
        panic!("setup: states differ after funding: {d}");
    }
}

fn token(p: &mut Pair, code: &Code, owner: &str, balances: &[(&str, u128)]) -> String {
    p.instantiate(
        code,
        owner,
        &cw20_base::msg::InstantiateMsg {
            name: "Token".into(),
            symbol: "TOK".into(),
            decimals: 0,
            initial_balances: balances
                .iter()
                .map(|(a, n)| Cw20Coin {
                    address: a.to_string(),
                    amount: Uint128::new(*n),
                })
                .collect(),
            mint: None,
            marketing: None,
        },
        &[],
        "token",
    )
}

const UC: &str = "ucosm";

// ------------------------------------------------------------------ (a) cw3-flex + cw4-group, native deposit

fn build_flex_native() -> (Pair, Vec<Act>) {
    let mut p = Pair::new(&[
        ("owner", coins(5, UC)),
        ("v1", coins(3, UC)),
        ("v2", coins(3, UC)),
        ("v3", vec![]),
        ("outsider", coins(1, UC)),
        ("somebody", vec![]),
    ]);
    let (owner, v1, v2, v3, outsider, somebody) = (
        user("owner"),
        user("v1"),
        user("v2"),
        user("v3"),
        user("outsider"),
        user("somebody"),
    );
    let gcode = p.store(group_vt(), group_mt());
    let fcode = p.store(flex_vt(), flex_mt());
    let group = p.instantiate(
        &gcode,
        &owner,
        &cw4_group::msg::InstantiateMsg {
            admin: Some(owner.clone()),
            members: vec![
                Member { addr: v1.clone(), weight: 1 },
                Member { addr: v2.clone(), weight: 2 },
            ],
        },
        &[],
        "group",
    );
    let flex = p.instantiate(
        &fcode,
        &owner,
        &cw3_flex_multisig::msg::InstantiateMsg {
            group_addr: group.clone(),
            threshold: Threshold::AbsoluteCount { weight: 2 },
            max_voting_period: Duration::Height(3),
            executor: None,
            proposal_deposit: Some(UncheckedDepositInfo {
                amount: Uint128::new(1),
                denom: UncheckedDenom::Native(UC.into()),
                refund_failed_proposals: true,
            }),
        },
        &[],
        "flex",
    );
    // the multisig listens to membership changes (sub-message group -> flex on UpdateMembers)
    setup_exec(
        &mut p,
        Act::exec("add_hook", &owner, &group, &cw4_group::msg::ExecuteMsg::AddHook { addr: flex.clone() }, &[]),
    );
    fund(&mut p, &owner, &flex, coins(1, UC));
    use cw3_flex_multisig::msg::ExecuteMsg as F;
    let pay: Vec<CosmosMsg> = vec![BankMsg::Send {
        to_address: somebody.clone(),
        amount: coins(2, UC),
    }
    .into()];
    let propose = |label: &str, who: &str, funds: Vec<Coin>| {
        Act::exec(
            label,
            who,
            &flex,
            &F::Propose {
                title: "pay".into(),
                description: "pay somebody 2".into(),
                msgs: pay.clone(),
                latest: None,
            },
            &funds,
        )
    };
    let vote = |label: &str, who: &str, id: u64, v: Vote| {
        Act::exec(label, who, &flex, &F::Vote { proposal_id: id, vote: v }, &[])
    };
    let acts = vec![
        propose("propose(v1,deposit 1)", &v1, coins(1, UC)),
        propose("propose(v2,deposit 1)", &v2, coins(1, UC)),
        propose("propose(v1,wrong deposit 2)", &v1, coins(2, UC)),
        propose("propose(v1,no deposit)", &v1, vec![]),
        propose("propose(outsider,deposit 1)", &outsider, coins(1, UC)),
        vote("vote(v2,#1,yes)", &v2, 1, Vote::Yes),
        vote("vote(v2,#1,no)", &v2, 1, Vote::No),
        vote("vote(v1,#2,yes)", &v1, 2, Vote::Yes),
        vote("vote(v3,#1,yes)", &v3, 1, Vote::Yes),
        Act::exec("execute(v1,#1)", &v1, &flex, &F::Execute { proposal_id: 1 }, &[]),
        Act::exec("execute(outsider,#2)", &outsider, &flex, &F::Execute { proposal_id: 2 }, &[]),
        Act::exec("close(v1,#1)", &v1, &flex, &F::Close { proposal_id: 1 }, &[]),
        Act::exec("close(v2,#2)", &v2, &flex, &F::Close { proposal_id: 2 }, &[]),
        Act::exec(
            "update_members(owner,-v2,+v3:2)",
            &owner,
            &group,
            &cw4_group::msg::ExecuteMsg::UpdateMembers {
                remove: vec![v2.clone()],
                add: vec![Member { addr: v3.clone(), weight: 2 }],
            },
            &[],
        ),
        Act::exec(
            "update_members(v1 not admin)",
            &v1,
            &group,
            &cw4_group::msg::ExecuteMsg::UpdateMembers {
                remove: vec![v2.clone()],
                add: vec![],
            },
            &[],
        ),
        Act::Advance { blocks: 1, secs: 5 },
        Act::Advance { blocks: 3, secs: 15 },
    ];
    (p, acts)
}

// ------------------------------------------------------------------ (b) cw3-flex with a cw20 deposit

fn build_flex_cw20() -> (Pair, Vec<Act>) {
    let mut p = Pair::new(&[
        ("owner", vec![]),
        ("v1", vec![]),
        ("v2", vec![]),
        ("somebody", vec![]),
    ]);
    let (owner, v1, v2, somebody) = (user("owner"), user("v1"), user("v2"), user("somebody"));
    let tcode = p.store(cw20_vt(), cw20_mt());
    let gcode = p.store(group_vt(), group_mt());
    let fcode = p.store(flex_vt(), flex_mt());
    let tok = token(&mut p, &tcode, &owner, &[(&owner, 2), (&v1, 3), (&v2, 2)]);
    let group = p.instantiate(
        &gcode,
        &owner,
        &cw4_group::msg::InstantiateMsg {
            admin: Some(owner.clone()),
            members: vec![
                Member { addr: v1.clone(), weight: 1 },
                Member { addr: v2.clone(), weight: 2 },
            ],
        },
        &[],
        "group",
    );
    let flex = p.instantiate(
        &fcode,
        &owner,
        &cw3_flex_multisig::msg::InstantiateMsg {
            group_addr: group.clone(),
            threshold: Threshold::AbsoluteCount { weight: 2 },
            max_voting_period: Duration::Height(3),
            executor: None,
            proposal_deposit: Some(UncheckedDepositInfo {
                amount: Uint128::new(2),
                denom: UncheckedDenom::Cw20(tok.clone()),
                refund_failed_proposals: true,
            }),
        },
        &[],
        "flex",
    );
    setup_exec(
        &mut p,
        Act::exec(
            "fund_flex",
            &owner,
            &tok,
            &Cw20ExecuteMsg::Transfer { recipient: flex.clone(), amount: Uint128::new(2) },
            &[],
        ),
    );
    use cw3_flex_multisig::msg::ExecuteMsg as F;
    // the proposal pays 2 tokens out of the multisig: possible only while deposits are held
    let pay: Vec<CosmosMsg> = vec![cosmwasm_std::WasmMsg::Execute {
        contract_addr: tok.clone(),
        msg: to_json_binary(&Cw20ExecuteMsg::Transfer {
            recipient: somebody.clone(),
            amount: Uint128::new(2),
        })
        .unwrap(),
        funds: vec![],
    }
    .into()];
    let propose = |label: &str, who: &str| {
        Act::exec(
            label,
            who,
            &flex,
            &F::Propose {
                title: "pay".into(),
                description: "pay somebody 2 TOK".into(),
                msgs: pay.clone(),
                latest: None,
            },
            &[],
        )
    };
    let inc = |label: &str, who: &str, n: u128| {
        Act::exec(
            label,
            who,
            &tok,
            &Cw20ExecuteMsg::IncreaseAllowance { spender: flex.clone(), amount: Uint128::new(n), expires: None },
            &[],
        )
    };
    let acts = vec![
        inc("increase_allowance(v1->flex,2)", &v1, 2),
        inc("increase_allowance(v2->flex,2)", &v2, 2),
        Act::exec(
            "decrease_allowance(v1->flex,1)",
            &v1,
            &tok,
            &Cw20ExecuteMsg::DecreaseAllowance { spender: flex.clone(), amount: Uint128::new(1), expires: None },
            &[],
        ),
        propose("propose(v1)", &v1),
        propose("propose(v2)", &v2),
        Act::exec("vote(v2,#1,yes)", &v2, &flex, &F::Vote { proposal_id: 1, vote: Vote::Yes }, &[]),
        Act::exec("vote(v2,#1,no)", &v2, &flex, &F::Vote { proposal_id: 1, vote: Vote::No }, &[]),
        Act::exec("vote(v1,#2,yes)", &v1, &flex, &F::Vote { proposal_id: 2, vote: Vote::Yes }, &[]),
        Act::exec("execute(v1,#1)", &v1, &flex, &F::Execute { proposal_id: 1 }, &[]),
        Act::exec("execute(v2,#2)", &v2, &flex, &F::Execute { proposal_id: 2 }, &[]),
        Act::exec("close(v1,#1)", &v1, &flex, &F::Close { proposal_id: 1 }, &[]),
        Act::Advance { blocks: 1, secs: 5 },
        Act::Advance { blocks: 3, secs: 15 },
    ];
    (p, acts)
}

// ------------------------------------------------------------------ (c) cw4-stake

const US: &str = "ustake";

fn build_stake_native() -> (Pair, Vec<Act>) {
    let mut p = Pair::new(&[
        ("owner", vec![]),
        ("u1", vec![Coin::new(1u128, "other"), Coin::new(3u128, US)]),
        ("u2", coins(2, US)),
    ]);
    let (owner, u1, u2) = (user("owner"), user("u1"), user("u2"));
    let scode = p.store(stake_vt(), stake_mt());
    let rcode = p.store(&mc::stubs::RECORDER, stubs::recorder_mt());
    let hook = p.instantiate(&rcode, &owner, &serde_json::json!({}), &[], "hook-recorder");
    let stake = p.instantiate(
        &scode,
        &owner,
        &cw4_stake::msg::InstantiateMsg {
            denom: Denom::Native(US.into()),
            tokens_per_weight: Uint128::new(1),
            min_bond: Uint128::new(2),
            unbonding_period: Duration::Height(2),
            admin: Some(owner.clone()),
        },
        &[],
        "stake",
    );
    use cw4_stake::msg::ExecuteMsg as S;
    setup_exec(&mut p, Act::exec("add_hook", &owner, &stake, &S::AddHook { addr: hook.clone() }, &[]));
    let acts = vec![
        Act::exec("bond(u1,1)", &u1, &stake, &S::Bond {}, &coins(1, US)),
        Act::exec("bond(u1,2)", &u1, &stake, &S::Bond {}, &coins(2, US)),
        Act::exec("bond(u2,2)", &u2, &stake, &S::Bond {}, &coins(2, US)),
        Act::exec("bond(u1,wrong denom)", &u1, &stake, &S::Bond {}, &[Coin::new(1u128, "other")]),
        Act::exec("bond(u1,no funds)", &u1, &stake, &S::Bond {}, &[]),
        Act::exec("bond(u1,zero coin)", &u1, &stake, &S::Bond {}, &coins(0, US)),
        Act::exec("bond(u2,more than owned 3)", &u2, &stake, &S::Bond {}, &coins(3, US)),
        Act::exec("unbond(u1,1)", &u1, &stake, &S::Unbond { tokens: Uint128::new(1) }, &[]),
        Act::exec("unbond(u1,3)", &u1, &stake, &S::Unbond { tokens: Uint128::new(3) }, &[]),
        Act::exec("unbond(u2,2)", &u2, &stake, &S::Unbond { tokens: Uint128::new(2) }, &[]),
        Act::exec("claim(u1)", &u1, &stake, &S::Claim {}, &[]),
        Act::exec("claim(u2)", &u2, &stake, &S::Claim {}, &[]),
        Act::Advance { blocks: 1, secs: 5 },
        Act::Advance { blocks: 2, secs: 10 },
    ];
    (p, acts)
}

fn build_stake_cw20() -> (Pair, Vec<Act>) {
    let mut p = Pair::new(&[("owner", vec![]), ("u1", coins(1, US)), ("u2", vec![])]);
    let (owner, u1, u2) = (user("owner"), user("u1"), user("u2"));
    let tcode = p.store(cw20_vt(), cw20_mt());
    let scode = p.store(stake_vt(), stake_mt());
    let rcode = p.store(&mc::stubs::RECORDER, stubs::recorder_mt());
    let tok = token(&mut p, &tcode, &owner, &[(&u1, 3), (&u2, 2)]);
    let hook = p.instantiate(&rcode, &owner, &serde_json::json!({}), &[], "hook-recorder");
    let stake = p.instantiate(
        &scode,
        &owner,
        &cw4_stake::msg::InstantiateMsg {
            denom: Denom::Cw20(cosmwasm_std::Addr::unchecked(tok.clone())),
            tokens_per_weight: Uint128::new(1),
            min_bond: Uint128::new(2),
            unbonding_period: Duration::Height(2),
            admin: Some(owner.clone()),
        },
        &[],
        "stake",
    );
    use cw4_stake::msg::ExecuteMsg as S;
    setup_exec(&mut p, Act::exec("add_hook", &owner, &stake, &S::AddHook { addr: hook.clone() }, &[]));
    let bond_payload = to_json_binary(&cw4_stake::msg::ReceiveMsg::Bond {}).unwrap();
    let send = |label: &str, who: &str, n: u128, payload: cosmwasm_std::Binary| {
        Act::exec(
            label,
            who,
            &tok,
            &Cw20ExecuteMsg::Send { contract: stake.clone(), amount: Uint128::new(n), msg: payload },
            &[],
        )
    };
    let acts = vec![
        send("send_bond(u1,1)", &u1, 1, bond_payload.clone()),
        send("send_bond(u1,2)", &u1, 2, bond_payload.clone()),
        send("send_bond(u2,2)", &u2, 2, bond_payload.clone()),
        send("send_bond(u2,more than owned 3)", &u2, 3, bond_payload.clone()),
        send("send_badpayload(u1,1)", &u1, 1, cosmwasm_std::Binary::from(b"{\"nope\":{}}".to_vec())),
        Act::exec("bond_native(u1,1)", &u1, &stake, &S::Bond {}, &coins(1, US)),
        Act::exec(
            "receive_direct(u1 poses as token)",
            &u1,
            &stake,
            &S::Receive(Cw20ReceiveMsg { sender: u1.clone(), amount: Uint128::new(2), msg: bond_payload.clone() }),
            &[],
        ),
        Act::exec("unbond(u1,1)", &u1, &stake, &S::Unbond { tokens: Uint128::new(1) }, &[]),
        Act::exec("unbond(u1,3)", &u1, &stake, &S::Unbond { tokens: Uint128::new(3) }, &[]),
        Act::exec("unbond(u2,2)", &u2, &stake, &S::Unbond { tokens: Uint128::new(2) }, &[]),
        Act::exec("claim(u1)", &u1, &stake, &S::Claim {}, &[]),
        Act::exec("claim(u2)", &u2, &stake, &S::Claim {}, &[]),
        Act::Advance { blocks: 1, secs: 5 },
        Act::Advance { blocks: 2, secs: 10 },
    ];
    (p, acts)
}

// ------------------------------------------------------------------ (d) cw20 Send -> receiver

fn build_cw20_send() -> (Pair, Vec<Act>) {
    let mut p = Pair::new(&[("owner", vec![]), ("A", vec![]), ("B", vec![]), ("third", vec![]), ("nobody", vec![])]);
    let (owner, a, b, third, nobody) = (user("owner"), user("A"), user("B"), user("third"), user("nobody"));
    let tcode = p.store(cw20_vt(), cw20_mt());
    let rcode = p.store(stubs::receiver_vt(), stubs::receiver_mt());
    let reccode = p.store(&mc::stubs::RECORDER, stubs::recorder_mt());
    let tok = token(&mut p, &tcode, &owner, &[(&a, 3), (&b, 1)]);
    let recv = p.instantiate(&rcode, &owner, &receiver::InstantiateMsg { third: third.clone() }, &[], "receiver");
    let recorder = p.instantiate(&reccode, &owner, &serde_json::json!({}), &[], "recorder");
    let hook = |h: receiver::Hook| to_json_binary(&h).unwrap();
    let send = |label: &str, who: &str, to: &str, n: u128, payload: cosmwasm_std::Binary| {
        Act::exec(
            label,
            who,
            &tok,
            &Cw20ExecuteMsg::Send { contract: to.to_string(), amount: Uint128::new(n), msg: payload },
            &[],
        )
    };
    let send_from = |label: &str, n: u128, payload: cosmwasm_std::Binary| {
        Act::exec(
            label,
            &b,
            &tok,
            &Cw20ExecuteMsg::SendFrom { owner: a.clone(), contract: recv.clone(), amount: Uint128::new(n), msg: payload },
            &[],
        )
    };
    let acts = vec![
        send("send(A->receiver,1,accept)", &a, &recv, 1, hook(receiver::Hook::Accept {})),
        send("send(A->receiver,2,accept+data)", &a, &recv, 2, hook(receiver::Hook::AcceptData {})),
        send("send(A->receiver,1,reject)", &a, &recv, 1, hook(receiver::Hook::Reject {})),
        send("send(A->receiver,1,forward)", &a, &recv, 1, hook(receiver::Hook::Forward { extra: Uint128::zero() })),
        send("send(A->receiver,1,forward+1)", &a, &recv, 1, hook(receiver::Hook::Forward { extra: Uint128::new(1) })),
        send("send(A->receiver,0,accept)", &a, &recv, 0, hook(receiver::Hook::Accept {})),
        send("send(A->receiver,4 more than owned)", &a, &recv, 4, hook(receiver::Hook::Accept {})),
        send("send(A->no contract,1)", &a, &nobody, 1, hook(receiver::Hook::Accept {})),
        send("send(B->recorder,1)", &b, &recorder, 1, hook(receiver::Hook::Accept {})),
        Act::exec("transfer(A->B,1)", &a, &tok, &Cw20ExecuteMsg::Transfer { recipient: b.clone(), amount: Uint128::new(1) }, &[]),
        Act::exec(
            "increase_allowance(A->B,2)",
            &a,
            &tok,
            &Cw20ExecuteMsg::IncreaseAllowance { spender: b.clone(), amount: Uint128::new(2), expires: None },
            &[],
        ),
        send_from("send_from(B,A->receiver,1,accept)", 1, hook(receiver::Hook::Accept {})),
        send_from("send_from(B,A->receiver,1,reject)", 1, hook(receiver::Hook::Reject {})),
        Act::exec("burn(A,1)", &a, &tok, &Cw20ExecuteMsg::Burn { amount: Uint128::new(1) }, &[]),
    ];
    (p, acts)
}

// ------------------------------------------------------------------ (e) replier

const UR: &str = "urep";

fn sub(id: u64, reply_on: ReplyOn, target: replier::Target) -> replier::Sub {
    replier::Sub { id, reply_on, target }
}
fn plan(tag: &str, data: Option<&str>, subs: Vec<replier::Sub>) -> replier::Plan {
    replier::Plan { tag: tag.into(), data: data.map(|s| s.to_string()), subs, fail: false }
}
fn failing(tag: &str) -> replier::Plan {
    replier::Plan { tag: tag.into(), data: Some("never seen".into()), subs: vec![], fail: true }
}

fn ro_name(r: &ReplyOn) -> &'static str {
    match r {
        ReplyOn::Always => "always",
        ReplyOn::Error => "error",
        ReplyOn::Success => "success",
        ReplyOn::Never => "never",
    }
}

fn flag_name(f: u64) -> String {
    let mut v = vec![];
    if f & replier::F_DATA != 0 {
        v.push("data");
    }
    if f & replier::F_FAIL != 0 {
        v.push("fail");
    }
    if f & replier::F_EMIT != 0 {
        v.push("emit");
    }
    if f & replier::F_ECHO != 0 {
        v.push("echo");
    }
    if v.is_empty() {
        "plain".into()
    } else {
        v.join("+")
    }
}

/// nested plans (what the callee — this contract again, or the peer — does)
fn inner_plans() -> Vec<(&'static str, replier::Plan)> {
    use replier::Target as T;
    vec![
        ("data-only", plan("in1", Some("I1"), vec![])),
        ("bank-ok", plan("in2", Some("I2"), vec![sub(1, ReplyOn::Never, T::BankOk)])),
        (
            "bank-ok-then-fail",
            plan("in3", None, vec![sub(1, ReplyOn::Never, T::SinkFunds), sub(2, ReplyOn::Never, T::BankFail)]),
        ),
        (
            "handles-own-error",
            plan("in4", Some("I4"), vec![sub(3 | replier::F_DATA, ReplyOn::Always, T::BankFail)]),
        ),
        (
            "reply-fails",
            plan("in5", None, vec![sub(4 | replier::F_FAIL, ReplyOn::Success, T::BankOk)]),
        ),
        (
            "three-levels",
            plan(
                "in6",
                None,
                vec![sub(
                    5 | replier::F_DATA,
                    ReplyOn::Always,
                    T::SelfCall(Box::new(plan("in6b", Some("J"), vec![sub(6, ReplyOn::Never, T::BankOk)]))),
                )],
            ),
        ),
        ("fails", failing("in7")),
    ]
}

fn targets(full: bool) -> Vec<(String, replier::Target)> {
    use replier::Target as T;
    let mut t: Vec<(String, T)> = vec![
        ("bank_ok".into(), T::BankOk),
        ("bank_fail".into(), T::BankFail),
        ("bank_zero".into(), T::BankZero),
        ("bank_empty".into(), T::BankEmpty),
        ("burn".into(), T::Burn),
        ("sink".into(), T::Sink),
        ("sink_funds".into(), T::SinkFunds),
        ("missing".into(), T::Missing),
    ];
    for (n, p) in inner_plans() {
        t.push((format!("self:{n}"), T::SelfCall(Box::new(p.clone()))));
        if full || n == "bank-ok-then-fail" || n == "fails" || n == "data-only" {
            t.push((format!("peer:{n}"), T::Peer(Box::new(p))));
        }
    }
    t
}

/// multi-sub plans: data override order, interplay of handled/unhandled failures
fn multi_plans() -> Vec<(String, replier::Plan)> {
    use replier::Target as T;
    use replier::{F_DATA, F_EMIT};
    let i1 = || Box::new(inner_plans()[0].1.clone());
    vec![
        ("two replies set data".into(), plan("m1", Some("D"), vec![sub(1 | F_DATA, ReplyOn::Success, T::BankOk), sub(2 | F_DATA, ReplyOn::Success, T::Sink)])),
        ("reply data then silent never".into(), plan("m2", Some("D"), vec![sub(1 | F_DATA, ReplyOn::Success, T::BankOk), sub(2, ReplyOn::Never, T::Sink)])),
        ("error reply data then plain success reply".into(), plan("m3", Some("D"), vec![sub(1 | F_DATA, ReplyOn::Error, T::BankFail), sub(2, ReplyOn::Success, T::Sink)])),
        ("ok then unhandled failure".into(), plan("m4", Some("D"), vec![sub(1, ReplyOn::Never, T::SinkFunds), sub(2, ReplyOn::Never, T::BankFail)])),
        ("ok then failure handled on error".into(), plan("m4b", Some("D"), vec![sub(1, ReplyOn::Never, T::SinkFunds), sub(2, ReplyOn::Error, T::BankFail)])),
        ("reply emits, then nested with reply data".into(), plan("m5", None, vec![sub(1 | F_EMIT, ReplyOn::Always, T::BankOk), sub(2 | F_DATA, ReplyOn::Always, T::SelfCall(i1()))])),
        ("callee data is not propagated".into(), plan("m6", None, vec![sub(1, ReplyOn::Never, T::SelfCall(i1()))])),
        ("no subs no data".into(), plan("m7", None, vec![])),
        ("no subs data".into(), plan("m7b", Some("D"), vec![])),
        ("plain reply keeps execute data".into(), plan("m8", Some("D"), vec![sub(1, ReplyOn::Success, T::SelfCall(i1()))])),
        ("plain reply, no execute data".into(), plan("m9", None, vec![sub(1, ReplyOn::Success, T::SelfCall(i1()))])),
        ("execute fails".into(), failing("m10")),
        ("success reply not called on error".into(), plan("m11", Some("D"), vec![sub(1 | F_DATA, ReplyOn::Success, T::BankFail)])),
        ("three subs mixed".into(), plan("m12", None, vec![
            sub(1 | F_DATA, ReplyOn::Always, T::Peer(Box::new(failing("m12p")))),
            sub(2, ReplyOn::Error, T::Burn),
            sub(3 | F_DATA | F_EMIT, ReplyOn::Success, T::Peer(i1())),
        ])),
    ]
}

fn build_replier(mode: &'static str) -> (Pair, Vec<Act>) {
    let mut p = Pair::new(&[("owner", coins(10, UR)), ("driver", vec![]), ("missing", vec![])]);
    let (owner, driver, missing) = (user("owner"), user("driver"), user("missing"));
    let repcode = p.store(stubs::replier_vt(), stubs::replier_mt());
    let reccode = p.store(&mc::stubs::RECORDER, stubs::recorder_mt());
    let sink = p.instantiate(&reccode, &owner, &serde_json::json!({}), &[], "sink-recorder");
    let im = |peer: Option<String>| replier::InstantiateMsg {
        denom: UR.into(),
        sink: sink.clone(),
        peer,
        missing: missing.clone(),
    };
    let peer = p.instantiate(&repcode, &owner, &im(None), &coins(1, UR), "peer-replier");
    let rep = p.instantiate(&repcode, &owner, &im(Some(peer.clone())), &coins(2, UR), "replier");
    setup_exec(
        &mut p,
        Act::exec("set_peer", &owner, &peer, &replier::ExecuteMsg::SetPeer { peer: rep.clone() }, &[]),
    );
    let run = |label: String, pl: replier::Plan| Act::exec(&label, &driver, &rep, &replier::ExecuteMsg::Run(pl), &[]);
    let all_ro = [ReplyOn::Never, ReplyOn::Success, ReplyOn::Error, ReplyOn::Always];
    let mut acts = vec![];
    match mode {
        // every target x every reply_on x every reply behaviour, plus the multi-sub plans
        "full" => {
            for (tn, t) in targets(true) {
                for ro in &all_ro {
                    let flags: Vec<u64> = if *ro == ReplyOn::Never {
                        vec![0]
                    } else {
                        vec![0, replier::F_DATA, replier::F_FAIL, replier::F_EMIT | replier::F_DATA]
                    };
                    for f in flags {
                        acts.push(run(
                            format!("run[{tn} reply_on={} reply={}]", ro_name(ro), flag_name(f)),
                            plan("t", Some("D"), vec![sub(7 | f, ro.clone(), t.clone())]),
                        ));
                    }
                }
            }
            for (n, pl) in multi_plans() {
                acts.push(run(format!("run[multi: {n}]"), pl));
            }
        }
        // a smaller alphabet for deeper sequences (funds run out, logs grow)
        "deep" => {
            for (tn, t) in targets(false) {
                for (ro, f) in [
                    (ReplyOn::Never, 0),
                    (ReplyOn::Always, replier::F_DATA),
                    (ReplyOn::Error, 0),
                    (ReplyOn::Success, replier::F_EMIT),
                ] {
                    // keep the alphabet small: only some combinations per target
                    let keep = match (tn.as_str(), &ro) {
                        ("bank_ok", _) | ("self:bank-ok-then-fail", _) => true,
                        ("bank_fail", ReplyOn::Always) | ("bank_fail", ReplyOn::Never) => true,
                        ("sink_funds", ReplyOn::Success) => true,
                        ("peer:bank-ok-then-fail", ReplyOn::Error) => true,
                        ("self:three-levels", ReplyOn::Always) => true,
                        ("self:reply-fails", ReplyOn::Error) => true,
                        ("peer:data-only", ReplyOn::Success) => true,
                        _ => false,
                    };
                    if keep {
                        acts.push(run(
                            format!("run[{tn} reply_on={} reply={}]", ro_name(&ro), flag_name(f)),
                            plan("t", Some("D"), vec![sub(7 | f, ro.clone(), t.clone())]),
                        ));
                    }
                }
            }
            for (n, pl) in multi_plans().into_iter().filter(|(n, _)| n.starts_with("three subs") || n.starts_with("ok then")) {
                acts.push(run(format!("run[multi: {n}]"), pl));
            }
        }
        // what `reply` is handed as `data` of a successful sub-call, and echoing it upwards
        "reply-data" => {
            use replier::Target as T;
            let i1 = inner_plans()[0].1.clone();
            let i2 = inner_plans()[1].1.clone();
            let i4 = inner_plans()[3].1.clone();
            for (tn, t) in [
                ("bank_ok", T::BankOk),
                ("burn", T::Burn),
                ("sink", T::Sink),
                ("self:data-only", T::SelfCall(Box::new(i1.clone()))),
                ("peer:bank-ok", T::Peer(Box::new(i2))),
                ("self:handles-own-error", T::SelfCall(Box::new(i4))),
                (
                    "self:echoing-callee",
                    T::SelfCall(Box::new(plan(
                        "e2",
                        None,
                        vec![sub(9 | replier::F_ECHO, ReplyOn::Success, T::Peer(Box::new(i1.clone())))],
                    ))),
                ),
            ] {
                for ro in [ReplyOn::Success, ReplyOn::Always] {
                    acts.push(run(
                        format!("run[{tn} reply_on={} reply=echo]", ro_name(&ro)),
                        plan("t", Some("D"), vec![sub(8 | replier::F_ECHO, ro.clone(), t.clone())]),
                    ));
                }
            }
        }
        _ => unreachable!(),
    }
    (p, acts)
}

// ------------------------------------------------------------------ the list

pub fn scenarios(thorough: bool) -> Vec<Scenario> {
    let d = |q: usize, t: usize| if thorough { t } else { q };
    vec![
        Scenario {
            name: "a:cw3-flex+cw4-group,native-deposit".into(),
            about: "cw3-flex-multisig (threshold 2 of v1:1,v2:2; voting period 3 blocks; native deposit 1ucosm, refunded) backed by cw4-group with the multisig registered as group hook; proposals send 2ucosm from the multisig (which holds 1 + deposits, so execution may fail for lack of funds)".into(),
            depth: d(5, 6),
            build: Box::new(build_flex_native),
            notes: vec!["all bank recipients are valid bech32 addresses (multi-test does not validate BankMsg::Send recipients, the kernel and a real chain do)".into(), "no response of these contracts carries an empty attribute value on the explored paths (multi-test would refuse it, the kernel ignores attributes)".into()],
        },
        Scenario {
            name: "b:cw3-flex,cw20-deposit".into(),
            about: "cw3-flex-multisig with a cw20 deposit of 2 TOK on a real cw20-base: proposer raises an allowance, propose pulls the deposit with TransferFrom, execute/close refund it with Transfer; the proposal itself transfers 2 TOK out of the multisig (which holds 2 TOK + deposits, so a second execution fails for lack of funds)".into(),
            depth: d(5, 6),
            build: Box::new(build_flex_cw20),
            notes: vec!["all bank recipients are valid bech32 addresses (multi-test does not validate BankMsg::Send recipients, the kernel and a real chain do)".into(), "no response of these contracts carries an empty attribute value on the explored paths (multi-test would refuse it, the kernel ignores attributes)".into()],
        },
        Scenario {
            name: "c1:cw4-stake,native".into(),
            about: "cw4-stake over a native denom (min_bond 2, unbonding 2 blocks) with a recorder registered as membership hook: bond (right/wrong/no funds), unbond, claim, advance".into(),
            depth: d(5, 6),
            build: Box::new(build_stake_native),
            notes: vec!["all bank recipients are valid bech32 addresses (multi-test does not validate BankMsg::Send recipients, the kernel and a real chain do)".into(), "no response of these contracts carries an empty attribute value on the explored paths (multi-test would refuse it, the kernel ignores attributes)".into()],
        },
        Scenario {
            name: "c2:cw4-stake,cw20".into(),
            about: "cw4-stake over a cw20-base token: cw20 Send{Bond} -> Receive hook path (also with an invalid payload, which must revert the Send), unbond, claim (stake contract transfers cw20 back), advance".into(),
            depth: d(5, 5),
            build: Box::new(build_stake_cw20),
            notes: vec!["all bank recipients are valid bech32 addresses (multi-test does not validate BankMsg::Send recipients, the kernel and a real chain do)".into(), "no response of these contracts carries an empty attribute value on the explored paths (multi-test would refuse it, the kernel ignores attributes)".into()],
        },
        Scenario {
            name: "d:cw20-send->receiver".into(),
            about: "cw20-base Send/SendFrom to a receiver contract that accepts, returns data, rejects (whole tx reverts), or re-enters the token to forward the funds (with and without enough balance); Send to an address without contract; Send to a recorder".into(),
            depth: d(5, 5),
            build: Box::new(build_cw20_send),
            notes: vec!["all bank recipients are valid bech32 addresses (multi-test does not validate BankMsg::Send recipients, the kernel and a real chain do)".into(), "no response of these contracts carries an empty attribute value on the explored paths (multi-test would refuse it, the kernel ignores attributes)".into()],
        },
        Scenario {
            name: "e1:replier,full-alphabet".into(),
            about: "replier stub (one function set, run as kernel ContractVt and as multi-test ContractWrapper): every target (bank ok / bank fail / burn / execute recorder with and without funds / execute on missing contract / nested self and peer calls that succeed, fail after partial effects, handle their own errors, fail in reply, nest three levels) x reply_on never/success/error/always x reply behaviour (plain / sets data / fails / emits a further message and sets data), plus multi-sub plans for data override order".into(),
            depth: d(2, 2),
            build: Box::new(|| build_replier("full")),
            notes: vec!["the replier never sets SubMsg.payload (multi-test 2.0.0 always hands reply an empty payload; the kernel forwards it like wasmd 2.x)".into(), "the replier never returns data = Some(empty) (indistinguishable from None behind the protobuf wrapper)".into(), "reply does not look at Reply.result events / msg_responses / gas_used (not modelled by the kernel)".into()],
        },
        Scenario {
            name: "e2:replier,deep".into(),
            about: "replier stub with a reduced alphabet and longer sequences (the replier's 2 and the peer's 1 coins run out, so the same plan changes outcome along a trace)".into(),
            depth: d(4, 5),
            build: Box::new(|| build_replier("deep")),
            notes: vec!["the replier never sets SubMsg.payload (multi-test 2.0.0 always hands reply an empty payload; the kernel forwards it like wasmd 2.x)".into(), "the replier never returns data = Some(empty) (indistinguishable from None behind the protobuf wrapper)".into(), "reply does not look at Reply.result events / msg_responses / gas_used (not modelled by the kernel)".into()],
        },
        Scenario {
            name: "e3:replier,reply-data".into(),
            about: "what `reply` receives as `data` after a successful sub-call (recorded byte-for-byte in the replier's log: for WasmMsg::Execute it must be the protobuf MsgExecuteContractResponse wrapper around the callee's data, for bank messages nothing) and echoing it as the caller's own data; this scenario found the kernel handing over the unwrapped data (repaired in mc::world::dispatch_msg / wrap_execute_response)".into(),
            depth: d(2, 3),
            build: Box::new(|| build_replier("reply-data")),
            notes: vec!["the replier never sets SubMsg.payload (multi-test 2.0.0 always hands reply an empty payload; the kernel forwards it like wasmd 2.x)".into(), "the replier never returns data = Some(empty) (indistinguishable from None behind the protobuf wrapper)".into(), "reply does not look at Reply.result events / msg_responses / gas_used (not modelled by the kernel)".into()],
        },
    ]
}
