//! Differential engine: one `Pair` holds the kernel `World` and a `cw_multi_test::App` that were
//! set up identically; every action is applied to both and everything observable is compared.
//!
//! Enumeration is an exhaustive DFS over ALL action sequences of length <= depth (no state
//! de-duplication, no pruning). Prefixes are shared: before an action is tried the kernel world
//! (`World::clone`) and the complete multi-test state (its storage — the App keeps every piece of
//! mutable state of bank, wasm registry and contract stores in it — plus the block) are
//! snapshotted and restored afterwards, so each distinct sequence is executed exactly once in each
//! runtime. The tree is split by its first `split` actions into rayon tasks; each task builds a
//! fresh pair of runtimes and replays its prefix from scratch.
use cosmwasm_std::{
    Addr, Binary, BlockInfo, Coin, CosmosMsg, Empty, Timestamp, WasmMsg,
};
use cw_multi_test::{
    App, AppBuilder, BankKeeper, Contract, DistributionKeeper, Executor, FailingModule,
    GovFailingModule, IbcFailingModule, StakeKeeper, StargateFailingModule, WasmKeeper,
};
use mc::store::MemStore;
use mc::world::{ContractVt, World, CHAIN_ID};
use rayon::prelude::*;
use std::collections::BTreeMap;
use std::panic::{catch_unwind, AssertUnwindSafe};

/// snapshot of both runtimes: kernel world, the App's complete storage, the App's block
pub type Snap = (World, MemStore, BlockInfo);

pub type MtApp = App<
    BankKeeper,
    mc::world::KApi,
    MemStore,
    FailingModule<Empty, Empty, Empty>,
    WasmKeeper<Empty, Empty>,
    StakeKeeper,
    DistributionKeeper,
    IbcFailingModule,
    GovFailingModule,
    StargateFailingModule,
>;

/// One action of a scenario alphabet. Everything is concrete (addresses, bytes), so the same value
/// drives both runtimes.
#[derive(Clone, Debug)]
pub enum Act {
    Exec {
        label: String,
        sender: String,
        contract: String,
        msg: Vec<u8>,
        funds: Vec<Coin>,
    },
    Advance {
        blocks: u64,
        secs: u64,
    },
}

impl Act {
    pub fn exec<M: serde::Serialize>(
        label: &str,
        sender: &str,
        contract: &str,
        msg: &M,
        funds: &[Coin],
    ) -> Act {
        Act::Exec {
            label: label.to_string(),
            sender: sender.to_string(),
            contract: contract.to_string(),
            msg: cosmwasm_std::to_json_vec(msg).expect("serialize"),
            funds: funds.to_vec(),
        }
    }
    pub fn label(&self) -> String {
        match self {
            Act::Exec { label, .. } => label.clone(),
            Act::Advance { blocks, secs } => format!("advance(+{blocks} blocks,+{secs}s)"),
        }
    }
    /// coarse kind for the outcome histogram
    pub fn kind(&self) -> String {
        match self {
            Act::Exec { label, .. } => label
                .split(|c: char| c == '(' || c == ' ' || c == '#' || c == '[')
                .next()
                .unwrap_or("")
                .to_string(),
            Act::Advance { .. } => "advance".to_string(),
        }
    }
    pub fn describe(&self, names: &BTreeMap<String, String>) -> serde_json::Value {
        let nm = |a: &String| names.get(a).cloned().unwrap_or_else(|| a.clone());
        match self {
            Act::Exec {
                label,
                sender,
                contract,
                msg,
                funds,
            } => serde_json::json!({
                "action": label,
                "sender": nm(sender),
                "contract": nm(contract),
                "msg": String::from_utf8_lossy(msg),
                "funds": funds.iter().map(|c| format!("{}{}", c.amount, c.denom)).collect::<Vec<_>>(),
            }),
            Act::Advance { blocks, secs } => {
                serde_json::json!({"action": "advance", "blocks": blocks, "secs": secs})
            }
        }
    }
}

/// A code known to both runtimes.
pub struct Code {
    pub vt: &'static ContractVt,
    pub code_id: u64,
}

pub struct Pair {
    pub w: World,
    pub app: MtApp,
    /// every address whose bank balance is compared (users, recipients, contracts)
    pub accounts: Vec<String>,
    /// every contract whose raw storage is compared
    pub contracts: Vec<String>,
    /// address -> human name (for messages)
    pub names: BTreeMap<String, String>,
    /// number of full state comparisons performed (the others were memoised, see `step_both_memo`)
    pub full_compares: u64,
}

/// Outcome of one transaction in one runtime, reduced to what is compared.
#[derive(Clone, Debug, PartialEq, Eq)]
pub struct Outcome {
    pub ok: bool,
    pub data: Option<Vec<u8>>,
    /// not compared (error text / panic text), only printed
    pub info: String,
}

pub fn user(label: &str) -> String {
    mc::world::addr_cached(label)
}

impl Pair {
    /// Fresh pair with the same block, chain id and initial bank balances.
    pub fn new(balances: &[(&str, Vec<Coin>)]) -> Pair {
        let w0 = World::new();
        let block = BlockInfo {
            height: w0.height,
            time: Timestamp::from_seconds(w0.time_s),
            chain_id: CHAIN_ID.to_string(),
        };
        let mut w = w0;
        let mut accounts = vec![];
        let mut names = BTreeMap::new();
        let bal: Vec<(String, Vec<Coin>)> = balances
            .iter()
            .map(|(l, c)| (user(l), c.clone()))
            .collect();
        for ((l, _), (a, coins)) in balances.iter().zip(bal.iter()) {
            for c in coins {
                w.set_balance(a, &c.denom, c.amount.u128());
            }
            accounts.push(a.clone());
            names.insert(a.clone(), l.to_string());
        }
        let app: MtApp = AppBuilder::new()
            .with_api(mc::world::api())
            .with_storage(MemStore::new())
            .with_block(block)
            .build(|router, _api, storage| {
                for (a, coins) in &bal {
                    if !coins.is_empty() {
                        router
                            .bank
                            .init_balance(storage, &Addr::unchecked(a.clone()), coins.clone())
                            .unwrap();
                    }
                }
            });
        Pair {
            w,
            app,
            accounts,
            contracts: vec![],
            names,
            full_compares: 0,
        }
    }

    pub fn store(&mut self, vt: &'static ContractVt, mt: Box<dyn Contract<Empty>>) -> Code {
        let code_id = self.app.store_code(mt);
        Code { vt, code_id }
    }

    /// Instantiate in multi-test first (it chooses the address with its default generator from
    /// code id + instance count), then install the kernel instance at the very same address.
    /// Panics (machinery error) if either runtime refuses or the states differ afterwards.
    pub fn instantiate<M: serde::Serialize>(
        &mut self,
        code: &Code,
        sender: &str,
        msg: &M,
        funds: &[Coin],
        label: &str,
    ) -> String {
        let addr = self
            .app
            .instantiate_contract(
                code.code_id,
                Addr::unchecked(sender),
                msg,
                funds,
                label,
                None,
            )
            .unwrap_or_else(|e| panic!("setup: multi-test refused to instantiate {label}: {e:?}"));
        let bytes = cosmwasm_std::to_json_vec(msg).unwrap();
        let out = self
            .w
            .instantiate(code.vt, addr.as_str(), sender, &bytes, funds);
        if !out.ok() {
            panic!("setup: kernel refused to instantiate {label}: {}", out.err());
        }
        let a = addr.to_string();
        self.accounts.push(a.clone());
        self.contracts.push(a.clone());
        self.names.insert(a.clone(), label.to_string());
        if let Some(d) = self.compare_state() {
            panic!("setup: states differ after instantiating {label}: {d}");
        }
        a
    }

    pub fn name(&self, a: &str) -> String {
        self.names.get(a).cloned().unwrap_or_else(|| a.to_string())
    }

    // ------------------------------------------------------------------ stepping

    pub fn step_kernel(&mut self, act: &Act) -> Outcome {
        match act {
            Act::Exec {
                sender,
                contract,
                msg,
                funds,
                ..
            } => {
                let out = self.w.execute(sender, contract, msg, funds);
                match out.res {
                    Ok(d) => Outcome {
                        ok: true,
                        data: d.map(|b| b.to_vec()),
                        info: String::new(),
                    },
                    Err(e) => Outcome {
                        ok: false,
                        data: None,
                        info: e,
                    },
                }
            }
            Act::Advance { blocks, secs } => {
                self.w.advance(*blocks, *secs);
                Outcome {
                    ok: true,
                    data: None,
                    info: String::new(),
                }
            }
        }
    }

    pub fn step_mt(&mut self, act: &Act) -> Outcome {
        match act {
            Act::Exec {
                sender,
                contract,
                msg,
                funds,
                ..
            } => {
                let cmsg: CosmosMsg = WasmMsg::Execute {
                    contract_addr: contract.clone(),
                    msg: Binary::from(msg.clone()),
                    funds: funds.clone(),
                }
                .into();
                let app = &mut self.app;
                let r = catch_unwind(AssertUnwindSafe(|| {
                    app.execute(Addr::unchecked(sender.clone()), cmsg)
                }));
                match r {
                    Ok(Ok(resp)) => {
                        // the App returns the protobuf MsgExecuteContractResponse wrapper, exactly
                        // like `Executor::execute_contract` we strip ONE level of it
                        let data = match resp.data {
                            None => None,
                            Some(d) => match cw_utils::parse_execute_response_data(d.as_slice()) {
                                Ok(p) => p.data.map(|b| b.to_vec()),
                                Err(e) => {
                                    return Outcome {
                                        ok: true,
                                        data: Some(d.to_vec()),
                                        info: format!("unparsable execute response data: {e}"),
                                    }
                                }
                            },
                        };
                        Outcome {
                            ok: true,
                            data,
                            info: String::new(),
                        }
                    }
                    Ok(Err(e)) => Outcome {
                        ok: false,
                        data: None,
                        info: format!("{e:#}"),
                    },
                    Err(p) => Outcome {
                        ok: false,
                        data: None,
                        info: format!("panic: {}", mc::world::panic_msg(&p)),
                    },
                }
            }
            Act::Advance { blocks, secs } => {
                let (b, s) = (*blocks, *secs);
                self.app.update_block(|bi| {
                    bi.height += b;
                    bi.time = bi.time.plus_seconds(s);
                });
                Outcome {
                    ok: true,
                    data: None,
                    info: String::new(),
                }
            }
        }
    }

    // ------------------------------------------------------------------ comparison

    /// block, every bank balance of every known account, raw storage of every contract
    pub fn compare_state(&self) -> Option<String> {
        let b = self.app.block_info();
        if b.height != self.w.height
            || b.time != Timestamp::from_seconds(self.w.time_s)
            || b.chain_id != CHAIN_ID
        {
            return Some(format!(
                "block differs: kernel height={} time={}s chain={} / multi-test height={} time={} chain={}",
                self.w.height, self.w.time_s, CHAIN_ID, b.height, b.time, b.chain_id
            ));
        }
        for a in &self.accounts {
            let k = self.w.all_balances(a);
            let m = match self.app.wrap().query_all_balances(a.clone()) {
                Ok(m) => m,
                Err(e) => return Some(format!("multi-test balance query failed for {}: {e}", self.name(a))),
            };
            if k != m {
                return Some(format!(
                    "bank balance of {} differs: kernel={} multi-test={}",
                    self.name(a),
                    coins(&k),
                    coins(&m)
                ));
            }
        }
        for c in &self.contracts {
            let inst = match self.w.contracts.get(c) {
                Some(i) => i,
                None => return Some(format!("kernel has no contract {}", self.name(c))),
            };
            let dump = self.app.dump_wasm_raw(&Addr::unchecked(c.clone()));
            let kv = inst.store.kv();
            let same = kv.len() == dump.len()
                && kv
                    .iter()
                    .zip(dump.iter())
                    .all(|((k1, v1), (k2, v2))| k1 == k2 && v1 == v2);
            if !same {
                return Some(format!(
                    "raw storage of contract {} differs: {}",
                    self.name(c),
                    storage_diff(kv, &dump)
                ));
            }
        }
        None
    }

    /// apply to both, compare outcome and state
    pub fn step_both(&mut self, act: &Act) -> (Outcome, Option<String>) {
        self.step_both_memo(act, None)
    }

    /// As `step_both`. `parent` is the snapshot of both runtimes taken right before this step, at a
    /// point where they had been compared and found equal. If BOTH runtimes are bit-for-bit in
    /// that very state again after the step (the usual case for a refused transaction), every
    /// observation (balance queries, storage dumps are functions of that state) is the one already
    /// compared, so the state comparison is not repeated. Any incomplete rollback in either
    /// runtime makes its state differ from the snapshot and triggers the full comparison.
    pub fn step_both_memo(&mut self, act: &Act, parent: Option<&Snap>) -> (Outcome, Option<String>) {
        let k = self.step_kernel(act);
        let m = self.step_mt(act);
        if k.ok != m.ok {
            return (
                k.clone(),
                Some(format!(
                    "success/failure differs: kernel={} multi-test={}",
                    verdict(&k),
                    verdict(&m)
                )),
            );
        }
        if k.data != m.data {
            return (
                k.clone(),
                Some(format!(
                    "returned data differs: kernel={} multi-test={}{}",
                    show_data(&k.data),
                    show_data(&m.data),
                    if m.info.is_empty() { String::new() } else { format!(" ({})", m.info) }
                )),
            );
        }
        if let Some(s) = parent {
            if self.unchanged_since(s) {
                return (k, None);
            }
        }
        self.full_compares += 1;
        let d = self.compare_state();
        (k, d)
    }

    /// both runtimes are exactly in the snapshotted state
    fn unchanged_since(&self, s: &Snap) -> bool {
        let w = &self.w;
        let kernel_same = w.height == s.0.height
            && w.time_s == s.0.time_s
            && w.bank == s.0.bank
            && w.contracts.len() == s.0.contracts.len()
            && w
                .contracts
                .iter()
                .zip(s.0.contracts.iter())
                .all(|((a1, i1), (a2, i2))| {
                    a1 == a2 && (std::sync::Arc::ptr_eq(&i1.store.0, &i2.store.0) || i1.store == i2.store)
                });
        if !kernel_same {
            return false;
        }
        let st = self.app.storage();
        let mt_same = (std::sync::Arc::ptr_eq(&st.0, &s.1 .0) || *st == s.1) && self.app.block_info() == s.2;
        mt_same
    }

    fn snapshot(&self) -> Snap {
        (
            self.w.clone(),
            self.app.storage().clone(),
            self.app.block_info(),
        )
    }

    fn restore(&mut self, s: &Snap) {
        self.w = s.0.clone();
        *self.app.storage_mut() = s.1.clone();
        self.app.set_block(s.2.clone());
    }
}

fn verdict(o: &Outcome) -> String {
    if o.ok {
        "ok".to_string()
    } else {
        format!("FAILED [{}]", o.info)
    }
}

fn coins(c: &[Coin]) -> String {
    if c.is_empty() {
        return "[]".into();
    }
    c.iter()
        .map(|c| format!("{}{}", c.amount, c.denom))
        .collect::<Vec<_>>()
        .join(",")
}

pub fn show_data(d: &Option<Vec<u8>>) -> String {
    match d {
        None => "None".into(),
        Some(b) => format!("Some({:?})", String::from_utf8_lossy(b)),
    }
}

fn show_bytes(b: &[u8]) -> String {
    let s: String = b
        .iter()
        .map(|c| {
            if c.is_ascii_graphic() || *c == b' ' {
                (*c as char).to_string()
            } else {
                format!("\\x{c:02x}")
            }
        })
        .collect();
    s
}

fn storage_diff(k: &mc::store::Kv, m: &[(Vec<u8>, Vec<u8>)]) -> String {
    let mm: BTreeMap<&Vec<u8>, &Vec<u8>> = m.iter().map(|(a, b)| (a, b)).collect();
    let mut out = vec![];
    for (key, v) in k {
        match mm.get(key) {
            None => out.push(format!("key {:?} only in kernel (= {:?})", show_bytes(key), show_bytes(v))),
            Some(v2) if *v2 != v => out.push(format!(
                "key {:?}: kernel={:?} multi-test={:?}",
                show_bytes(key),
                show_bytes(v),
                show_bytes(v2)
            )),
            _ => {}
        }
    }
    for (key, v) in m {
        if !k.contains_key(key) {
            out.push(format!("key {:?} only in multi-test (= {:?})", show_bytes(key), show_bytes(v)));
        }
    }
    let n = out.len();
    out.truncate(4);
    format!("{} key(s) differ: {}", n, out.join("; "))
}

// ---------------------------------------------------------------------- scenarios & DFS

pub struct Scenario {
    pub name: String,
    pub about: String,
    pub depth: usize,
    /// builds a fresh pair and the (deterministic) alphabet
    pub build: Box<dyn Fn() -> (Pair, Vec<Act>) + Send + Sync>,
    /// restrictions / idiosyncrasies avoided, recorded in the evidence
    pub notes: Vec<String>,
}

#[derive(Clone, Debug)]
pub struct Disagreement {
    pub scenario: String,
    pub trace: Vec<usize>,
    pub step: usize,
    pub what: String,
    pub confirmed_on_fresh_runtimes: Option<bool>,
    pub actions: Vec<serde_json::Value>,
}

#[derive(Default, Clone)]
pub struct Stats {
    /// distinct action sequences (of every length 1..=depth); each is executed once per runtime
    pub traces: u64,
    /// steps executed in both runtimes and compared (incl. re-executed prefixes of parallel tasks)
    pub steps: u64,
    pub prefix_steps: u64,
    pub maximal_traces: u64,
    pub labels: BTreeMap<String, (u64, u64)>,
    pub data_some: u64,
    /// steps after which the complete state comparison ran (the rest left both runtimes bit-identical to the compared parent state)
    pub full_compares: u64,
}

impl Stats {
    fn merge(&mut self, o: &Stats) {
        self.traces += o.traces;
        self.steps += o.steps;
        self.prefix_steps += o.prefix_steps;
        self.maximal_traces += o.maximal_traces;
        self.data_some += o.data_some;
        self.full_compares += o.full_compares;
        for (l, (a, b)) in &o.labels {
            let e = self.labels.entry(l.clone()).or_insert((0, 0));
            e.0 += a;
            e.1 += b;
        }
    }
    fn count(&mut self, kinds: &[String], i: usize, o: &Outcome) {
        let e = self.labels.entry(kinds[i].clone()).or_insert((0, 0));
        if o.ok {
            e.0 += 1;
        } else {
            e.1 += 1;
        }
        if o.data.is_some() {
            self.data_some += 1;
        }
    }
}

struct Dfs<'a> {
    acts: &'a [Act],
    kinds: &'a [String],
    depth: usize,
    stats: Stats,
    trace: Vec<usize>,
}

impl<'a> Dfs<'a> {
    fn go(&mut self, p: &mut Pair) -> Result<(), (Vec<usize>, String)> {
        let here = self.trace.len();
        if here >= self.depth {
            return Ok(());
        }
        let snap = p.snapshot();
        for i in 0..self.acts.len() {
            self.trace.push(i);
            let (o, d) = p.step_both_memo(&self.acts[i], Some(&snap));
            self.stats.steps += 1;
            self.stats.traces += 1;
            if here + 1 == self.depth {
                self.stats.maximal_traces += 1;
            }
            self.stats.count(self.kinds, i, &o);
            if let Some(d) = d {
                return Err((self.trace.clone(), d));
            }
            self.go(p)?;
            self.trace.pop();
            p.restore(&snap);
        }
        Ok(())
    }
}

pub struct ScenarioResult {
    pub stats: Stats,
    pub alphabet: Vec<String>,
    pub disagreements: Vec<Disagreement>,
    pub wall_s: f64,
    pub sample: Vec<serde_json::Value>,
}

/// Replay one trace on brand-new runtimes (no snapshot/restore involved); returns the first
/// disagreement (step index, text) if any.
pub fn replay_fresh(sc: &Scenario, trace: &[usize]) -> Option<(usize, String)> {
    let (mut p, acts) = (sc.build)();
    for (k, i) in trace.iter().enumerate() {
        let (_, d) = p.step_both(&acts[*i]);
        if let Some(d) = d {
            return Some((k, d));
        }
    }
    None
}

pub fn run_scenario(sc: &Scenario) -> ScenarioResult {
    let t0 = std::time::Instant::now();
    let (p0, acts0) = (sc.build)();
    let n = acts0.len();
    let alphabet: Vec<String> = acts0.iter().map(|a| a.label()).collect();
    let kinds: Vec<String> = acts0.iter().map(|a| a.kind()).collect();
    let names = p0.names.clone();
    drop(p0);
    // split the tree into tasks by prefixes of length `split`
    let mut split = 0usize;
    let mut tasks = 1usize;
    while split < sc.depth.saturating_sub(1) && tasks < 512 && split < 2 {
        split += 1;
        tasks *= n;
    }
    let prefixes: Vec<Vec<usize>> = (0..tasks)
        .map(|mut t| {
            let mut v = vec![0usize; split];
            for k in (0..split).rev() {
                v[k] = t % n;
                t /= n;
            }
            v
        })
        .collect();
    let results: Vec<(Stats, Option<(Vec<usize>, String)>)> = prefixes
        .par_iter()
        .map(|pre| {
            let (mut p, acts) = (sc.build)();
            let mut stats = Stats::default();
            // replay the prefix; a prefix step is *owned* (counted as a trace) by the task whose
            // remaining prefix indices are all zero, so every sequence is counted exactly once
            for (k, i) in pre.iter().enumerate() {
                let (o, d) = p.step_both(&acts[*i]);
                stats.steps += 1;
                let owner = pre[k + 1..].iter().all(|x| *x == 0);
                if owner {
                    stats.traces += 1;
                    if k + 1 == sc.depth {
                        stats.maximal_traces += 1;
                    }
                    stats.count(&kinds, *i, &o);
                } else {
                    stats.prefix_steps += 1;
                }
                if let Some(d) = d {
                    return (stats, Some((pre[..=k].to_vec(), d)));
                }
            }
            let mut dfs = Dfs {
                acts: &acts,
                kinds: &kinds,
                depth: sc.depth,
                stats,
                trace: pre.clone(),
            };
            let r = dfs.go(&mut p);
            dfs.stats.full_compares = p.full_compares;
            (dfs.stats, r.err())
        })
        .collect();
    let mut stats = Stats::default();
    let mut dis: Vec<(Vec<usize>, String)> = vec![];
    for (s, d) in results {
        stats.merge(&s);
        if let Some(d) = d {
            dis.push(d);
        }
    }
    // shortest first, then lexicographic: deterministic
    dis.sort_by(|a, b| (a.0.len(), &a.0).cmp(&(b.0.len(), &b.0)));
    dis.dedup();
    let total = dis.len();
    let disagreements: Vec<Disagreement> = dis
        .into_iter()
        .take(3)
        .map(|(trace, what)| {
            let fresh = replay_fresh(sc, &trace);
            let confirmed = fresh.as_ref().map(|(k, _)| *k + 1 == trace.len()).unwrap_or(false);
            Disagreement {
                scenario: sc.name.clone(),
                step: trace.len(),
                what: if total > 3 { format!("{what} [{total} tasks disagreed in this scenario]") } else { what },
                confirmed_on_fresh_runtimes: Some(confirmed),
                actions: trace.iter().map(|i| acts0[*i].describe(&names)).collect(),
                trace,
            }
        })
        .collect();
    // one sample maximal trace (last action repeated) for the evidence
    let sample: Vec<serde_json::Value> = (0..sc.depth.min(4))
        .map(|k| acts0[(k * 7 + mc::report::seed() as usize) % n].describe(&names))
        .collect();
    ScenarioResult {
        stats,
        alphabet,
        disagreements,
        wall_s: t0.elapsed().as_secs_f64(),
        sample,
    }
}

/// Cross-check of the snapshot/restore device itself: every maximal trace of a reduced depth is
/// replayed on fresh runtimes (no restore) — returns (traces, steps, first disagreement).
pub fn fresh_crosscheck(sc: &Scenario, depth: usize) -> (u64, u64, Option<(Vec<usize>, String)>) {
    let (_, acts) = (sc.build)();
    let n = acts.len();
    let total = n.pow(depth as u32);
    let r: Vec<Option<(Vec<usize>, String)>> = (0..total)
        .into_par_iter()
        .map(|mut t| {
            let mut v = vec![0usize; depth];
            for k in (0..depth).rev() {
                v[k] = t % n;
                t /= n;
            }
            replay_fresh(sc, &v).map(|(k, d)| (v[..=k].to_vec(), d))
        })
        .collect();
    let first = r.into_iter().flatten().next();
    (total as u64, (total * depth) as u64, first)
}
