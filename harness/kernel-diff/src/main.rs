//! kernel-diff: conformance check binding the mc kernel (`mc::world`) to cw-multi-test 2.0.0 by
//! differential replay of exhaustively enumerated traces (DESIGN.md §4).
//!
//! `kernel-diff kernel-diff [--tier quick|thorough]` — exit 0: the two runtimes agreed on every
//! step of every enumerated trace; exit 2: first disagreement printed (never exit 1: a
//! disagreement is a machinery error, not a property verdict).
mod engine;
mod scenarios;
mod stubs;

use engine::{fresh_crosscheck, run_scenario, Scenario};
use mc::explore::RunStats;
use mc::Report;
use serde_json::json;

const COMPARED: &str = "after EVERY step of every trace: (1) success/failure of the transaction, (2) the transaction's returned `data` (kernel TxOut.res vs App response data with one MsgExecuteContractResponse protobuf wrapper stripped, as Executor::execute_contract does), (3) every bank balance (all denoms) of every user, recipient and contract address (kernel World.all_balances vs app.wrap().query_all_balances), (4) byte-for-byte the complete raw storage of every contract (kernel World.contracts[addr].store vs App::dump_wasm_raw(addr)), (5) block height/time/chain id. Also compared after every instantiate/setup call.";

const NOT_COMPARED: &str = "events, attributes and error strings (the kernel does not model them); gas; Reply.gas_used / Reply.result events / msg_responses; the protobuf wrapper of the top-level data";

fn main() {
    mc::world::silence_panics();
    // `kernel-diff [kernel-diff] [--tier quick|thorough]` (the wrapper passes the property id first)
    let argv: Vec<String> = std::env::args().skip(1).collect();
    let mut tier = std::env::var("VERIF_TIER").unwrap_or_else(|_| "quick".to_string());
    let mut i = 0;
    while i < argv.len() {
        match argv[i].as_str() {
            "kernel-diff" if i == 0 => i += 1,
            "--tier" if i + 1 < argv.len() => {
                tier = argv[i + 1].clone();
                i += 2;
            }
            other => {
                eprintln!("machinery error: unexpected argument '{other}'; usage: kernel-diff [kernel-diff] [--tier quick|thorough]");
                std::process::exit(2);
            }
        }
    }
    if tier != "quick" && tier != "thorough" {
        eprintln!("machinery error: unknown tier '{tier}'");
        std::process::exit(2);
    }
    let thorough = tier == "thorough";
    let code = match std::panic::catch_unwind(|| run(&tier, thorough)) {
        Ok(c) => c,
        Err(p) => {
            eprintln!("machinery error: kernel-diff panicked: {}", mc::world::panic_msg(&p));
            2
        }
    };
    std::process::exit(code);
}

fn run(tier: &str, thorough: bool) -> i32 {
    let only = std::env::var("KDIFF_ONLY").ok();
    let depth_override: Option<usize> = std::env::var("KDIFF_DEPTH").ok().and_then(|s| s.parse().ok());
    let mut scs: Vec<Scenario> = scenarios::scenarios(thorough);
    if let Some(o) = &only {
        scs.retain(|s| s.name.contains(o.as_str()));
    }
    if let Some(d) = depth_override {
        for s in scs.iter_mut() {
            s.depth = d;
        }
    }
    let mut rep = Report::new("kernel-diff", tier, "kernel-diff");
    let mut per = vec![];
    let mut all_dis = vec![];
    let (mut traces, mut steps, mut maximal) = (0u64, 0u64, 0u64);
    let (mut fx_traces, mut fx_steps) = (0u64, 0u64);
    let mut samples = vec![];
    for sc in &scs {
        let r = run_scenario(sc);
        // cross-check of the snapshot/restore device: all maximal traces of a reduced depth on
        // fresh runtimes (nothing restored, nothing shared)
        let fdepth = if sc.depth >= 4 { 3 } else { sc.depth.min(2) };
        let fdepth = if r.alphabet.len() > 100 { 1 } else { fdepth };
        let (ft, fs, fd) = if r.disagreements.is_empty() {
            fresh_crosscheck(sc, fdepth)
        } else {
            (0, 0, None)
        };
        fx_traces += ft;
        fx_steps += fs;
        traces += r.stats.traces;
        steps += r.stats.steps;
        maximal += r.stats.maximal_traces;
        println!(
            "kernel-diff scenario {:<40} depth={} alphabet={} traces={} (maximal {}) steps={} (+{} fresh-runtime steps) wall={:.1}s {}",
            sc.name,
            sc.depth,
            r.alphabet.len(),
            r.stats.traces,
            r.stats.maximal_traces,
            r.stats.steps,
            fs,
            r.wall_s,
            if r.disagreements.is_empty() && fd.is_none() { "agree" } else { "DISAGREE" }
        );
        let mut labels = std::collections::BTreeMap::new();
        for (l, v) in &r.stats.labels {
            labels.insert(format!("{}:{}", sc.name.split(':').next().unwrap_or(""), l), *v);
        }
        rep.runs.push(RunStats {
            config: sc.name.clone(),
            states: r.stats.traces,
            transitions: r.stats.steps,
            depth_completed: sc.depth,
            fixpoint: false,
            cap_hit: Some(format!("depth bound {}", sc.depth)),
            labels,
            found: vec![],
            known_hits: Default::default(),
            samples: vec![r.sample.clone()],
            wall_s: r.wall_s,
        });
        samples.push(json!({"scenario": sc.name, "trace": r.sample}));
        per.push(json!({
            "scenario": sc.name,
            "about": sc.about,
            "depth": sc.depth,
            "alphabet_size": r.alphabet.len(),
            "alphabet": if r.alphabet.len() <= 40 { json!(r.alphabet) } else { json!({"first_40": r.alphabet[..40].to_vec(), "note": "generated product alphabet, see about"}) },
            "traces_replayed": r.stats.traces,
            "maximal_traces": r.stats.maximal_traces,
            "steps_compared": r.stats.steps,
            "prefix_steps_reexecuted_by_parallel_tasks": r.stats.prefix_steps,
            "steps_returning_data": r.stats.data_some,
            "steps_with_full_state_comparison": r.stats.full_compares,
            "steps_where_both_runtimes_stayed_bit_identical_to_the_compared_parent_state": r.stats.steps.saturating_sub(r.stats.full_compares),
            "fresh_runtime_crosscheck": {"depth": fdepth, "traces": ft, "steps": fs},
            "restrictions": sc.notes,
            "agree": r.disagreements.is_empty() && fd.is_none(),
            "wall_s": (r.wall_s * 100.0).round() / 100.0,
        }));
        if let Some((t, d)) = fd {
            all_dis.push(engine::Disagreement {
                scenario: sc.name.clone(),
                step: t.len(),
                what: format!("(fresh-runtime cross-check, no snapshot/restore) {d}"),
                confirmed_on_fresh_runtimes: Some(true),
                actions: vec![],
                trace: t,
            });
        }
        all_dis.extend(r.disagreements);
    }
    rep.alphabet = "per scenario, see coverage.scenarios[*].alphabet; every sequence over the alphabet up to the scenario's depth is replayed (no sampling, no state de-duplication)".into();
    rep.oracle = format!("agreement of the mc kernel with cw-multi-test 2.0.0. Compared {COMPARED} Not compared: {NOT_COMPARED}.");
    rep.bounds = "all action sequences of length 1..=depth per scenario (DFS with shared prefixes: the kernel World is cloned and the App's whole storage + block are snapshotted/restored around every action, so every distinct sequence is executed exactly once per runtime; success/failure and data are compared after every step, the full state comparison is skipped only when both runtimes are bit-for-bit back in the parent state that was already compared — i.e. after correctly rolled back refusals; the tree is split over rayon tasks by its first two actions, each task on fresh runtimes); additionally every maximal trace of a reduced depth is replayed on fresh runtimes without any restore".into();
    rep.assumptions = vec![
        "cw-multi-test 2.0.0 is the reference for dispatch, sub-message/reply, rollback, data and bank semantics (it is the runtime the repository's own integration tests run on)".into(),
        "the App is built with MemStore storage (to snapshot it) and mc's KApi, which is cosmwasm_std::testing::MockApi plus a per-thread memo of its addr_validate answers (saves about 40% CPU; bank, wasm, router, contract wrappers are stock cw-multi-test 2.0.0)".into(),
        "contract addresses are identical in both runtimes: multi-test derives them (default generator: code id + instance count) and the kernel installs its instance at the same address; users are MockApi::addr_make addresses; block height/time/chain id (mc-chain) are set identically; both pass Env.transaction = Some(index 0)".into(),
        "multi-test idiosyncrasies deliberately NOT exercised (documented, restricted away): Reply.payload (multi-test 2.0.0 always passes an empty payload; the kernel forwards SubMsg.payload like wasmd 2.x) — the stubs never set a payload; bank sends to syntactically invalid addresses (multi-test does not validate the recipient, the kernel and a real chain do); responses with empty attribute values / keys starting with '_' / 1-letter event types (multi-test rejects them, the kernel does not look at attributes); data = Some(empty) (the protobuf wrapper makes it None at top level in multi-test); duplicate denoms inside one funds list".into(),
        "not covered: WasmMsg::Instantiate/Migrate/UpdateAdmin, staking/distribution/gov/ibc messages (no contract of the repository's cross-contract families emits them towards the kernel's dispatcher), gas limits, the IBC driver (cw-multi-test has no IBC entry points)".into(),
    ];
    if only.is_some() || depth_override.is_some() {
        // developer switches: the evidence must say that this was not the full check
        rep.extra.insert("restricted_run".into(), json!({"KDIFF_ONLY": only, "KDIFF_DEPTH": depth_override}));
        println!("kernel-diff: NOTE restricted developer run (KDIFF_ONLY / KDIFF_DEPTH set)");
    }
    rep.extra.insert("what_is_compared".into(), json!(COMPARED));
    rep.extra.insert("not_compared".into(), json!(NOT_COMPARED));
    rep.extra.insert("scenarios".into(), json!(per));
    rep.extra.insert("traces_replayed".into(), json!(traces));
    rep.extra.insert("maximal_traces".into(), json!(maximal));
    rep.extra.insert("steps_compared".into(), json!(steps));
    rep.extra.insert("fresh_runtime_crosscheck".into(), json!({"traces": fx_traces, "steps": fx_steps}));
    rep.extra.insert("kernel_traces_cross_validated".into(), json!(traces + fx_traces));
    rep.extra.insert("samples".into(), json!(samples));
    rep.extra.insert("reference_runtime".into(), json!("cw-multi-test 2.0.0"));
    rep.extra.insert(
        "disagreements".into(),
        json!(all_dis
            .iter()
            .map(|d| json!({
                "scenario": d.scenario, "step": d.step, "what": d.what,
                "confirmed_on_fresh_runtimes": d.confirmed_on_fresh_runtimes,
                "trace_indices": d.trace, "trace": d.actions,
            }))
            .collect::<Vec<_>>()),
    );
    rep.extra.insert(
        "verdict".into(),
        json!(if all_dis.is_empty() { "runtimes agree on every step of every enumerated trace" } else { "DISAGREEMENT (machinery error, exit 2)" }),
    );
    let n_dis = all_dis.len();
    let code = rep.finish();
    println!(
        "kernel-diff: {} scenarios, {} traces replayed ({} maximal), {} steps compared, {} further traces / {} steps on fresh runtimes",
        scs.len(),
        traces,
        maximal,
        steps,
        fx_traces,
        fx_steps
    );
    if n_dis == 0 {
        if code != 0 {
            return 2;
        }
        println!("kernel-diff: kernel and cw-multi-test agree on every step of every enumerated trace");
        return 0;
    }
    // the first (shortest) disagreement of every scenario in full, the others are in the evidence file
    let mut seen = std::collections::BTreeSet::new();
    for d in &all_dis {
        if !seen.insert(d.scenario.clone()) {
            continue;
        }
        eprintln!(
            "machinery error: KERNEL-DIFF DISAGREEMENT scenario={} step={} (reproduced on fresh runtimes: {})\n  what differed: {}\n  trace:",
            d.scenario,
            d.step,
            d.confirmed_on_fresh_runtimes.map(|b| if b { "yes" } else { "NO" }).unwrap_or("n/a"),
            d.what
        );
        for (i, a) in d.actions.iter().enumerate() {
            eprintln!("    {}. {}", i + 1, a);
        }
    }
    eprintln!("machinery error: kernel and cw-multi-test disagree ({} disagreement report(s), all listed in evidence/kernel-diff.json); the kernel is NOT validated", n_dis);
    2
}
