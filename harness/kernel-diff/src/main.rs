fn main() {
    eprintln!("kernel-diff: not built yet");
    std::process::exit(2);
}
