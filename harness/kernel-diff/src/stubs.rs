//! Stub contracts written once and run in BOTH runtimes: as a kernel `ContractVt` (through
//! `mc::contract_vt!`) and as a `cw_multi_test::ContractWrapper` over the very same functions.
use cosmwasm_std::{Empty};
use cw_multi_test::{Contract, ContractWrapper};
use mc::world::ContractVt;
use std::sync::OnceLock;

/// The "replier": its `execute` takes a JSON plan of sub-messages to emit, its `reply` records
/// `(id, ok|err)` and — steered by flag bits in the reply id — sets data, fails, emits a follow-up
/// message, or records + echoes the data it was handed.
pub mod replier {
    use cosmwasm_std::{
        coins, to_json_binary, BankMsg, Binary, CosmosMsg, Deps, DepsMut, Env, MessageInfo, Reply,
        ReplyOn, Response, StdError, StdResult, SubMsg, SubMsgResult, WasmMsg,
    };
    use serde::{Deserialize, Serialize};

    /// reply sets `data = "R<id>"`
    pub const F_DATA: u64 = 0x10;
    /// reply returns an error
    pub const F_FAIL: u64 = 0x20;
    /// reply emits one more sub-message (bank send of 1 coin to the sink, reply_on never)
    pub const F_EMIT: u64 = 0x40;
    /// reply records the data it received in its log and returns it as its own data
    pub const F_ECHO: u64 = 0x80;

    #[derive(Serialize, Deserialize, Clone, Debug, PartialEq)]
    #[serde(rename_all = "snake_case")]
    pub struct InstantiateMsg {
        pub denom: String,
        /// recipient of bank sends and target of `Target::Sink` (a recorder contract)
        pub sink: String,
        /// another replier instance (target of `Target::Peer`); may be set later with `SetPeer`
        pub peer: Option<String>,
        /// an address where no contract lives
        pub missing: String,
    }

    #[derive(Serialize, Deserialize, Clone, Debug, PartialEq)]
    #[serde(rename_all = "snake_case")]
    pub enum Target {
        /// bank send of 1 coin to the sink (succeeds while the replier has funds)
        BankOk,
        /// bank send of 1000 coins (fails for lack of funds)
        BankFail,
        /// bank send of a single zero coin (refused by the bank)
        BankZero,
        /// bank send with an empty coin list (refused by the bank)
        BankEmpty,
        /// burn 1 coin
        Burn,
        /// execute on the sink/recorder contract, no funds
        Sink,
        /// execute on the sink/recorder contract with 1 coin attached
        SinkFunds,
        /// execute on an address without contract
        Missing,
        /// execute this very contract with a nested plan
        SelfCall(Box<Plan>),
        /// execute the peer replier with a nested plan
        Peer(Box<Plan>),
    }

    #[derive(Serialize, Deserialize, Clone, Debug, PartialEq)]
    #[serde(rename_all = "snake_case")]
    pub struct Sub {
        pub id: u64,
        pub reply_on: ReplyOn,
        pub target: Target,
    }

    #[derive(Serialize, Deserialize, Clone, Debug, PartialEq, Default)]
    #[serde(rename_all = "snake_case")]
    pub struct Plan {
        /// written to storage by `execute` (so that a rolled back call is visible)
        pub tag: String,
        pub data: Option<String>,
        pub subs: Vec<Sub>,
        /// `execute` returns an error (after writing)
        pub fail: bool,
    }

    #[derive(Serialize, Deserialize, Clone, Debug, PartialEq)]
    #[serde(rename_all = "snake_case")]
    pub enum ExecuteMsg {
        Run(Plan),
        SetPeer { peer: String },
    }

    #[derive(Serialize, Deserialize, Clone, Debug, PartialEq)]
    #[serde(rename_all = "snake_case")]
    pub enum QueryMsg {
        Log {},
    }

    fn bump(deps: &mut DepsMut, key: &[u8]) -> u32 {
        let n = deps
            .storage
            .get(key)
            .map(|v| u32::from_be_bytes([v[0], v[1], v[2], v[3]]))
            .unwrap_or(0)
            + 1;
        deps.storage.set(key, &n.to_be_bytes());
        n
    }

    fn cfg(deps: Deps) -> StdResult<InstantiateMsg> {
        let raw = deps
            .storage
            .get(b"cfg")
            .ok_or_else(|| StdError::generic_err("no cfg"))?;
        cosmwasm_std::from_json(raw)
    }

    pub fn instantiate(
        deps: DepsMut,
        _env: Env,
        _info: MessageInfo,
        msg: InstantiateMsg,
    ) -> StdResult<Response> {
        deps.storage.set(b"cfg", &cosmwasm_std::to_json_vec(&msg)?);
        Ok(Response::new())
    }

    fn target_msg(c: &InstantiateMsg, env: &Env, t: &Target) -> StdResult<CosmosMsg> {
        Ok(match t {
            Target::BankOk => BankMsg::Send {
                to_address: c.sink.clone(),
                amount: coins(1, &c.denom),
            }
            .into(),
            Target::BankFail => BankMsg::Send {
                to_address: c.sink.clone(),
                amount: coins(1000, &c.denom),
            }
            .into(),
            Target::BankZero => BankMsg::Send {
                to_address: c.sink.clone(),
                amount: coins(0, &c.denom),
            }
            .into(),
            Target::BankEmpty => BankMsg::Send {
                to_address: c.sink.clone(),
                amount: vec![],
            }
            .into(),
            Target::Burn => BankMsg::Burn {
                amount: coins(1, &c.denom),
            }
            .into(),
            Target::Sink => WasmMsg::Execute {
                contract_addr: c.sink.clone(),
                msg: Binary::from(b"{}".to_vec()),
                funds: vec![],
            }
            .into(),
            Target::SinkFunds => WasmMsg::Execute {
                contract_addr: c.sink.clone(),
                msg: Binary::from(b"{}".to_vec()),
                funds: coins(1, &c.denom),
            }
            .into(),
            Target::Missing => WasmMsg::Execute {
                contract_addr: c.missing.clone(),
                msg: Binary::from(b"{}".to_vec()),
                funds: vec![],
            }
            .into(),
            Target::SelfCall(p) => WasmMsg::Execute {
                contract_addr: env.contract.address.to_string(),
                msg: to_json_binary(&ExecuteMsg::Run((**p).clone()))?,
                funds: vec![],
            }
            .into(),
            Target::Peer(p) => WasmMsg::Execute {
                contract_addr: c
                    .peer
                    .clone()
                    .ok_or_else(|| StdError::generic_err("no peer"))?,
                msg: to_json_binary(&ExecuteMsg::Run((**p).clone()))?,
                funds: vec![],
            }
            .into(),
        })
    }

    pub fn execute(
        mut deps: DepsMut,
        env: Env,
        _info: MessageInfo,
        msg: ExecuteMsg,
    ) -> StdResult<Response> {
        let mut c = cfg(deps.as_ref())?;
        let plan = match msg {
            ExecuteMsg::SetPeer { peer } => {
                c.peer = Some(peer);
                deps.storage.set(b"cfg", &cosmwasm_std::to_json_vec(&c)?);
                return Ok(Response::new());
            }
            ExecuteMsg::Run(p) => p,
        };
        let n = bump(&mut deps, b"nx");
        let mut key = b"x/".to_vec();
        key.extend_from_slice(&n.to_be_bytes());
        deps.storage.set(&key, format!("x:{}", plan.tag).as_bytes());
        if plan.fail {
            return Err(StdError::generic_err("replier: execute fails as planned"));
        }
        let mut resp = Response::new();
        if let Some(d) = &plan.data {
            resp = resp.set_data(Binary::from(d.as_bytes().to_vec()));
        }
        for s in &plan.subs {
            resp = resp.add_submessage(SubMsg {
                id: s.id,
                msg: target_msg(&c, &env, &s.target)?,
                gas_limit: None,
                reply_on: s.reply_on.clone(),
                payload: Binary::default(),
            });
        }
        Ok(resp)
    }

    pub fn reply(mut deps: DepsMut, _env: Env, msg: Reply) -> StdResult<Response> {
        let c = cfg(deps.as_ref())?;
        let n = bump(&mut deps, b"nr");
        let mut key = b"r/".to_vec();
        key.extend_from_slice(&n.to_be_bytes());
        #[allow(deprecated)]
        let (verdict, got): (&str, Option<Binary>) = match &msg.result {
            SubMsgResult::Ok(r) => ("ok", r.data.clone()),
            SubMsgResult::Err(_) => ("err", None),
        };
        let mut entry = format!("{}:{}", msg.id, verdict);
        if msg.id & F_ECHO != 0 {
            entry.push_str(&match &got {
                None => ":none".to_string(),
                Some(b) => format!(":{}", b.to_base64()),
            });
        }
        deps.storage.set(&key, entry.as_bytes());
        if msg.id & F_FAIL != 0 {
            return Err(StdError::generic_err("replier: reply fails as planned"));
        }
        let mut resp = Response::new();
        if msg.id & F_DATA != 0 {
            resp = resp.set_data(Binary::from(format!("R{}", msg.id).into_bytes()));
        }
        if msg.id & F_ECHO != 0 {
            if let Some(b) = got {
                if !b.is_empty() {
                    resp = resp.set_data(b);
                }
            }
        }
        if msg.id & F_EMIT != 0 {
            resp = resp.add_submessage(SubMsg {
                id: 0,
                msg: target_msg(&c, &_env, &Target::BankOk)?,
                gas_limit: None,
                reply_on: ReplyOn::Never,
                payload: Binary::default(),
            });
        }
        Ok(resp)
    }

    pub fn query(deps: Deps, _env: Env, _msg: QueryMsg) -> StdResult<Binary> {
        let log: Vec<String> = deps
            .storage
            .range(None, None, cosmwasm_std::Order::Ascending)
            .filter(|(k, _)| k.starts_with(b"r/") || k.starts_with(b"x/"))
            .map(|(_, v)| String::from_utf8_lossy(&v).to_string())
            .collect();
        to_json_binary(&log)
    }
}

pub fn replier_vt() -> &'static ContractVt {
    static VT: OnceLock<ContractVt> = OnceLock::new();
    VT.get_or_init(|| {
        let mut v = mc::contract_vt!(
            "stub-replier",
            crate::stubs::replier,
            crate::stubs::replier::InstantiateMsg,
            crate::stubs::replier::ExecuteMsg,
            crate::stubs::replier::QueryMsg
        );
        fn rep(
            d: cosmwasm_std::DepsMut,
            e: cosmwasm_std::Env,
            r: cosmwasm_std::Reply,
        ) -> Result<cosmwasm_std::Response, String> {
            replier::reply(d, e, r).map_err(|e| e.to_string())
        }
        v.reply = Some(rep);
        v
    })
}

pub fn replier_mt() -> Box<dyn Contract<Empty>> {
    Box::new(
        ContractWrapper::new(replier::execute, replier::instantiate, replier::query)
            .with_reply(replier::reply),
    )
}

/// cw20 receiver: reacts to `Receive(Cw20ReceiveMsg)` according to the embedded payload.
pub mod receiver {
    use cosmwasm_std::{
        to_json_binary, Binary, Deps, DepsMut, Env, MessageInfo, Response, StdError, StdResult,
        Uint128, WasmMsg,
    };
    use cw20::{Cw20ExecuteMsg, Cw20ReceiveMsg};
    use serde::{Deserialize, Serialize};

    #[derive(Serialize, Deserialize, Clone, Debug, PartialEq)]
    #[serde(rename_all = "snake_case")]
    pub struct InstantiateMsg {
        /// where `Forward` sends the tokens on
        pub third: String,
    }

    #[derive(Serialize, Deserialize, Clone, Debug, PartialEq)]
    #[serde(rename_all = "snake_case")]
    pub enum ExecuteMsg {
        Receive(Cw20ReceiveMsg),
    }

    /// payload inside `Cw20ReceiveMsg.msg`
    #[derive(Serialize, Deserialize, Clone, Debug, PartialEq)]
    #[serde(rename_all = "snake_case")]
    pub enum Hook {
        Accept {},
        Reject {},
        /// transfer `amount + extra` of the calling token on to `third` (re-enters the token)
        Forward { extra: Uint128 },
        /// accept and return data
        AcceptData {},
    }

    #[derive(Serialize, Deserialize, Clone, Debug, PartialEq)]
    #[serde(rename_all = "snake_case")]
    pub enum QueryMsg {
        Count {},
    }

    pub fn instantiate(
        deps: DepsMut,
        _env: Env,
        _info: MessageInfo,
        msg: InstantiateMsg,
    ) -> StdResult<Response> {
        deps.storage.set(b"third", msg.third.as_bytes());
        Ok(Response::new())
    }

    pub fn execute(
        deps: DepsMut,
        _env: Env,
        info: MessageInfo,
        msg: ExecuteMsg,
    ) -> StdResult<Response> {
        let ExecuteMsg::Receive(r) = msg;
        let hook: Hook = cosmwasm_std::from_json(&r.msg)?;
        let n = deps
            .storage
            .get(b"n")
            .map(|v| u32::from_be_bytes([v[0], v[1], v[2], v[3]]))
            .unwrap_or(0)
            + 1;
        deps.storage.set(b"n", &n.to_be_bytes());
        let mut key = b"got/".to_vec();
        key.extend_from_slice(&n.to_be_bytes());
        deps.storage.set(
            &key,
            format!("{}|{}|{}", info.sender, r.sender, r.amount).as_bytes(),
        );
        match hook {
            Hook::Accept {} => Ok(Response::new().add_attribute("action", "accept")),
            Hook::AcceptData {} => Ok(Response::new().set_data(Binary::from(b"received".to_vec()))),
            Hook::Reject {} => Err(StdError::generic_err("receiver rejects")),
            Hook::Forward { extra } => {
                let third = String::from_utf8(deps.storage.get(b"third").unwrap_or_default())
                    .map_err(|_| StdError::generic_err("utf8"))?;
                Ok(Response::new().add_message(WasmMsg::Execute {
                    contract_addr: info.sender.to_string(),
                    msg: to_json_binary(&Cw20ExecuteMsg::Transfer {
                        recipient: third,
                        amount: r.amount + extra,
                    })?,
                    funds: vec![],
                }))
            }
        }
    }

    pub fn query(deps: Deps, _env: Env, _msg: QueryMsg) -> StdResult<Binary> {
        let n = deps
            .storage
            .get(b"n")
            .map(|v| u32::from_be_bytes([v[0], v[1], v[2], v[3]]))
            .unwrap_or(0);
        to_json_binary(&n)
    }
}

pub fn receiver_vt() -> &'static ContractVt {
    static VT: OnceLock<ContractVt> = OnceLock::new();
    VT.get_or_init(|| {
        mc::contract_vt!(
            "stub-receiver",
            crate::stubs::receiver,
            crate::stubs::receiver::InstantiateMsg,
            crate::stubs::receiver::ExecuteMsg,
            crate::stubs::receiver::QueryMsg
        )
    })
}

pub fn receiver_mt() -> Box<dyn Contract<Empty>> {
    Box::new(ContractWrapper::new(
        receiver::execute,
        receiver::instantiate,
        receiver::query,
    ))
}

/// Adapter: run any kernel `ContractVt` (here: mc's built-in recorder/sink stubs) under
/// cw-multi-test, so that both runtimes execute the same functions.
pub struct VtContract(pub &'static ContractVt);

impl Contract<Empty> for VtContract {
    fn execute(
        &self,
        deps: cosmwasm_std::DepsMut,
        env: cosmwasm_std::Env,
        info: cosmwasm_std::MessageInfo,
        msg: Vec<u8>,
    ) -> cw_multi_test::error::AnyResult<cosmwasm_std::Response> {
        (self.0.execute)(deps, env, info, &msg).map_err(|e| cw_multi_test::error::anyhow!(e))
    }
    fn instantiate(
        &self,
        deps: cosmwasm_std::DepsMut,
        env: cosmwasm_std::Env,
        info: cosmwasm_std::MessageInfo,
        msg: Vec<u8>,
    ) -> cw_multi_test::error::AnyResult<cosmwasm_std::Response> {
        (self.0.instantiate)(deps, env, info, &msg).map_err(|e| cw_multi_test::error::anyhow!(e))
    }
    fn query(
        &self,
        deps: cosmwasm_std::Deps,
        env: cosmwasm_std::Env,
        msg: Vec<u8>,
    ) -> cw_multi_test::error::AnyResult<cosmwasm_std::Binary> {
        (self.0.query)(deps, env, &msg).map_err(|e| cw_multi_test::error::anyhow!(e))
    }
    fn sudo(
        &self,
        _deps: cosmwasm_std::DepsMut,
        _env: cosmwasm_std::Env,
        _msg: Vec<u8>,
    ) -> cw_multi_test::error::AnyResult<cosmwasm_std::Response> {
        Err(cw_multi_test::error::anyhow!("sudo not implemented"))
    }
    fn reply(
        &self,
        deps: cosmwasm_std::DepsMut,
        env: cosmwasm_std::Env,
        msg: cosmwasm_std::Reply,
    ) -> cw_multi_test::error::AnyResult<cosmwasm_std::Response> {
        match self.0.reply {
            Some(f) => f(deps, env, msg).map_err(|e| cw_multi_test::error::anyhow!(e)),
            None => Err(cw_multi_test::error::anyhow!("reply not implemented")),
        }
    }
    fn migrate(
        &self,
        _deps: cosmwasm_std::DepsMut,
        _env: cosmwasm_std::Env,
        _msg: Vec<u8>,
    ) -> cw_multi_test::error::AnyResult<cosmwasm_std::Response> {
        Err(cw_multi_test::error::anyhow!("migrate not implemented"))
    }
}

pub fn recorder_mt() -> Box<dyn Contract<Empty>> {
    Box::new(VtContract(&mc::stubs::RECORDER))
}
