fn main() {
    eprintln!("fam-cw1: not built yet");
    std::process::exit(2);
}
