mod model;
use mc::report::{load_replay, run_replay};
use mc::{Bounds, Known, Report, RunStats};
use model::*;

const MAX: u128 = u128::MAX;

// actor indices of the default actor set A1 A2 S1 S2 X
const A1: u8 = 0;
const A2: u8 = 1;
const S1: u8 = 2;
const S2: u8 = 3;
const X: u8 = 4;

fn send(c: &[(u8, u128)]) -> M {
    M::Send(c.iter().map(|(d, a)| (*d, Amt(*a))).collect())
}

/// C07's message kinds: every bank-send shape, burn, staking, distribution, wasm, ibc, gov, stargate (+2 in thorough)
fn c07_kinds(thorough: bool) -> Vec<M> {
    let mut k = vec![
        send(&[(0, 1)]),
        send(&[(0, 1), (1, 1)]),
        send(&[(0, 1), (0, 1)]),
        send(&[(0, 0)]),
        send(&[]),
        // two coins of two granted denominations, one of them above anything that can be left
        send(&[(0, 1), (1, 3)]),
        M::SendSelf(vec![(0, Amt(1))]),
        M::Burn(vec![(0, Amt(1))]),
        M::Delegate,
        M::Undelegate,
        M::Redelegate,
        M::SetWithdraw,
        M::Withdraw,
        M::WasmExec,
        M::IbcTransfer,
        M::GovVote,
        M::Stargate,
    ];
    if thorough {
        k.push(M::WasmInst);
        k.push(M::Custom);
    }
    k
}

/// the empty list, every single kind, every ordered pair of kinds
fn lists_of(kinds: &[M]) -> Vec<Vec<M>> {
    let mut l = vec![vec![]];
    for a in kinds {
        l.push(vec![a.clone()]);
    }
    for a in kinds {
        for b in kinds {
            l.push(vec![a.clone(), b.clone()]);
        }
    }
    l
}

/// C16's single messages: sends below / equal / above the allowance, second denomination, both,
/// repeated denomination, zero, empty; and every other kind
fn c16_msgs(thorough: bool) -> Vec<M> {
    let mut m = vec![
        send(&[(0, 1)]),
        send(&[(0, 2)]),
        send(&[(0, 3)]),
        send(&[(1, 1)]),
        send(&[(0, 1), (1, 1)]),
        send(&[(0, 1), (0, 1)]),
        send(&[(0, 2), (0, 1)]),
        send(&[(0, 1), (0, 2)]),
        M::SendSelf(vec![(0, Amt(1))]),
        M::SendSelf(vec![(0, Amt(3))]),
        send(&[(0, 0)]),
        send(&[(1, 0)]),
        send(&[]),
        M::Burn(vec![(0, Amt(1))]),
        M::Burn(vec![]),
        M::Delegate,
        M::Undelegate,
        M::Redelegate,
        M::SetWithdraw,
        M::Withdraw,
        M::WasmExec,
        M::WasmInst,
        M::IbcTransfer,
        M::GovVote,
        M::Stargate,
        M::Custom,
        // recipients that are not normalized addresses (the proxy relays, it does not judge the recipient)
        M::SendTo(0, vec![(0, Amt(1))]),
        M::SendTo(1, vec![(0, Amt(1))]),
        M::SendTo(2, vec![(0, Amt(1))]),
        // the chain-level handles of the proxy itself and of another contract
        M::WasmMigrate { own: true },
        M::WasmMigrate { own: false },
        M::WasmUpdateAdmin { own: true },
        M::WasmUpdateAdmin { own: false },
        M::WasmClearAdmin { own: true },
        // WasmMsg::Execute whose target is the proxy itself (relayed, not dispatched, here)
        M::SelfCall(Inner::Freeze),
        M::SelfCall(Inner::UpdateAdmins(vec![0])),
        M::SelfCall(Inner::Exec(vec![])),
    ];
    if thorough {
        m.extend([
            send(&[(1, 2)]),
            send(&[(0, 2), (1, 2)]),
            send(&[(1, 1), (0, 1)]),
            send(&[(0, 1), (1, 0)]),
            send(&[(0, 0), (0, 0)]),
            send(&[(0, 1), (0, 1), (0, 1)]),
            send(&[(0, MAX)]),
            send(&[(0, MAX), (0, 1)]),
        ]);
    }
    m
}

fn tg(spender: u8, denoms: &[u8], cap: Option<u128>) -> GrantTarget {
    GrantTarget {
        spender,
        denoms: denoms.to_vec(),
        cap,
    }
}

/// (configuration, depth bound) pairs for a property and tier
fn configs(prop: &str, thorough: bool) -> Vec<(Cfg, Option<usize>)> {
    let mut out: Vec<(Cfg, Option<usize>)> = vec![];
    let all16: Vec<u8> = (0..16).collect();
    match prop {
        "C07" => {
            let lists = lists_of(&c07_kinds(thorough));
            {
                // whitelist: every admin list incl. the empty one, frozen and not
                // the proxy's own address is a caller class too (the sender of a nested relay): an admin only where listed
                let mut c = Cfg::base("C07/whitelist/admin-sets", "C07", Kind::Whitelist);
                // plus senders whose address is a prefix / an extension of A1's, or the bare bech32 prefix
                c.actors = vec!["A1", "A2", "X", "proxy", "pre:A1", "ext:A1", "hrp"];
                c.init_admins = vec![0, 1];
                c.admin_callers = vec![0, 1, 2];
                // incl. lists that repeat an address: as long as / longer than the list they replace
                c.admin_lists = vec![vec![0], vec![0, 1], vec![1], vec![], vec![0, 3], vec![0, 0], vec![1, 1], vec![0, 0, 1]];
                c.freeze_callers = vec![0, 2];
                c.exec_callers = vec![0, 1, 2, 3, 4, 5, 6];
                c.exec_lists = lists.clone();
                c.exec_funds = vec![vec![], vec![(0, Amt(1))]];
                c.exec_funded_max_len = 2;
                out.push((c, None));
            }
            {
                // subkeys: S1 lives on an allowance (two denominations, expiring), S2 on permission flags,
                // A2 is an admin that gets removed (and may keep a small allowance of its own)
                let mut c = Cfg::base("C07/subkeys/allowance+permissions", "C07", Kind::Subkeys);
                c.hmax = H0 + 2;
                c.admin_callers = vec![A1, A2, X];
                c.admin_lists = vec![vec![A1], vec![A1, A2]];
                c.freeze_callers = if thorough { vec![A1, X] } else { vec![] };
                // grant calls also by the subkey naming itself and by a stranger, with every expiry kind
                c.grant_callers = vec![A1, S1, X];
                // (quick: the admin-with-an-allowance role is played by S1 in the one-subkey configuration)
                c.targets = if thorough { vec![tg(S1, &[0, 1], Some(2)), tg(A2, &[0], Some(1))] } else { vec![tg(S1, &[0, 1], Some(2))] };
                c.inc_amounts = vec![1, 2];
                c.dec_amounts = vec![0, 1];
                c.inc_exps = vec![ExpA::Unset, ExpA::H(H0 + 1)];
                c.dec_exps = vec![ExpA::Unset, ExpA::Never];
                c.migrate_probe = true;
                c.perm_callers = vec![A1, X];
                c.perm_targets = if thorough {
                    vec![(S2, all16.clone()), (S1, vec![P_DELEGATE, 15])]
                } else {
                    vec![(S2, vec![0, P_DELEGATE, P_REDELEGATE, P_UNDELEGATE, P_WITHDRAW, 15])]
                };
                c.exec_callers = vec![A1, A2, S1, S2, X];
                c.exec_lists = lists.clone();
                // with and without coins attached to the call (attached: the empty list and every single kind)
                c.exec_funds = vec![vec![], vec![(0, Amt(1))]];
                out.push((c, None));
            }
            {
                // one subkey holding both an allowance and permissions: mixed lists can succeed
                let mut c = Cfg::base("C07/subkeys/one-subkey-with-both", "C07", Kind::Subkeys);
                c.hmax = H0 + 1;
                c.actors = vec!["A1", "A2", "S1", "S2", "X", "proxy", "pre:A1"];
                c.init_admins = vec![A1];
                c.admin_callers = vec![A1];
                // the subkey itself is promoted to admin and demoted again, with grant calls on it in between
                c.admin_lists = vec![vec![A1], vec![A1, 5], vec![A1, S1]];
                c.grant_callers = vec![A1, S1];
                c.targets = vec![tg(S1, &[0, 1], Some(2))];
                c.inc_amounts = vec![1, 2];
                c.dec_amounts = vec![1];
                c.inc_exps = vec![ExpA::Unset, ExpA::T(T0 + DT)];
                c.dec_exps = vec![ExpA::Unset, ExpA::Never];
                c.migrate_probe = true;
                c.perm_callers = vec![A1, S1];
                // every flag set (incl. the partial combinations) against every staking / distribution kind
                c.perm_targets = vec![(S1, all16.clone())];
                c.exec_callers = vec![A1, S1, X, 5, 6];
                c.exec_lists = lists.clone();
                c.exec_funds = vec![vec![], vec![(1, Amt(2))]];
                out.push((c, None));
            }
        }
        "C08" => {
            // sends a subkey tries: 1-2 coins, 1-2 messages, below / equal / above what is left, plus a
            // list that mixes in a message it has no right to (must fail as a whole)
            let s = |c: &[(u8, u128)]| send(c);
            let mut spend: Vec<Vec<M>> = vec![
                vec![s(&[(0, 1)])],
                vec![s(&[(0, 2)])],
                vec![s(&[(0, 3)])],
                vec![s(&[(1, 1)])],
                vec![s(&[(0, 1), (1, 1)])],
                vec![s(&[(0, 1), (0, 1)])],
                vec![s(&[(0, 1)]), s(&[(0, 1)])],
                vec![s(&[(0, 1)]), s(&[(1, 1)])],
                vec![s(&[(0, 2)]), s(&[(0, 1)])],
                vec![s(&[(0, 1), (1, 1)]), s(&[(0, 1)])],
                vec![s(&[(0, 1)]), M::Delegate],
                vec![s(&[(0, 0)])],
                vec![s(&[])],
                // two denominations in one send, one coin above what can be left of it
                vec![s(&[(0, 1), (1, 3)])],
                vec![s(&[(0, 3), (1, 1)])],
                // one coin list naming a denomination twice: each entry fits what is left, the sum may not
                vec![s(&[(0, 1), (0, 2)])],
                vec![s(&[(0, 2), (0, 2)])],
                // a burn is not a send: no allowance covers it, alone or next to covered sends
                vec![M::Burn(vec![(0, Amt(1))])],
                vec![s(&[(0, 1)]), M::Burn(vec![(0, Amt(1))])],
                vec![M::Burn(vec![(0, Amt(1))]), s(&[(0, 1)])],
                // the recipient is the proxy itself: who receives does not matter to the allowance
                vec![M::SendSelf(vec![(0, Amt(1))])],
                vec![M::SendSelf(vec![(0, Amt(3))])],
                vec![M::SendSelf(vec![(0, Amt(2))]), s(&[(0, 1)])],
            ];
            if thorough {
                spend.extend([
                    vec![s(&[(1, 2)])],
                    vec![s(&[(0, 2), (1, 2)])],
                    vec![s(&[(0, 1)]), s(&[(0, 1), (1, 1)])],
                    vec![s(&[(1, 1)]), s(&[(1, 1)])],
                    vec![s(&[(0, 3)]), s(&[(0, 1)])],
                    vec![M::WasmExec, s(&[(0, 1)])],
                ]);
            }
            {
                let mut c = Cfg::base("C08/closed/two-subkeys", "C08", Kind::Subkeys);
                c.hmax = if thorough { H0 + 3 } else { H0 + 2 };
                c.grant_callers = if thorough { vec![A1, A2, S1, X] } else { vec![A1, S2, X] };
                c.targets = vec![tg(S1, &[0, 1], Some(if thorough { 3 } else { 2 })), tg(S2, &[0, 1], Some(if thorough { 3 } else { 2 }))];
                c.inc_amounts = if thorough { vec![0, 1, 2, 3] } else { vec![0, 1, 2] };
                c.dec_amounts = if thorough { vec![0, 1, 2, 3] } else { vec![1, 2] };
                c.inc_exps = if thorough {
                    vec![ExpA::Unset, ExpA::Never, ExpA::H(H0), ExpA::H(H0 + 1), ExpA::H(H0 + 2), ExpA::T(T0), ExpA::T(T0 + DT)]
                } else {
                    vec![ExpA::Unset, ExpA::Never, ExpA::H(H0), ExpA::H(H0 + 1), ExpA::H(H0 + 2), ExpA::T(T0), ExpA::T(T0 + 2 * DT)]
                };
                c.dec_exps = if thorough { vec![ExpA::Unset, ExpA::Never, ExpA::H(H0 + 1), ExpA::H(H0 + 2), ExpA::T(T0)] } else { vec![ExpA::Unset, ExpA::Never, ExpA::H(H0 + 1)] };
                c.exec_callers = vec![S1, S2];
                c.exec_lists = spend.clone();
                // coins attached to the Execute call itself (they are the caller's, not a credit on the allowance)
                c.exec_funds = vec![vec![], vec![(0, Amt(1))]];
                c.exec_funded_max_len = 2;
                c.migrate_probe = true;
                // non-admins also try their grant calls with coins attached (the named coin / another one)
                c.grant_funds = vec![GF::None, GF::Same, GF::Other];
                out.push((c, None));
            }
            {
                // admins come and go; an admin may hold an allowance of its own; permissions exist and must not move
                let mut c = Cfg::base("C08/closed/admins-change+permissions", "C08", Kind::Subkeys);
                c.hmax = H0 + 1;
                c.admin_callers = vec![A1, A2];
                c.admin_lists = vec![vec![A1], vec![A1, A2], vec![A2]];
                c.freeze_callers = vec![A1];
                c.grant_callers = vec![A1, A2, S1];
                c.targets = vec![tg(S1, &[0, 1], Some(2)), tg(A2, &[0], Some(2))];
                c.inc_amounts = vec![1, 2];
                c.dec_amounts = vec![1];
                c.inc_exps = vec![ExpA::Unset, ExpA::H(H0 + 1)];
                c.perm_callers = vec![A1, S1];
                c.perm_targets = vec![(S1, vec![0, P_DELEGATE]), (S2, vec![15])];
                c.exec_callers = vec![A2, S1, S2];
                c.exec_lists = spend.iter().take(11).cloned().collect();
                // a permitted staking message before / between bank sends (S1 can hold both grants)
                c.exec_lists.extend([
                    vec![M::Delegate, s(&[(0, 1)])],
                    vec![M::Delegate, s(&[(0, 3)])],
                    vec![s(&[(0, 1)]), M::Delegate, s(&[(0, 2)])],
                    vec![M::Delegate, s(&[(0, 1)]), s(&[(0, 2)])],
                ]);
                c.grant_funds = vec![GF::None, GF::Same, GF::Other];
                c.exec_funds = vec![vec![], vec![(0, Amt(2))]];
                c.exec_funded_max_len = 2;
                c.migrate_probe = true;
                if !thorough {
                    c.admin_lists = vec![vec![A1], vec![A1, A2]];
                    c.targets = vec![tg(S1, &[0], Some(2)), tg(A2, &[0], Some(1))];
                }
                out.push((c, None));
            }
            {
                // cumulative monitor (history in the state): depth-bounded
                let mut c = Cfg::base("C08/monitor/relayed-vs-granted", "C08", Kind::Subkeys);
                c.hmax = H0 + 2;
                c.init_admins = vec![A1];
                c.grant_callers = vec![A1];
                c.targets = vec![tg(S1, &[0, 1], None)];
                c.inc_amounts = vec![1, 2];
                c.dec_amounts = vec![1];
                c.inc_exps = vec![ExpA::Unset, ExpA::H(H0 + 1)];
                c.exec_callers = vec![S1];
                c.exec_lists = vec![
                    vec![s(&[(0, 1)])],
                    vec![s(&[(0, 2)])],
                    vec![s(&[(0, 1), (1, 1)])],
                    vec![s(&[(0, 1)]), s(&[(0, 1)])],
                    vec![s(&[(0, 2)]), s(&[(0, 1)])],
                ];
                c.monitors = true;
                out.push((c, Some(if thorough { 8 } else { 6 })));
            }
            {
                // boundary amounts
                let mut c = Cfg::base("C08/edge/u128", "C08", Kind::Subkeys);
                c.hmax = H0 + 1;
                c.init_admins = vec![A1];
                c.grant_callers = vec![A1, X];
                c.targets = vec![tg(S1, &[0, 1], None)];
                c.inc_amounts = vec![1, (1u128 << 64) - 1, 1u128 << 64, MAX - 1, MAX];
                c.dec_amounts = vec![1, MAX];
                c.inc_exps = vec![ExpA::Unset, ExpA::H(H0 + 1)];
                c.exec_callers = vec![S1];
                c.exec_lists = vec![
                    vec![s(&[(0, 1)])],
                    vec![s(&[(0, MAX)])],
                    vec![s(&[(0, MAX - 1)]), s(&[(0, 1)])],
                    vec![s(&[(0, MAX), (0, 1)])],
                    vec![s(&[(0, MAX)]), s(&[(0, MAX)])],
                    vec![s(&[(0, 1u128 << 64)])],
                ];
                if !thorough {
                    c.inc_amounts = vec![1, MAX - 1, MAX];
                }
                out.push((c, Some(if thorough { 5 } else { 4 })));
            }
        }
        "C16" => {
            let msgs = c16_msgs(thorough);
            {
                let mut c = Cfg::base("C16/whitelist/admin-sets", "C16", Kind::Whitelist);
                c.actors = vec!["A1", "A2", "X", "proxy"];
                c.init_admins = vec![0, 1];
                c.admin_callers = vec![0, 1];
                c.admin_lists = vec![vec![0], vec![0, 1], vec![1], vec![], vec![2], vec![0, 3]];
                c.freeze_callers = vec![0];
                c.probe_senders = vec![0, 1, 2, 3];
                c.probe_msgs = msgs.clone();
                out.push((c, None));
            }
            {
                // allowances: granted, raised, lowered, spent (also down to nothing), expired by height and by time,
                // zero-amount grants; the removed admin A2 keeps an allowance
                let mut c = Cfg::base("C16/subkeys/allowances", "C16", Kind::Subkeys);
                c.hmax = H0 + 2;
                c.actors = vec!["A1", "A2", "S1", "S2", "X", "proxy"];
                c.admin_callers = vec![A1];
                c.admin_lists = vec![vec![A1], vec![A1, A2], vec![A1, 5]];
                c.grant_callers = vec![A1];
                c.targets = if thorough { vec![tg(S1, &[0, 1], Some(3)), tg(A2, &[0, 1], Some(1))] } else { vec![tg(S1, &[0, 1], Some(2)), tg(A2, &[0], Some(1))] };
                c.inc_amounts = if thorough { vec![0, 1, 2, 3] } else { vec![0, 1, 2] };
                c.dec_amounts = vec![1];
                c.inc_exps = if thorough {
                    vec![ExpA::Unset, ExpA::Never, ExpA::H(H0 + 1), ExpA::H(H0 + 2), ExpA::T(T0 + DT)]
                } else {
                    vec![ExpA::Unset, ExpA::H(H0 + 1), ExpA::T(T0 + 2 * DT)]
                };
                if thorough {
                    c.hmax = H0 + 3;
                }
                c.exec_callers = vec![S1, A2];
                c.exec_lists = vec![vec![send(&[(0, 1)])], vec![send(&[(1, 1)])], vec![send(&[(0, 1), (1, 1)])]];
                c.probe_senders = vec![A1, A2, S1, S2, X, 5];
                c.probe_msgs = msgs.clone();
                c.migrate_probe = true;
                out.push((c, None));
            }
            {
                // permissions: every flag set, with and without an allowance next to it
                let mut c = Cfg::base("C16/subkeys/permissions", "C16", Kind::Subkeys);
                c.hmax = H0 + 1;
                c.admin_callers = vec![A1];
                c.admin_lists = vec![vec![A1], vec![A1, A2]];
                c.freeze_callers = vec![A1];
                c.grant_callers = vec![A1];
                c.targets = if thorough { vec![tg(S2, &[0, 1], Some(1))] } else { vec![tg(S2, &[0], Some(1))] };
                c.inc_amounts = vec![1];
                c.dec_amounts = vec![1];
                c.inc_exps = vec![ExpA::Unset, ExpA::H(H0 + 1)];
                c.perm_callers = vec![A1];
                c.perm_targets = if thorough { vec![(S2, all16.clone()), (A2, all16.clone())] } else { vec![(S2, all16.clone()), (A2, vec![0, 15])] };
                c.exec_callers = vec![S2];
                c.exec_lists = vec![vec![send(&[(0, 1)])]];
                c.actors = vec!["A1", "A2", "S1", "S2", "X", "proxy"];
                c.probe_senders = vec![A1, A2, S1, S2, X, 5];
                c.probe_msgs = msgs.clone();
                out.push((c, None));
            }
        }
        "C17" => {
            let inits: Vec<(&str, Vec<u8>, bool)> = vec![
                ("A1/mutable", vec![0], true),
                ("A1,A2/mutable", vec![0, 1], true),
                ("none/mutable", vec![], true),
                ("A1/immutable", vec![0], false),
                ("A1,A2/immutable", vec![0, 1], false),
                // lists that are not in address order whichever way the addresses sort, and lists that repeat an address
                ("A2,A1/immutable", vec![1, 0], false),
                ("A1,A1/immutable", vec![0, 0], false),
                ("X,A1,X/immutable", vec![3, 0, 3], false),
                // mutable with a repeated address: UpdateAdmins must really replace the list
                ("A1,X,X/mutable/admin-ops-only", vec![0, 3, 3], true),
                ("X,A1,X/mutable/admin-ops-only", vec![3, 0, 3], true),
            ];
            // actors: A1 A2 S X
            for kind in [Kind::Whitelist, Kind::Subkeys] {
                for (n, admins, mutable) in &inits {
                    let kn = if kind == Kind::Whitelist { "whitelist" } else { "subkeys" };
                    let mut c = Cfg::base(&format!("C17/{kn}/{n}"), "C17", kind);
                    c.actors = vec!["A1", "A2", "S", "X"];
                    c.init_admins = admins.clone();
                    c.init_mutable = *mutable;
                    c.hmax = H0 + 1;
                    c.admin_callers = vec![0, 1, 2, 3];
                    c.admin_lists = vec![vec![], vec![0], vec![1], vec![0, 1], vec![1, 0], vec![3], vec![0, 0], vec![3, 0, 3]];
                    c.migrate_probe = true;
                    // the chain-level migration admin is the stranger X where the set starts with A1 alone
                    // (X has no rights inside the proxy unless the admin list names it)
                    if n.starts_with("A1/") || n.starts_with("A1,X,X") {
                        c.wasm_admin = Some(3);
                    }
                    c.freeze_callers = vec![0, 1, 2, 3];
                    c.grant_callers = vec![0, 1, 2, 3];
                    c.targets = if thorough {
                        vec![tg(2, &[0, 1], Some(2)), tg(1, &[0], Some(1))]
                    } else if admins.contains(&1) {
                        // quick: the (removable) admin A2 holds an allowance of its own only where it starts as an admin
                        vec![tg(2, &[0], Some(2)), tg(1, &[0], Some(1))]
                    } else {
                        vec![tg(2, &[0], Some(2))]
                    };
                    // zero-amount increases too: they can only (re-)date an allowance
                    c.inc_amounts = if thorough { vec![0, 1, 2] } else { vec![0, 1] };
                    c.dec_amounts = vec![1];
                    c.inc_exps = vec![ExpA::Unset, ExpA::Never, ExpA::H(H0 + 1)];
                    c.dec_exps = if thorough { vec![ExpA::Unset, ExpA::Never, ExpA::H(H0 + 2), ExpA::T(T0 + 2 * DT)] } else { vec![ExpA::Unset, ExpA::Never, ExpA::H(H0 + 2)] };
                    c.perm_callers = vec![0, 1, 2, 3];
                    // two holders of permissions: a grant held by one must not let it grant to the other
                    c.perm_targets = vec![(2, if thorough { vec![0, 1, 2, 4, 8, 3, 12, 15] } else { vec![0, P_DELEGATE, P_WITHDRAW, 15] }), (1, vec![P_REDELEGATE])];
                    c.exec_callers = vec![0, 1, 2, 3];
                    // (a send whose recipient is the proxy itself: still the subkey's own spending, never a credit — seeded C17_r11_1)
                    c.exec_lists = vec![vec![send(&[(0, 1)])], vec![send(&[])], vec![send(&[(0, 0)])], vec![M::SendSelf(vec![(0, Amt(1))])], vec![M::Delegate], vec![M::WasmExec], vec![]];
                    c.exec_funds = vec![vec![], vec![(0, Amt(1))]];
                    c.grant_funds = vec![GF::None, GF::Same, GF::Other];
                    if n.ends_with("admin-ops-only") {
                        // the grant machine is explored from the other initial sets
                        c.targets = vec![];
                        c.perm_targets = vec![];
                    }
                    if kind == Kind::Whitelist || *n == "A1/immutable" || n.ends_with("admin-ops-only") {
                        // callers whose address is a prefix / an extension of A1's, or the bare bech32 prefix
                        c.actors = vec!["A1", "A2", "S", "X", "pre:A1", "ext:A1", "hrp"];
                        for l in [&mut c.admin_callers, &mut c.freeze_callers, &mut c.grant_callers, &mut c.perm_callers, &mut c.exec_callers] {
                            l.extend([4, 5, 6]);
                        }
                    }
                    out.push((c, None));
                }
            }
        }
        _ => {}
    }
    if prop == "C17" {
        // Relayed messages are DISPATCHED here: what any caller can make the proxy tell itself. The
        // inner call's sender is the proxy's own address, which is an admin only where the list says so.
        // actors: A1 A2 S X proxy
        const P: u8 = 4;
        let inits: Vec<(&str, Vec<u8>, bool)> = vec![
            ("A1/mutable", vec![0], true),
            ("A1/immutable", vec![0], false),
            ("A1,proxy/mutable", vec![0, P], true),
            ("A1,proxy/immutable", vec![0, P], false),
        ];
        for kind in [Kind::Whitelist, Kind::Subkeys] {
            for (n, admins, mutable) in &inits {
                let kn = if kind == Kind::Whitelist { "whitelist" } else { "subkeys" };
                let mut c = Cfg::base(&format!("C17/{kn}/self-call/{n}"), "C17", kind);
                c.actors = vec!["A1", "A2", "S", "X", "proxy"];
                c.dispatch = true;
                c.init_admins = admins.clone();
                c.init_mutable = *mutable;
                c.hmax = if thorough { H0 + 1 } else { H0 };
                c.admin_callers = vec![0, 3];
                c.admin_lists = vec![vec![0], vec![0, 1], vec![0, P], vec![3]];
                c.freeze_callers = vec![0, 3];
                c.grant_callers = vec![0, 3];
                c.targets = vec![tg(2, &[0], Some(if thorough { 2 } else { 1 }))];
                c.inc_amounts = vec![1];
                c.dec_amounts = vec![1];
                c.inc_exps = if thorough { vec![ExpA::Unset, ExpA::H(H0 + 1)] } else { vec![ExpA::Unset] };
                c.perm_callers = vec![0, 3];
                c.perm_targets = vec![(2, vec![0, 15])];
                c.exec_callers = vec![0, 1, 2, 3];
                let sc = |i: Inner| M::SelfCall(i);
                let mut singles = vec![
                    sc(Inner::UpdateAdmins(vec![3])),
                    sc(Inner::UpdateAdmins(vec![])),
                    sc(Inner::Freeze),
                    sc(Inner::Exec(vec![sc(Inner::UpdateAdmins(vec![3]))])),
                ];
                if kind == Kind::Subkeys {
                    singles.push(sc(Inner::Inc { spender: 2, denom: 0, amt: Amt(1) }));
                    singles.push(sc(Inner::SetPerm { spender: 2, flags: 15 }));
                }
                if thorough {
                    singles.push(sc(Inner::UpdateAdmins(vec![0, P])));
                    singles.push(sc(Inner::Exec(vec![sc(Inner::Exec(vec![sc(Inner::UpdateAdmins(vec![3]))]))])));
                    singles.push(sc(Inner::Exec(vec![sc(Inner::Freeze), sc(Inner::UpdateAdmins(vec![]))])));
                    if kind == Kind::Subkeys {
                        singles.push(sc(Inner::Exec(vec![sc(Inner::Inc { spender: 2, denom: 0, amt: Amt(1) })])));
                        singles.push(sc(Inner::Exec(vec![sc(Inner::SetPerm { spender: 2, flags: 5 })])));
                    }
                }
                let mut lists: Vec<Vec<M>> = vec![vec![], vec![M::Delegate]];
                for a in &singles {
                    lists.push(vec![a.clone()]);
                }
                if thorough {
                    for a in &singles {
                        for b in &singles {
                            lists.push(vec![a.clone(), b.clone()]);
                        }
                    }
                } else {
                    lists.push(vec![singles[2].clone(), singles[0].clone()]);
                    lists.push(vec![singles[0].clone(), singles[2].clone()]);
                    lists.push(vec![M::Delegate, singles[0].clone()]);
                }
                c.exec_lists = lists;
                out.push((c, None));
            }
        }
    }
    out
}

fn describe(prop: &str) -> (&'static str, &'static str) {
    match prop {
        "C07" => (
            "grant machine: UpdateAdmins / Freeze / IncreaseAllowance / DecreaseAllowance (two denominations, height and time expiries) / SetPermissions (all 16 flag sets in thorough) by admins, removed admins and strangers, AdvanceBlock across the expiries; at every reachable state Execute{msgs} by every caller class (admin, second/removed admin, subkey with allowance, subkey with permissions, stranger) with the empty list, every single message kind and every ordered pair of kinds: bank send (1 coin, 2 coins, 2 coins of one denomination, zero coin, no coin), bank burn, staking delegate/undelegate/redelegate, distribution set-withdraw-address/withdraw-reward, wasm execute (+instantiate, custom in thorough), ibc transfer, gov vote, stargate. Successful calls of a subkey are real transitions (its allowance shrinks)",
            "independent predicate covered(reference, caller, msgs) from the property text (admin: anything; otherwise every message a bank send within the unexpired allowance, cumulatively per denomination, or a staking/distribution message whose permission flag is set); Execute Ok => covered and Response.messages == the submitted list (same order and content, ReplyOn::Never, no gas limit, nothing added); Err => storage unchanged and nothing relayed; the reference grant state is compared with AdminList / Allowance / AllAllowances / Permissions after every step",
        ),
        "C08" => (
            "IncreaseAllowance / DecreaseAllowance by admins, second admins, subkeys and strangers on two subkeys, two denominations, amounts {0,1,2,3} (u64/u128 boundary values in the edge configuration), expiries {none, never, height/time already reached, +1, +2 blocks}; Execute by subkeys (and an admin holding an allowance) with 1-2 bank sends of 1-2 coins below / at / above what remains, repeated denominations, zero and empty sends, lists mixing in a forbidden message; UpdateAdmins and SetPermissions in one configuration; AdvanceBlock across every expiry",
            "reference ledger {subkey -> (denom -> amount, expiry)} compared with Allowance and the fully paged AllAllowances after every step (maps, zero = absent, expired = empty); accepted spend => allowance exists, unexpired, and per denomination the sum over all coins of all messages <= what was left, afterwards lower by exactly that; allowance rises only in an admin's IncreaseAllowance naming that subkey (on an expired allowance restart-from-zero and accumulate are both accepted), the resulting expiry lies in the future; falls only by an admin's DecreaseAllowance (saturating, entry gone when empty) or the subkey's own spending; no other subkey's allowance or permissions change in the step; monitor relayed <= granted in the depth-bounded configuration",
        ),
        "C16" => (
            "every reachable state of the grant machine of both contracts (admin sets incl. empty, frozen, allowances granted / raised / lowered / spent to nothing / zero-amount / expired by height and by time, every permission flag set, every block up to the clock cap) x every sender class (admin, removed admin with and without grants, subkeys, stranger) x every single message: bank sends below / equal / above the allowance, other denomination, two coins, repeated denomination, zero, empty, burn, staking x3, distribution x2, wasm x2, ibc, gov, stargate, custom",
            "CanExecute{sender,msg}.can_execute == (Execute{msgs:[msg]} by sender on a copy of the same state returns Ok); a failing query is a violation too",
        ),
        "C17" => (
            "both contracts, initial admin sets [A1], [A1,A2], [] mutable and [A1], [A1,A2] immutable; UpdateAdmins{[],[A1],[A2],[A1,A2],[X],[A1,A1]}, Freeze, IncreaseAllowance, DecreaseAllowance, SetPermissions, Execute by A1, A2, the subkey and a stranger (who can become admin and be removed again), AdvanceBlock; self-call configurations (relayed messages dispatched by the kernel; initial sets [A1], [A1,proxy] mutable and immutable): Execute by every caller class carrying WasmMsg::Execute addressed to the proxy itself with UpdateAdmins{[X]}, UpdateAdmins{[]}, Freeze, IncreaseAllowance, SetPermissions, a nested Execute carrying a self-addressed UpdateAdmins (two and, in thorough, three levels), and pairs of these",
            "reference {admins, mutable} == AdminList after every step; the reported list or flag changes only in an UpdateAdmins (list, to the submitted set) or Freeze (flag true->false) sent by a current admin while mutable, never once frozen or instantiated immutable; every step after which a subkey's Allowance reads higher / re-dated / newly created, or its Permissions differ, was sent by a current admin; a lower allowance comes from an admin or from the subkey's own spending; for dispatched self-addressed messages the sender of the inner call is the proxy's own address, which counts as an admin exactly when the admin list names it",
        ),
        _ => ("", ""),
    }
}

fn run(prop: &str, tier: &str) -> i32 {
    let thorough = tier == "thorough";
    let cfgs = configs(prop, thorough);
    if cfgs.is_empty() {
        eprintln!("fam-cw1 does not serve {prop}");
        return 2;
    }
    let known = Known::load(prop);
    let mut rep = Report::new(prop, tier, "cw1");
    let (alpha, oracle) = describe(prop);
    rep.alphabet = alpha.into();
    rep.oracle = oracle.into();
    rep.bounds = "closed configurations (capped grants, capped clock, finite admin lists) run to fixpoint: all histories over the alphabet; monitor / edge configurations to the stated depth; state cap 8e6, time cap per configuration".into();
    rep.assumptions = vec![
        "single-contract runtime: each call is an atomic transaction on the real cw1-whitelist / cw1-subkeys entry points; Response.messages are observed, not dispatched (whether a relayed message later succeeds at its destination is outside the proxy)".into(),
        "amounts are {0..3} plus boundary values, two denominations, five actors; addresses are MockApi bech32 addresses; CanExecute is asked for valid sender addresses only".into(),
        "bank balances are environment, not state: every caller is re-funded after each call so that coins can be attached to any call (the proxies never query balances)".into(),
        "message kinds gated behind cosmwasm_1_3 / cosmwasm_2_0 (FundCommunityPool, CosmosMsg::Any) are not in the alphabet".into(),
    ];
    let seed = mc::report::seed();
    let runs: Vec<RunStats> = mc::run_pooled(cfgs.len(), |i| {
        let (c, d) = &cfgs[i];
        let m = Cw1Model { cfg: c.clone() };
        let b = Bounds {
            max_depth: *d,
            max_states: 8_000_000,
            max_secs: if thorough { 1500.0 } else { 100.0 },
        };
        mc::bfs(&m, &b, &known, seed)
    });
    rep.runs = runs;
    rep.finish()
}

fn main() {
    mc::world::silence_panics();
    let a = mc::parse_args();
    let code = if a.cmd == "replay" {
        let rf = load_replay(a.path.as_deref().unwrap_or(""));
        let all: Vec<(Cfg, Option<usize>)> = configs(&rf.property, true).into_iter().chain(configs(&rf.property, false)).collect();
        // thorough and quick share configuration names; a replay must run on the alphabet that
        // produced it, but actions are self-contained, so either definition replays it
        match all.into_iter().find(|(c, _)| c.name == rf.config) {
            Some((c, _)) => run_replay(&Cw1Model { cfg: c }, &rf),
            None => {
                eprintln!("machinery error: unknown config {}", rf.config);
                2
            }
        }
    } else {
        run(&a.cmd, &a.tier)
    };
    std::process::exit(code);
}
