//! cw1-whitelist and cw1-subkeys under exhaustive exploration: alphabet, reference model and
//! oracles for C07 (relay exactly / only when covered), C08 (allowance ledger), C16 (CanExecute
//! predicts Execute) and C17 (admin list / grants only by admins).
//!
//! Every clause is named after the property that owns it ("C08.…"). All of them are evaluated in
//! every step; `step` keeps only those owned by the property being run (plus the reference
//! conformance clauses, which are named after the running property). The reference always
//! *follows* an accepted call — authorised or not — so that a defect owned by another property
//! does not surface as a reference mismatch here.
#![allow(deprecated)] // CosmosMsg::Stargate is part of the alphabet on purpose
use cosmwasm_std::{
    coin, to_json_vec, BankMsg, Binary, Coin, CosmosMsg, DistributionMsg, Empty, GovMsg, IbcMsg,
    IbcTimeout, ReplyOn, StakingMsg, Timestamp, Uint128, VoteOption, WasmMsg,
};
use cw1::CanExecuteResponse;
use cw1_subkeys::msg::{AllAllowancesResponse, ExecuteMsg, QueryMsg};
use cw1_subkeys::state::{Allowance, Permissions};
use cw1_whitelist::msg::{AdminListResponse, InstantiateMsg};
use cw_utils::{Expiration, NativeBalance};
use mc::world::{addr_cached, ContractVt, World};
use mc::{fp128, Model, Step, Violation};
use serde::{Deserialize, Serialize};
use std::collections::{BTreeMap, BTreeSet};
use std::sync::{Arc, OnceLock};

pub const H0: u64 = 10;
pub const T0: u64 = 1000;
pub const DT: u64 = 5;
pub const DENOMS: [&str; 2] = ["x", "y"];

pub const P_DELEGATE: u8 = 1;
pub const P_REDELEGATE: u8 = 2;
pub const P_UNDELEGATE: u8 = 4;
pub const P_WITHDRAW: u8 = 8;

#[derive(Clone, Copy, Debug, PartialEq, Eq)]
pub enum Kind {
    Whitelist,
    Subkeys,
}

pub fn vt(kind: Kind) -> &'static ContractVt {
    static WL: OnceLock<ContractVt> = OnceLock::new();
    static SK: OnceLock<ContractVt> = OnceLock::new();
    match kind {
        Kind::Whitelist => WL.get_or_init(|| {
            mc::contract_vt!(
                "cw1-whitelist",
                cw1_whitelist::contract,
                cw1_whitelist::msg::InstantiateMsg,
                cw1_whitelist::msg::ExecuteMsg,
                cw1_whitelist::msg::QueryMsg
            )
        }),
        Kind::Subkeys => SK.get_or_init(|| {
            let mut v = mc::contract_vt!(
                "cw1-subkeys",
                cw1_subkeys::contract,
                cw1_whitelist::msg::InstantiateMsg,
                cw1_subkeys::msg::ExecuteMsg,
                cw1_subkeys::msg::QueryMsg
            );
            fn mig(d: cosmwasm_std::DepsMut, e: cosmwasm_std::Env, m: &[u8]) -> Result<cosmwasm_std::Response, String> {
                let msg: Empty = cosmwasm_std::from_json(m).map_err(|e| e.to_string())?;
                cw1_subkeys::contract::migrate(d, e, msg).map_err(|e| e.to_string())
            }
            v.migrate = Some(mig);
            v
        }),
    }
}

/// u128 amount that serialises as a decimal string (serde_json values cannot hold u128)
#[derive(Clone, Copy, Debug, PartialEq, Eq, Hash, PartialOrd, Ord)]
pub struct Amt(pub u128);
impl Serialize for Amt {
    fn serialize<S: serde::Serializer>(&self, s: S) -> Result<S::Ok, S::Error> {
        s.serialize_str(&self.0.to_string())
    }
}
impl<'de> Deserialize<'de> for Amt {
    fn deserialize<D: serde::Deserializer<'de>>(d: D) -> Result<Self, D::Error> {
        let s = String::deserialize(d)?;
        s.parse::<u128>().map(Amt).map_err(serde::de::Error::custom)
    }
}

#[derive(Clone, Copy, Debug, Serialize, Deserialize, PartialEq, Eq, Hash, PartialOrd, Ord)]
pub enum ExpA {
    Unset,
    Never,
    H(u64),
    T(u64),
}

impl ExpA {
    pub fn to_opt(self) -> Option<Expiration> {
        match self {
            ExpA::Unset => None,
            ExpA::Never => Some(Expiration::Never {}),
            ExpA::H(h) => Some(Expiration::AtHeight(h)),
            ExpA::T(t) => Some(Expiration::AtTime(Timestamp::from_seconds(t))),
        }
    }
    pub fn to_key(self) -> Option<ExpKey> {
        match self {
            ExpA::Unset => None,
            ExpA::Never => Some(ExpKey::Never),
            ExpA::H(h) => Some(ExpKey::H(h)),
            ExpA::T(t) => Some(ExpKey::T(t)),
        }
    }
}

/// hashable mirror of Expiration; "expired" is written from the cw-utils documentation
/// (an expiration is reached when height >= h / time >= t), not taken from the contract
#[derive(Clone, Copy, Debug, PartialEq, Eq, Hash, PartialOrd, Ord)]
pub enum ExpKey {
    Never,
    H(u64),
    T(u64),
}
impl ExpKey {
    pub fn from(e: &Expiration) -> ExpKey {
        match e {
            Expiration::Never {} => ExpKey::Never,
            Expiration::AtHeight(h) => ExpKey::H(*h),
            Expiration::AtTime(t) => ExpKey::T(t.seconds()),
        }
    }
    pub fn expired(&self, h: u64, t: u64) -> bool {
        match self {
            ExpKey::Never => false,
            ExpKey::H(x) => h >= *x,
            ExpKey::T(x) => t >= *x,
        }
    }
}

/// message kinds the proxy is asked to relay (coins are (denom index, amount))
#[derive(Clone, Debug, Serialize, Deserialize, PartialEq, Eq, Hash, PartialOrd, Ord)]
pub enum M {
    Send(Vec<(u8, Amt)>),
    /// bank send whose recipient is the proxy's own address (who receives is irrelevant to the grants)
    SendSelf(Vec<(u8, Amt)>),
    Burn(Vec<(u8, Amt)>),
    Delegate,
    Undelegate,
    Redelegate,
    SetWithdraw,
    Withdraw,
    WasmExec,
    WasmInst,
    IbcTransfer,
    GovVote,
    Stargate,
    Custom,
    /// bank send to a recipient string that is not a normalized address: 0 = a module-account
    /// style name, 1 = an upper-cased bech32 address, 2 = the empty string
    SendTo(u8, Vec<(u8, Amt)>),
    /// WasmMsg::Migrate / UpdateAdmin / ClearAdmin naming the proxy itself (own) or another contract
    WasmMigrate { own: bool },
    WasmUpdateAdmin { own: bool },
    WasmClearAdmin { own: bool },
    /// WasmMsg::Execute addressed to the proxy itself (only meaningful when relayed messages are
    /// dispatched): the inner call runs with the proxy's own address as sender
    SelfCall(Inner),
}

/// what a self-addressed message asks the proxy to do
#[derive(Clone, Debug, Serialize, Deserialize, PartialEq, Eq, Hash, PartialOrd, Ord)]
pub enum Inner {
    UpdateAdmins(Vec<u8>),
    Freeze,
    Inc { spender: u8, denom: u8, amt: Amt },
    SetPerm { spender: u8, flags: u8 },
    /// a nested Execute (its messages are relayed once more)
    Exec(Vec<M>),
}

impl M {
    pub fn kind(&self) -> &'static str {
        match self {
            M::Send(_) => "bank-send",
            M::SendSelf(_) => "bank-send-to-proxy",
            M::SendTo(..) => "bank-send-odd-recipient",
            M::WasmMigrate { .. } => "wasm-migrate",
            M::WasmUpdateAdmin { .. } => "wasm-update-admin",
            M::WasmClearAdmin { .. } => "wasm-clear-admin",
            M::Burn(_) => "bank-burn",
            M::Delegate => "delegate",
            M::Undelegate => "undelegate",
            M::Redelegate => "redelegate",
            M::SetWithdraw => "set-withdraw-address",
            M::Withdraw => "withdraw-reward",
            M::WasmExec => "wasm-execute",
            M::WasmInst => "wasm-instantiate",
            M::IbcTransfer => "ibc-transfer",
            M::GovVote => "gov-vote",
            M::Stargate => "stargate",
            M::Custom => "custom",
            M::SelfCall(Inner::UpdateAdmins(_)) => "self:update-admins",
            M::SelfCall(Inner::Freeze) => "self:freeze",
            M::SelfCall(Inner::Inc { .. }) => "self:increase-allowance",
            M::SelfCall(Inner::SetPerm { .. }) => "self:set-permissions",
            M::SelfCall(Inner::Exec(_)) => "self:execute",
        }
    }
}

fn coins_of(v: &[(u8, Amt)]) -> Vec<Coin> {
    v.iter()
        .map(|(d, a)| Coin {
            denom: DENOMS[*d as usize].to_string(),
            amount: Uint128::new(a.0),
        })
        .collect()
}

pub fn inner_msg(actors: &[&'static str], i: &Inner) -> ExecuteMsg {
    let addr = |k: &u8| addr_cached(actors[*k as usize]);
    match i {
        Inner::UpdateAdmins(l) => ExecuteMsg::UpdateAdmins { admins: l.iter().map(addr).collect() },
        Inner::Freeze => ExecuteMsg::Freeze {},
        Inner::Inc { spender, denom, amt } => ExecuteMsg::IncreaseAllowance {
            spender: addr(spender),
            amount: Coin {
                denom: DENOMS[*denom as usize].into(),
                amount: Uint128::new(amt.0),
            },
            expires: None,
        },
        Inner::SetPerm { spender, flags } => ExecuteMsg::SetPermissions {
            spender: addr(spender),
            permissions: perms_of(*flags),
        },
        Inner::Exec(msgs) => ExecuteMsg::Execute {
            msgs: msgs.iter().map(|m| to_cosmos(actors, m)).collect(),
        },
    }
}

pub fn to_cosmos(actors: &[&'static str], m: &M) -> CosmosMsg {
    match m {
        M::SelfCall(i) => WasmMsg::Execute {
            contract_addr: proxy_addr(),
            msg: cosmwasm_std::to_json_binary(&inner_msg(actors, i)).unwrap(),
            funds: vec![],
        }
        .into(),
        M::SendTo(k, v) => BankMsg::Send {
            to_address: match k {
                0 => "community-pool".to_string(),
                1 => addr_cached("dest").to_uppercase(),
                _ => String::new(),
            },
            amount: coins_of(v),
        }
        .into(),
        M::WasmMigrate { own } => WasmMsg::Migrate {
            contract_addr: if *own { proxy_addr() } else { addr_cached("other") },
            new_code_id: 7,
            msg: Binary::from(b"{}".to_vec()),
        }
        .into(),
        M::WasmUpdateAdmin { own } => WasmMsg::UpdateAdmin {
            contract_addr: if *own { proxy_addr() } else { addr_cached("other") },
            admin: addr_cached("dest"),
        }
        .into(),
        M::WasmClearAdmin { own } => WasmMsg::ClearAdmin {
            contract_addr: if *own { proxy_addr() } else { addr_cached("other") },
        }
        .into(),
        M::SendSelf(v) => BankMsg::Send {
            to_address: proxy_addr(),
            amount: coins_of(v),
        }
        .into(),
        M::Send(v) => BankMsg::Send {
            to_address: addr_cached("dest"),
            amount: coins_of(v),
        }
        .into(),
        M::Burn(v) => BankMsg::Burn { amount: coins_of(v) }.into(),
        M::Delegate => StakingMsg::Delegate {
            validator: "val1".into(),
            amount: coin(1, "x"),
        }
        .into(),
        M::Undelegate => StakingMsg::Undelegate {
            validator: "val1".into(),
            amount: coin(1, "x"),
        }
        .into(),
        M::Redelegate => StakingMsg::Redelegate {
            src_validator: "val1".into(),
            dst_validator: "val2".into(),
            amount: coin(1, "x"),
        }
        .into(),
        M::SetWithdraw => DistributionMsg::SetWithdrawAddress {
            address: addr_cached("dest"),
        }
        .into(),
        M::Withdraw => DistributionMsg::WithdrawDelegatorReward {
            validator: "val1".into(),
        }
        .into(),
        M::WasmExec => WasmMsg::Execute {
            contract_addr: addr_cached("other"),
            msg: Binary::from(b"{}".to_vec()),
            funds: vec![coin(1, "x")],
        }
        .into(),
        M::WasmInst => WasmMsg::Instantiate {
            admin: None,
            code_id: 1,
            msg: Binary::from(b"{}".to_vec()),
            funds: vec![],
            label: "l".into(),
        }
        .into(),
        M::IbcTransfer => IbcMsg::Transfer {
            channel_id: "channel-0".into(),
            to_address: "remote".into(),
            amount: coin(1, "x"),
            timeout: IbcTimeout::with_timestamp(Timestamp::from_seconds(5000)),
            memo: None,
        }
        .into(),
        M::GovVote => GovMsg::Vote {
            proposal_id: 1,
            option: VoteOption::Yes,
        }
        .into(),
        M::Stargate => CosmosMsg::Stargate {
            type_url: "/cosmos.bank.v1beta1.MsgSend".into(),
            value: Binary::from(b"raw".to_vec()),
        },
        M::Custom => CosmosMsg::Custom(Empty {}),
    }
}

#[derive(Clone, Debug, Serialize, Deserialize)]
pub enum Act {
    UpdateAdmins { by: u8, admins: Vec<u8> },
    Freeze { by: u8 },
    // `funds`: coins attached to the call (MessageInfo.funds), as (denom index, amount)
    Inc {
        by: u8,
        spender: u8,
        denom: u8,
        amt: Amt,
        exp: ExpA,
        #[serde(default)]
        funds: Vec<(u8, Amt)>,
    },
    Dec {
        by: u8,
        spender: u8,
        denom: u8,
        amt: Amt,
        exp: ExpA,
        #[serde(default)]
        funds: Vec<(u8, Amt)>,
    },
    SetPerm {
        by: u8,
        spender: u8,
        flags: u8,
        #[serde(default)]
        funds: Vec<(u8, Amt)>,
    },
    Exec {
        by: u8,
        msgs: Vec<M>,
        #[serde(default)]
        funds: Vec<(u8, Amt)>,
    },
    /// C16: ask CanExecute, run Execute{[msg]} on a copy of the state, compare; the state is kept
    Probe { sender: u8, msg: M },
    Advance,
    /// run the real `migrate` entry point (cw1-subkeys) on the current storage: nobody's call, so
    /// nothing the queries report may change
    Migrate,
    /// store an older cw2 version (index into OLD_VERSIONS) and run the real `migrate`: an upgrade
    /// is nobody's call either, every query must answer as before; exploration continues from
    /// the migrated state
    MigrateOld { version: u8 },
}

pub const OLD_VERSIONS: [&str; 2] = ["0.13.4", "1.1.2"];

/// who may be granted what by the driver
#[derive(Clone, Debug)]
pub struct GrantTarget {
    pub spender: u8,
    pub denoms: Vec<u8>,
    /// increases are only offered while the stored amount stays within this (closes the system)
    pub cap: Option<u128>,
}

#[derive(Clone, Debug)]
pub struct Cfg {
    pub name: String,
    pub prop: &'static str,
    pub kind: Kind,
    pub actors: Vec<&'static str>,
    pub init_admins: Vec<u8>,
    pub init_mutable: bool,
    pub hmax: u64,
    pub admin_callers: Vec<u8>,
    pub admin_lists: Vec<Vec<u8>>,
    pub freeze_callers: Vec<u8>,
    pub grant_callers: Vec<u8>,
    pub targets: Vec<GrantTarget>,
    pub inc_amounts: Vec<u128>,
    pub dec_amounts: Vec<u128>,
    pub inc_exps: Vec<ExpA>,
    pub dec_exps: Vec<ExpA>,
    pub perm_callers: Vec<u8>,
    /// (spender, flag sets)
    pub perm_targets: Vec<(u8, Vec<u8>)>,
    pub exec_callers: Vec<u8>,
    pub exec_lists: Vec<Vec<M>>,
    pub probe_senders: Vec<u8>,
    pub probe_msgs: Vec<M>,
    /// track cumulative granted / relayed per (subkey, denom): history in the state, depth-bounded runs only
    pub monitors: bool,
    /// true: the kernel dispatches what the proxy relays (messages to the proxy itself are
    /// executed with the proxy as sender); false: relayed messages are only observed
    pub dispatch: bool,
    /// offer `Migrate` at every state (contracts with a migrate entry point only)
    pub migrate_probe: bool,
    /// coins attached to Execute calls; non-empty ones only for lists of at most `exec_funded_max_len` messages
    pub exec_funds: Vec<Vec<(u8, Amt)>>,
    pub exec_funded_max_len: usize,
    /// coins attached to IncreaseAllowance / DecreaseAllowance / SetPermissions; anything but `GF::None`
    /// is only offered to callers that are not current admins
    pub grant_funds: Vec<GF>,
    /// chain-level (migration) admin of the instantiated proxy: an address with no rights inside it
    pub wasm_admin: Option<u8>,
}

/// funds attached to a grant call
#[derive(Clone, Copy, Debug, PartialEq, Eq)]
pub enum GF {
    None,
    /// exactly the coin named in the message
    Same,
    /// one coin of the other denomination
    Other,
}

impl Cfg {
    pub fn base(name: &str, prop: &'static str, kind: Kind) -> Cfg {
        Cfg {
            name: name.to_string(),
            prop,
            kind,
            actors: vec!["A1", "A2", "S1", "S2", "X"],
            init_admins: vec![0, 1],
            init_mutable: true,
            hmax: H0,
            admin_callers: vec![],
            admin_lists: vec![],
            freeze_callers: vec![],
            grant_callers: vec![],
            targets: vec![],
            inc_amounts: vec![],
            dec_amounts: vec![],
            inc_exps: vec![ExpA::Unset],
            dec_exps: vec![ExpA::Unset],
            perm_callers: vec![],
            perm_targets: vec![],
            exec_callers: vec![],
            exec_lists: vec![],
            probe_senders: vec![],
            probe_msgs: vec![],
            monitors: false,
            dispatch: false,
            migrate_probe: false,
            exec_funds: vec![vec![]],
            exec_funded_max_len: 1,
            grant_funds: vec![GF::None],
            wasm_admin: None,
        }
    }
    /// Address of an actor. Labels "pre:L" / "ext:L" / "hrp" name look-alike senders that are not
    /// valid addresses themselves: L's address without its last character, L's address with one
    /// more character, and the bare bech32 prefix. They can only be callers (they must come last in
    /// `actors`): nobody can name them in a list or query them.
    pub fn addr(&self, i: u8) -> String {
        let l = self.actors[i as usize];
        if let Some(b) = l.strip_prefix("pre:") {
            let mut a = addr_cached(b);
            a.pop();
            a
        } else if let Some(b) = l.strip_prefix("ext:") {
            format!("{}q", addr_cached(b))
        } else if l == "hrp" {
            "cosmwasm1".to_string()
        } else {
            addr_cached(l)
        }
    }
    /// number of actors with a real address (the look-alike senders come after them)
    pub fn n_real(&self) -> u8 {
        self.actors.iter().filter(|l| !(l.starts_with("pre:") || l.starts_with("ext:") || **l == "hrp")).count() as u8
    }
    pub fn label(&self, i: u8) -> &'static str {
        self.actors[i as usize]
    }
}

pub fn proxy_addr() -> String {
    addr_cached("proxy")
}

type Amounts = BTreeMap<u8, u128>;

/// The reference model: who is admin, whether that can change, and what every subkey was granted.
#[derive(Clone, Debug, PartialEq, Eq, Hash, Default)]
pub struct Ref {
    pub admins: Vec<u8>,
    pub mutable: bool,
    /// subkey -> (denom -> amount, zero = absent; expiry). The entry exists from the first
    /// increase until an admin's decrease leaves it empty; spending it down to nothing keeps it.
    pub allow: BTreeMap<u8, (Amounts, ExpKey)>,
    /// subkey -> permission flags (absent = never set, reads as no permissions)
    pub perms: BTreeMap<u8, u8>,
    pub granted: BTreeMap<(u8, u8), u128>,
    pub relayed: BTreeMap<(u8, u8), u128>,
}

impl Ref {
    fn is_admin(&self, a: u8) -> bool {
        self.admins.contains(&a)
    }
    /// what the subkey may still spend at (h, t): nothing once the allowance has expired
    fn visible(&self, k: u8, h: u64, t: u64) -> Option<(&Amounts, ExpKey)> {
        match self.allow.get(&k) {
            Some((m, e)) if !e.expired(h, t) => Some((m, *e)),
            _ => None,
        }
    }
}

/// What the public queries report.
#[derive(Clone, Debug, PartialEq, Eq, Default)]
pub struct Obs {
    pub admins: Vec<String>,
    pub mutable: bool,
    /// per actor: Allowance{spender} as a map (same-denomination coins summed, zero dropped) + expiry
    pub allow: Vec<(Amounts, ExpKey)>,
    /// per actor: Permissions{spender} as flags
    pub perms: Vec<u8>,
    /// fully paged AllAllowances: spender -> (map, expiry)
    pub listed: BTreeMap<String, (Amounts, ExpKey)>,
    pub listed_twice: bool,
    pub foreign_denom: bool,
}

#[derive(Clone)]
pub struct State {
    pub w: World,
    pub r: Ref,
    pub obs: Arc<Obs>,
    pub dead: bool,
}

pub struct Cw1Model {
    pub cfg: Cfg,
}

/// kind of a grant call
#[derive(Clone, Copy, Debug, PartialEq, Eq)]
pub enum GK {
    Inc,
    Dec,
    Perm,
}

/// what the dispatched self-addressed messages of one Execute amounted to
#[derive(Default)]
pub struct InnerOutcome {
    /// relayed UpdateAdmins / Freeze calls
    pub admin_ops: u32,
    /// first relayed admin-list change the proxy's own address was not entitled to
    pub forbidden: Option<String>,
    /// relayed grant calls: (subkey named, the proxy's address was a current admin, kind)
    pub grants: Vec<(u8, bool, GK)>,
}

pub fn perms_of(flags: u8) -> Permissions {
    Permissions {
        delegate: flags & P_DELEGATE != 0,
        redelegate: flags & P_REDELEGATE != 0,
        undelegate: flags & P_UNDELEGATE != 0,
        withdraw: flags & P_WITHDRAW != 0,
    }
}

pub fn flags_of(p: &Permissions) -> u8 {
    (p.delegate as u8) * P_DELEGATE
        + (p.redelegate as u8) * P_REDELEGATE
        + (p.undelegate as u8) * P_UNDELEGATE
        + (p.withdraw as u8) * P_WITHDRAW
}

fn amounts_of(b: &NativeBalance, foreign: &mut bool) -> Amounts {
    let mut m = Amounts::new();
    for c in &b.0 {
        match DENOMS.iter().position(|d| *d == c.denom) {
            Some(i) => {
                let e = m.entry(i as u8).or_insert(0u128);
                *e = e.saturating_add(c.amount.u128());
            }
            None => {
                if !c.amount.is_zero() {
                    *foreign = true
                }
            }
        }
    }
    m.retain(|_, v| *v != 0);
    m
}

fn fmt_amounts(m: &Amounts) -> String {
    let v: Vec<String> = m.iter().map(|(d, a)| format!("{}{}", a, DENOMS[*d as usize])).collect();
    format!("[{}]", v.join(","))
}

/// why a message list is not covered by the caller's grants (None = covered). Written from the
/// property text: admins may relay anything; otherwise every message must be a bank send within
/// the caller's unexpired allowance (cumulatively, per denomination) or a staking / distribution
/// message matching a permission flag.
pub fn not_covered(kind: Kind, r: &Ref, caller: u8, msgs: &[M], h: u64, t: u64) -> Option<(&'static str, String)> {
    if r.is_admin(caller) {
        return None;
    }
    if kind == Kind::Whitelist {
        return Some(("not_admin", "caller is not a current admin".into()));
    }
    let mut left: Option<Amounts> = None;
    let flags = r.perms.get(&caller).copied().unwrap_or(0);
    for (i, m) in msgs.iter().enumerate() {
        let need = match m {
            M::Send(coins) | M::SendSelf(coins) | M::SendTo(_, coins) => {
                match r.allow.get(&caller) {
                    None => return Some(("no_allowance", format!("message {i}: bank send but the caller has no allowance"))),
                    Some((am, e)) => {
                        if e.expired(h, t) {
                            return Some(("expired_allowance", format!("message {i}: bank send but the allowance expired ({e:?}) at height {h} time {t}")));
                        }
                        let left = left.get_or_insert_with(|| am.clone());
                        for (d, a) in coins {
                            let have = left.get(d).copied().unwrap_or(0);
                            if have < a.0 {
                                return Some((
                                    "exceeds_allowance",
                                    format!("message {i}: sends {}{} but only {} remain of the allowance {}", a.0, DENOMS[*d as usize], have, fmt_amounts(am)),
                                ));
                            }
                            left.insert(*d, have - a.0);
                        }
                    }
                }
                continue;
            }
            M::Delegate => P_DELEGATE,
            M::Undelegate => P_UNDELEGATE,
            M::Redelegate => P_REDELEGATE,
            M::SetWithdraw | M::Withdraw => P_WITHDRAW,
            other => {
                return Some(("kind_not_grantable", format!("message {i}: {} can only be relayed for an admin", other.kind())));
            }
        };
        if flags & need == 0 {
            return Some(("missing_permission", format!("message {i}: {} needs permission flag {need} but the caller has flags {flags}", m.kind())));
        }
    }
    None
}

impl Cw1Model {
    fn q<R: serde::de::DeserializeOwned>(&self, w: &World, m: &QueryMsg) -> Result<R, String> {
        w.query(&proxy_addr(), m)
    }

    pub fn observe(&self, w: &World) -> Result<Obs, String> {
        let cfg = &self.cfg;
        let al: AdminListResponse = self.q(w, &QueryMsg::AdminList {})?;
        let mut o = Obs {
            admins: al.admins,
            mutable: al.mutable,
            ..Default::default()
        };
        if cfg.kind == Kind::Whitelist {
            return Ok(o);
        }
        for i in 0..cfg.n_real() {
            let a: Allowance = self.q(w, &QueryMsg::Allowance { spender: cfg.addr(i) })?;
            o.allow.push((amounts_of(&a.balance, &mut o.foreign_denom), ExpKey::from(&a.expires)));
            let p: Permissions = self.q(w, &QueryMsg::Permissions { spender: cfg.addr(i) })?;
            o.perms.push(flags_of(&p));
        }
        let mut cursor: Option<String> = None;
        let mut guard = 0;
        loop {
            let page: AllAllowancesResponse = self.q(
                w,
                &QueryMsg::AllAllowances {
                    start_after: cursor.clone(),
                    limit: Some(30),
                },
            )?;
            let n = page.allowances.len();
            cursor = page.allowances.last().map(|a| a.spender.clone());
            for a in page.allowances {
                let v = (amounts_of(&a.balance, &mut o.foreign_denom), ExpKey::from(&a.expires));
                if o.listed.insert(a.spender, v).is_some() {
                    o.listed_twice = true;
                }
            }
            guard += 1;
            if n < 30 || guard > 20 {
                break;
            }
        }
        Ok(o)
    }

    fn cl(&self, s: &str) -> String {
        format!("{}.{}", self.cfg.prop, s)
    }

    /// state invariants: what the queries report equals what the reference says
    fn check_state(&self, h: u64, t: u64, r: &Ref, o: &Obs, out: &mut Vec<Violation>) {
        let cfg = &self.cfg;
        let want: BTreeSet<String> = r.admins.iter().map(|a| cfg.addr(*a)).collect();
        let got: BTreeSet<String> = o.admins.iter().cloned().collect();
        if want != got || o.mutable != r.mutable {
            out.push(Violation::new(
                &self.cl("admin_list_matches_reference"),
                format!(
                    "AdminList reports {:?} mutable={} but the reference has {:?} mutable={}",
                    o.admins.iter().map(|a| self.name_of(a)).collect::<Vec<_>>(),
                    o.mutable,
                    r.admins.iter().map(|a| cfg.label(*a)).collect::<Vec<_>>(),
                    r.mutable
                ),
            ));
        }
        if cfg.kind == Kind::Whitelist {
            return;
        }
        let empty = Amounts::new();
        let mut expect_listed: BTreeMap<String, (Amounts, ExpKey)> = BTreeMap::new();
        for k in 0..cfg.n_real() {
            let (wa, we) = match r.visible(k, h, t) {
                Some((m, e)) => (m, Some(e)),
                None => (&empty, None),
            };
            let (ga, ge) = &o.allow[k as usize];
            // the expiry of an allowance with nothing left is representation, not compared
            if ga != wa || (!ga.is_empty() && Some(*ge) != we) {
                out.push(Violation::new(
                    &self.cl("allowance_matches_reference"),
                    format!(
                        "Allowance of {} reads {} expiring {:?} at height {h} time {t}; the reference has {} expiring {:?}",
                        cfg.label(k),
                        fmt_amounts(ga),
                        ge,
                        fmt_amounts(wa),
                        we
                    ),
                ));
            }
            if !ga.is_empty() {
                expect_listed.insert(cfg.addr(k), (ga.clone(), *ge));
            }
            let wp = r.perms.get(&k).copied().unwrap_or(0);
            if o.perms[k as usize] != wp {
                out.push(Violation::new(
                    &self.cl("permissions_match_reference"),
                    format!("Permissions of {} read flags {} but the reference has {}", cfg.label(k), o.perms[k as usize], wp),
                ));
            }
        }
        let listed: BTreeMap<String, (Amounts, ExpKey)> =
            o.listed.iter().filter(|(_, v)| !v.0.is_empty()).map(|(k, v)| (k.clone(), v.clone())).collect();
        if listed != expect_listed || o.listed_twice {
            out.push(Violation::new(
                &self.cl("all_allowances_matches_allowance"),
                format!("AllAllowances lists {:?} (duplicate: {}) but the Allowance queries give {:?}", listed, o.listed_twice, expect_listed),
            ));
        }
        if o.foreign_denom {
            out.push(Violation::new(&self.cl("allowance_matches_reference"), "an allowance holds a denomination nobody granted".into()));
        }
        if cfg.monitors {
            for (k, d) in &r.relayed {
                let g = r.granted.get(k).copied().unwrap_or(0);
                if *d > g {
                    out.push(Violation::new(
                        "C08.relayed_le_granted",
                        format!("{} relayed {}{} in total but admins granted only {}", cfg.label(k.0), d, DENOMS[k.1 as usize], g),
                    ));
                }
            }
        }
    }

    fn name_of(&self, addr: &str) -> String {
        (0..self.cfg.actors.len() as u8)
            .find(|i| self.cfg.addr(*i) == addr)
            .map(|i| self.cfg.label(i).to_string())
            .unwrap_or_else(|| addr.to_string())
    }

    fn exec_msg(&self, a: &Act) -> Option<(u8, ExecuteMsg)> {
        let cfg = &self.cfg;
        Some(match a {
            Act::UpdateAdmins { by, admins } => (
                *by,
                ExecuteMsg::UpdateAdmins {
                    admins: admins.iter().map(|i| cfg.addr(*i)).collect(),
                },
            ),
            Act::Freeze { by } => (*by, ExecuteMsg::Freeze {}),
            Act::Inc { by, spender, denom, amt, exp, .. } => (
                *by,
                ExecuteMsg::IncreaseAllowance {
                    spender: cfg.addr(*spender),
                    amount: Coin {
                        denom: DENOMS[*denom as usize].into(),
                        amount: Uint128::new(amt.0),
                    },
                    expires: exp.to_opt(),
                },
            ),
            Act::Dec { by, spender, denom, amt, exp, .. } => (
                *by,
                ExecuteMsg::DecreaseAllowance {
                    spender: cfg.addr(*spender),
                    amount: Coin {
                        denom: DENOMS[*denom as usize].into(),
                        amount: Uint128::new(amt.0),
                    },
                    expires: exp.to_opt(),
                },
            ),
            Act::SetPerm { by, spender, flags, .. } => (
                *by,
                ExecuteMsg::SetPermissions {
                    spender: cfg.addr(*spender),
                    permissions: perms_of(*flags),
                },
            ),
            Act::Exec { by, msgs, .. } => (
                *by,
                ExecuteMsg::Execute {
                    msgs: msgs.iter().map(|m| to_cosmos(&cfg.actors, m)).collect(),
                },
            ),
            Act::Probe { .. } | Act::Advance | Act::Migrate | Act::MigrateOld { .. } => return None,
        })
    }

    /// the reference's reading of an accepted IncreaseAllowance
    #[allow(clippy::too_many_arguments)]
    fn ref_increase(&self, r: &mut Ref, spender: u8, denom: u8, amt: u128, given: Option<ExpKey>, h: u64, t: u64, obs: &Obs, desc: &str, v: &mut Vec<Violation>) {
        let shown_allow = obs.allow.get(spender as usize).cloned().unwrap_or((Amounts::new(), ExpKey::Never));
        let cur = r.allow.get(&spender).cloned();
        let (na, ne) = match cur {
            None => {
                let mut m = Amounts::new();
                m.insert(denom, amt);
                (m, given.unwrap_or(ExpKey::Never))
            }
            Some((mut m, e0)) if !e0.expired(h, t) => {
                let was_empty = m.is_empty();
                let c = m.get(&denom).copied().unwrap_or(0);
                match c.checked_add(amt) {
                    Some(n) => {
                        m.insert(denom, n);
                    }
                    None => {
                        v.push(Violation::new("C08.allowance_overflow_accepted", format!("{desc} accepted on top of {c}")));
                        m.insert(denom, u128::MAX);
                    }
                }
                let mut e = given.unwrap_or(e0);
                // an allowance with nothing left may or may not have been kept as an entry:
                // without a new expiry the increase keeps the old one or starts at "never"
                if given.is_none() && was_empty && shown_allow.1 == ExpKey::Never {
                    e = ExpKey::Never;
                }
                (m, e)
            }
            Some((m, e0)) => {
                // increase on an expired allowance: restart from zero or accumulate, the
                // property does not say; follow what the queries show
                let mut restart = Amounts::new();
                restart.insert(denom, amt);
                let mut accum = m.clone();
                let c = accum.get(&denom).copied().unwrap_or(0);
                accum.insert(denom, c.saturating_add(amt));
                let mut shown = shown_allow.0.clone();
                shown.retain(|_, x| *x != 0);
                let mut acc_n = accum.clone();
                acc_n.retain(|_, x| *x != 0);
                let chosen = if shown == acc_n { accum } else { restart };
                (chosen, given.unwrap_or(e0))
            }
        };
        if ne.expired(h, t) {
            v.push(Violation::new(
                "C08.increase_expiry_in_future",
                format!("{desc} accepted at height {h} time {t}: the allowance would carry the reached expiry {:?}", ne),
            ));
        }
        let mut na = na;
        na.retain(|_, x| *x != 0);
        r.allow.insert(spender, (na, ne));
    }

    /// index of the actor whose address is the proxy's own (present in the dispatching configurations)
    fn proxy_idx(&self) -> Option<u8> {
        self.cfg.actors.iter().position(|l| *l == "proxy").map(|i| i as u8)
    }

    /// A self-addressed message was relayed and executed (the whole transaction committed, so the
    /// inner call was accepted): its sender is the proxy's own address, which has exactly the
    /// rights the admin list gives that address. The reference follows; `io` records what the
    /// inner calls were entitled to.
    #[allow(clippy::too_many_arguments)]
    fn apply_inner(&self, r: &mut Ref, i: &Inner, h: u64, t: u64, obs: &Obs, io: &mut InnerOutcome, v: &mut Vec<Violation>) {
        let cfg = &self.cfg;
        let p = self.proxy_idx();
        let p_admin = p.map(|p| r.is_admin(p)).unwrap_or(false);
        let standing = format!(
            "the proxy's own address is {} and the contract is {}",
            if p_admin { "a current admin" } else { "not an admin" },
            if r.mutable { "mutable" } else { "frozen" }
        );
        match i {
            Inner::UpdateAdmins(list) => {
                io.admin_ops += 1;
                let before: BTreeSet<u8> = r.admins.iter().copied().collect();
                let after: BTreeSet<u8> = list.iter().copied().collect();
                if before != after && !(r.mutable && p_admin) && io.forbidden.is_none() {
                    io.forbidden = Some(format!("relayed UpdateAdmins{:?} took effect although {standing}", list.iter().map(|k| cfg.label(*k)).collect::<Vec<_>>()));
                }
                r.admins = list.clone();
            }
            Inner::Freeze => {
                io.admin_ops += 1;
                if r.mutable && !p_admin && io.forbidden.is_none() {
                    io.forbidden = Some(format!("relayed Freeze took effect although {standing}"));
                }
                r.mutable = false;
            }
            Inner::Inc { spender, denom, amt } => {
                io.grants.push((*spender, p_admin, GK::Inc));
                self.ref_increase(r, *spender, *denom, amt.0, None, h, t, obs, &format!("relayed {i:?}"), v);
            }
            Inner::SetPerm { spender, flags } => {
                io.grants.push((*spender, p_admin, GK::Perm));
                r.perms.insert(*spender, *flags);
            }
            Inner::Exec(msgs) => {
                let why = match p {
                    Some(p) => not_covered(cfg.kind, r, p, msgs, h, t),
                    None => Some(("not_admin", "the proxy's own address holds no rights".to_string())),
                };
                if let Some((why, detail)) = why {
                    v.push(Violation::new(
                        "C07.accepted_only_if_covered",
                        format!("nested Execute sent by the proxy to itself with {:?} accepted at height {h} time {t} but {detail} [{why}]", msgs),
                    ));
                }
                for m in msgs {
                    if let M::SelfCall(inner) = m {
                        self.apply_inner(r, inner, h, t, obs, io, v);
                    }
                }
            }
        }
    }

    /// C08 / C17 transition predicates on what the queries showed before and after an accepted call.
    /// `grants`: the grant calls contained in the step as (subkey named, sender was a current admin, kind).
    fn delta_checks(&self, a: &Act, rpre: &Ref, grants: &[(u8, bool, GK)], pre: &Obs, post: &Obs, v: &mut Vec<Violation>) {
        let cfg = &self.cfg;
        if cfg.kind == Kind::Whitelist {
            return;
        }
        let actor: u8 = match a {
            Act::Inc { by, .. } | Act::Dec { by, .. } | Act::SetPerm { by, .. } | Act::Exec { by, .. } | Act::UpdateAdmins { by, .. } | Act::Freeze { by } => *by,
            Act::Probe { .. } | Act::Advance | Act::Migrate | Act::MigrateOld { .. } => return,
        };
        let by_admin = rpre.is_admin(actor);
        // the calls that may alter grants: the action itself, or - for an Execute whose relayed
        // messages were dispatched - the inner calls, whose sender is the proxy's own address
        let is_exec = matches!(a, Act::Exec { .. });
        let admin_sender = if is_exec { grants.iter().any(|g| g.1) } else { by_admin };
        let who = format!(
            "{} ({}){}",
            cfg.label(actor),
            if by_admin { "admin" } else { "not an admin" },
            if is_exec && !grants.is_empty() {
                format!("; relayed grant calls (subkey, sender is admin, kind): {:?}", grants.iter().map(|g| (cfg.label(g.0), g.1, g.2)).collect::<Vec<_>>())
            } else {
                String::new()
            }
        );
        for k in 0..cfg.n_real() {
            let (pa, pe) = &pre.allow[k as usize];
            let (qa, qe) = &post.allow[k as usize];
            let amt = |m: &Amounts, d: u8| m.get(&d).copied().unwrap_or(0);
            let rose = (0..DENOMS.len() as u8).any(|d| amt(qa, d) > amt(pa, d));
            let fell = (0..DENOMS.len() as u8).any(|d| amt(qa, d) < amt(pa, d));
            let redated = !qa.is_empty() && !pa.is_empty() && pe != qe;
            let perm_changed = pre.perms[k as usize] != post.perms[k as usize];
            // the entry itself, as AllAllowances lists it (also when nothing is left in it): an entry
            // appears only by being created or re-dated, time only makes entries disappear
            let ka = cfg.addr(k);
            let (lp, lq) = (pre.listed.get(&ka), post.listed.get(&ka));
            let entry_created = lp.is_none() && lq.is_some();
            let entry_redated = matches!((lp, lq), (Some(x), Some(y)) if x.1 != y.1);
            if !(rose || fell || redated || perm_changed || entry_created || entry_redated) {
                continue;
            }
            let own_spend = is_exec && actor == k;
            let what = format!(
                "{}: {}allowance {} {:?} -> {} {:?}, permission flags {} -> {} in {:?} by {}",
                cfg.label(k),
                if entry_created || entry_redated { format!("AllAllowances entry {:?} -> {:?}, ", lp, lq) } else { String::new() },
                fmt_amounts(pa),
                pe,
                fmt_amounts(qa),
                qe,
                pre.perms[k as usize],
                post.perms[k as usize],
                a,
                who
            );
            // C08: a subkey's allowance and permissions move only by an admin's call naming it, or
            // (allowance, downwards) by its own spending; never through anybody else's activity
            let by_grant = grants.iter().any(|g| g.0 == k && g.1);
            let by_own_spending = own_spend && !rose && !redated && !perm_changed;
            if !by_grant && !by_own_spending {
                v.push(Violation::new("C08.changed_only_by_admin_grant_or_own_spending", what.clone()));
            }
            if rose && !grants.iter().any(|g| g.0 == k && g.1 && g.2 == GK::Inc) {
                v.push(Violation::new("C08.allowance_rises_only_by_admin_increase", what.clone()));
            }
            if fell && !(own_spend || grants.iter().any(|g| g.0 == k && g.1 && g.2 == GK::Dec)) {
                v.push(Violation::new("C08.allowance_falls_only_by_admin_decrease_or_own_spending", what.clone()));
            }
            if (rose || redated || entry_created || entry_redated) && !admin_sender {
                v.push(Violation::new("C17.allowance_created_or_raised_only_by_admin", what.clone()));
            }
            if fell && !own_spend && !admin_sender {
                v.push(Violation::new("C17.allowance_altered_only_by_admin", what.clone()));
            }
            if perm_changed && !admin_sender {
                v.push(Violation::new("C17.permissions_set_only_by_admin", what.clone()));
            }
        }
    }

    /// the funds variants offered for a grant call by `by` naming coin (d, a)
    fn grant_funds(&self, s: &State, by: u8, d: u8, a: u128) -> Vec<Vec<(u8, Amt)>> {
        let mut out = vec![];
        for gf in &self.cfg.grant_funds {
            match gf {
                GF::None => out.push(vec![]),
                _ if s.r.is_admin(by) => {}
                GF::Same => {
                    if a > 0 {
                        out.push(vec![(d, Amt(a))])
                    }
                }
                GF::Other => out.push(vec![(1 - d.min(1), Amt(1))]),
            }
        }
        out
    }

    fn filter(&self, v: &mut Vec<Violation>) {
        let p = format!("{}.", self.cfg.prop);
        v.retain(|x| x.clause.starts_with(&p));
    }
}

/// every IncreaseAllowance contained in self-addressed messages of a list, at any nesting depth
fn inner_incs(l: &[M], out: &mut Vec<(u8, u8, u128)>) {
    for m in l {
        match m {
            M::SelfCall(Inner::Inc { spender, denom, amt }) => out.push((*spender, *denom, amt.0)),
            M::SelfCall(Inner::Exec(inner)) => inner_incs(inner, out),
            _ => {}
        }
    }
}

fn label(a: &Act) -> String {
    match a {
        Act::UpdateAdmins { .. } => "UpdateAdmins".into(),
        Act::Freeze { .. } => "Freeze".into(),
        Act::Inc { .. } => "IncreaseAllowance".into(),
        Act::Dec { .. } => "DecreaseAllowance".into(),
        Act::SetPerm { .. } => "SetPermissions".into(),
        Act::Exec { msgs, .. } => match msgs.len() {
            0 => "Execute[]".into(),
            1 => format!("Execute[{}]", msgs[0].kind()),
            _ => "Execute[pair]".into(),
        },
        Act::Probe { msg, .. } => format!("CanExecute-vs-Execute[{}]", msg.kind()),
        Act::Advance => "AdvanceBlock".into(),
        Act::Migrate => "Migrate".into(),
        Act::MigrateOld { .. } => "MigrateFromOlderVersion".into(),
    }
}

impl Model for Cw1Model {
    type State = State;
    type Action = Act;

    fn name(&self) -> String {
        self.cfg.name.clone()
    }

    fn init(&self) -> (State, Vec<Violation>) {
        let cfg = &self.cfg;
        let mut w = World::new();
        w.height = H0;
        w.time_s = T0;
        w.dispatch = cfg.dispatch;
        let msg = InstantiateMsg {
            admins: cfg.init_admins.iter().map(|i| cfg.addr(*i)).collect(),
            mutable: cfg.init_mutable,
        };
        for i in 0..cfg.actors.len() as u8 {
            for d in DENOMS {
                w.set_balance(&cfg.addr(i), d, 1_000);
            }
        }
        let out = w.instantiate(vt(cfg.kind), &proxy_addr(), &mc::addr("creator"), &to_json_vec(&msg).unwrap(), &[]);
        if let Some(x) = cfg.wasm_admin {
            w.set_wasm_admin(&proxy_addr(), Some(&cfg.addr(x)));
        }
        let mut v = vec![];
        if !out.ok() {
            v.push(Violation::new(&self.cl("instantiate_failed"), out.err()));
            return (
                State {
                    w,
                    r: Ref::default(),
                    obs: Arc::new(Obs::default()),
                    dead: true,
                },
                v,
            );
        }
        let r = Ref {
            admins: cfg.init_admins.clone(),
            mutable: cfg.init_mutable,
            ..Default::default()
        };
        let obs = match self.observe(&w) {
            Ok(o) => o,
            Err(e) => {
                v.push(Violation::new(&self.cl("observe_failed"), e));
                return (State { w, r, obs: Arc::new(Obs::default()), dead: true }, v);
            }
        };
        self.check_state(w.height, w.time_s, &r, &obs, &mut v);
        (
            State {
                w,
                r,
                obs: Arc::new(obs),
                dead: false,
            },
            v,
        )
    }

    fn actions(&self, s: &State) -> Vec<Act> {
        let cfg = &self.cfg;
        let mut out = vec![];
        if s.dead {
            return out;
        }
        for &by in &cfg.admin_callers {
            for l in &cfg.admin_lists {
                out.push(Act::UpdateAdmins { by, admins: l.clone() });
            }
        }
        for &by in &cfg.freeze_callers {
            out.push(Act::Freeze { by });
        }
        if cfg.kind == Kind::Subkeys {
            for &by in &cfg.grant_callers {
                for tg in &cfg.targets {
                    for &d in &tg.denoms {
                        for &a in &cfg.inc_amounts {
                            if let Some(cap) = tg.cap {
                                let cur = s.r.allow.get(&tg.spender).and_then(|(m, _)| m.get(&d).copied()).unwrap_or(0);
                                if cur.checked_add(a).map(|x| x > cap).unwrap_or(true) {
                                    continue;
                                }
                            }
                            for (ei, &e) in cfg.inc_exps.iter().enumerate() {
                                for f in self.grant_funds(s, by, d, a) {
                                    // coins are attached with the first expiry of the alphabet only
                                    if !f.is_empty() && ei > 0 {
                                        continue;
                                    }
                                    out.push(Act::Inc { by, spender: tg.spender, denom: d, amt: Amt(a), exp: e, funds: f });
                                }
                            }
                        }
                        for &a in &cfg.dec_amounts {
                            for (ei, &e) in cfg.dec_exps.iter().enumerate() {
                                for f in self.grant_funds(s, by, d, a) {
                                    if !f.is_empty() && ei > 0 {
                                        continue;
                                    }
                                    out.push(Act::Dec { by, spender: tg.spender, denom: d, amt: Amt(a), exp: e, funds: f });
                                }
                            }
                        }
                    }
                }
            }
            for &by in &cfg.perm_callers {
                for (sp, sets) in &cfg.perm_targets {
                    for (fi, &f) in sets.iter().enumerate() {
                        for funds in self.grant_funds(s, by, 0, 1) {
                            if !funds.is_empty() && fi > 0 {
                                continue;
                            }
                            out.push(Act::SetPerm { by, spender: *sp, flags: f, funds });
                        }
                    }
                }
            }
        }
        for &by in &cfg.exec_callers {
            'lists: for l in &cfg.exec_lists {
                if cfg.dispatch {
                    // relayed increases obey the same grant cap as direct ones (closes the system)
                    let mut incs: Vec<(u8, u8, u128)> = vec![];
                    inner_incs(l, &mut incs);
                    let mut total: BTreeMap<(u8, u8), u128> = BTreeMap::new();
                    for (sp, d, a) in incs {
                        let e = total.entry((sp, d)).or_insert(0);
                        *e = e.saturating_add(a);
                    }
                    for ((sp, d), a) in total {
                        let cap = cfg.targets.iter().find(|t| t.spender == sp).and_then(|t| t.cap).unwrap_or(1);
                        let cur = s.r.allow.get(&sp).and_then(|(m, _)| m.get(&d).copied()).unwrap_or(0);
                        if cur.checked_add(a).map(|x| x > cap).unwrap_or(true) {
                            continue 'lists;
                        }
                    }
                }
                for f in &cfg.exec_funds {
                    if f.is_empty() || l.len() <= cfg.exec_funded_max_len {
                        out.push(Act::Exec { by, msgs: l.clone(), funds: f.clone() });
                    }
                }
            }
        }
        for &sender in &cfg.probe_senders {
            for m in &cfg.probe_msgs {
                out.push(Act::Probe { sender, msg: m.clone() });
            }
        }
        if s.w.height < cfg.hmax {
            out.push(Act::Advance);
        }
        if cfg.migrate_probe && vt(cfg.kind).migrate.is_some() {
            out.push(Act::Migrate);
            for i in 0..OLD_VERSIONS.len() as u8 {
                out.push(Act::MigrateOld { version: i });
            }
        }
        out
    }

    fn step(&self, s: &State, a: &Act) -> Step<State> {
        let cfg = &self.cfg;
        let mut v: Vec<Violation> = vec![];
        let lbl = label(a);
        let (h, t) = (s.w.height, s.w.time_s);
        let proxy = proxy_addr();
        match a {
            Act::Advance => {
                let mut w = s.w.clone();
                w.advance(1, DT);
                let obs = match self.observe(&w) {
                    Ok(o) => o,
                    Err(e) => {
                        v.push(Violation::new(&self.cl("observe_failed"), e));
                        (*s.obs).clone()
                    }
                };
                // time alone may only make allowances expire: the reference says which
                self.check_state(w.height, w.time_s, &s.r, &obs, &mut v);
                self.filter(&mut v);
                return Step {
                    next: State { w, r: s.r.clone(), obs: Arc::new(obs), dead: false },
                    label: lbl,
                    ok: true,
                    violations: v,
                };
            }
            Act::Probe { sender, msg } => {
                let cm = to_cosmos(&cfg.actors, msg);
                let said: Result<CanExecuteResponse, String> = self.q(
                    &s.w,
                    &QueryMsg::CanExecute {
                        sender: cfg.addr(*sender),
                        msg: cm.clone(),
                    },
                );
                let mut copy = s.w.clone();
                let out = copy.execute_json(&cfg.addr(*sender), &proxy, &ExecuteMsg::Execute { msgs: vec![cm] }, &[]);
                match said {
                    Err(e) => v.push(Violation::new("C16.can_execute_answers", format!("CanExecute for {} / {:?} failed: {e}", cfg.label(*sender), msg))),
                    Ok(r) => {
                        if r.can_execute != out.ok() {
                            v.push(Violation::new(
                                "C16.can_execute_equals_execute",
                                format!(
                                    "sender {} message {:?} at height {h} time {t}: CanExecute answers {} but Execute of just that message {}",
                                    cfg.label(*sender),
                                    msg,
                                    r.can_execute,
                                    if out.ok() { "succeeds".to_string() } else { format!("fails ({})", out.err()) }
                                ),
                            ));
                        }
                    }
                }
                self.filter(&mut v);
                return Step {
                    next: s.clone(),
                    label: lbl,
                    ok: out.ok(),
                    violations: v,
                };
            }
            Act::Migrate | Act::MigrateOld { .. } => {
                let mut w = s.w.clone();
                if let Act::MigrateOld { version } = a {
                    let inst = w.contracts.get_mut(&proxy).unwrap();
                    cw2::set_contract_version(&mut inst.store, "crates.io:cw1-subkeys", OLD_VERSIONS[*version as usize]).unwrap();
                }
                let out = w.migrate(&proxy, b"{}");
                if let (Act::MigrateOld { .. }, false) = (a, out.ok()) {
                    v.push(Violation::new(&self.cl("migrate_changes_nothing"), format!("{a:?}: migrate from an older version failed: {}", out.err())));
                }
                let store_same = w.contracts[&proxy].store == s.w.contracts[&proxy].store;
                let pre = &*s.obs;
                let obs: Arc<Obs> = if store_same {
                    s.obs.clone()
                } else {
                    match self.observe(&w) {
                        Ok(o) => Arc::new(o),
                        Err(e) => {
                            v.push(Violation::new(&self.cl("observe_failed"), e));
                            s.obs.clone()
                        }
                    }
                };
                if !out.ok() && !store_same && matches!(a, Act::Migrate) {
                    v.push(Violation::new(&self.cl("refused_call_changes_nothing"), format!("migrate failed ({}) but the state changed", out.err())));
                }
                if pre.admins != obs.admins || pre.mutable != obs.mutable {
                    v.push(Violation::new(
                        "C17.admin_list_changes_only_by_admin_while_mutable",
                        format!(
                            "Migrate (no admin's call; contract {}): AdminList {:?} mutable={} -> {:?} mutable={}",
                            if s.r.mutable { "mutable" } else { "frozen" },
                            pre.admins.iter().map(|x| self.name_of(x)).collect::<Vec<_>>(),
                            pre.mutable,
                            obs.admins.iter().map(|x| self.name_of(x)).collect::<Vec<_>>(),
                            obs.mutable
                        ),
                    ));
                }
                if pre.allow != obs.allow || pre.perms != obs.perms || pre.listed != obs.listed {
                    let d = format!(
                        "{a:?} (no admin's call) changed what the Allowance / AllAllowances / Permissions queries report: allowances {:?} -> {:?}, listing {:?} -> {:?}, permissions {:?} -> {:?}",
                        pre.allow, obs.allow, pre.listed, obs.listed, pre.perms, obs.perms
                    );
                    v.push(Violation::new("C17.allowance_altered_only_by_admin", d.clone()));
                    v.push(Violation::new("C08.changed_only_by_admin_grant_or_own_spending", d.clone()));
                    v.push(Violation::new("C07.migrate_changes_nothing", d.clone()));
                    v.push(Violation::new("C16.migrate_changes_nothing", d));
                }
                if !store_same {
                    // CanExecute must answer as before for every probed (sender, message)
                    for &sender in &cfg.probe_senders {
                        for m in &cfg.probe_msgs {
                            let qm = QueryMsg::CanExecute {
                                sender: cfg.addr(sender),
                                msg: to_cosmos(&cfg.actors, m),
                            };
                            let before: Result<CanExecuteResponse, String> = self.q(&s.w, &qm);
                            let after: Result<CanExecuteResponse, String> = self.q(&w, &qm);
                            if before.as_ref().map(|r| r.can_execute).ok() != after.as_ref().map(|r| r.can_execute).ok() {
                                v.push(Violation::new(
                                    &self.cl("migrate_changes_nothing"),
                                    format!("{a:?}: CanExecute for {} / {:?} answered {:?} before and {:?} after", cfg.label(sender), m, before.map(|r| r.can_execute), after.map(|r| r.can_execute)),
                                ));
                            }
                        }
                    }
                }
                self.check_state(h, t, &s.r, &obs, &mut v);
                self.filter(&mut v);
                return Step {
                    next: State { w, r: s.r.clone(), obs, dead: false },
                    label: lbl,
                    ok: out.ok(),
                    violations: v,
                };
            }
            _ => {}
        }
        let (by, msg) = self.exec_msg(a).unwrap();
        let mut w = s.w.clone();
        let funds: Vec<Coin> = match a {
            Act::Inc { funds, .. } | Act::Dec { funds, .. } | Act::SetPerm { funds, .. } | Act::Exec { funds, .. } => coins_of(funds),
            _ => vec![],
        };
        let out = w.execute_json(&cfg.addr(by), &proxy, &msg, &funds);
        // the bank is environment, not state: the contracts never look at balances, and every
        // caller is re-funded after each call so that attaching funds stays possible forever
        w.bank = s.w.bank.clone();
        let ok = out.ok();
        let store_same = w.contracts[&proxy].store == s.w.contracts[&proxy].store;
        if !ok {
            // the runtime reverts a failed call; the check is that the kernel really did
            if !store_same || out.top.is_some() {
                v.push(Violation::new(&self.cl("refused_call_changes_nothing"), format!("{a:?} failed ({}) but the state changed", out.err())));
            }
            self.filter(&mut v);
            return Step {
                next: State { w, r: s.r.clone(), obs: s.obs.clone(), dead: false },
                label: lbl,
                ok,
                violations: v,
            };
        }
        let pre = &*s.obs;
        let rpre = &s.r;
        let obs: Arc<Obs> = if store_same {
            s.obs.clone()
        } else {
            match self.observe(&w) {
                Ok(o) => Arc::new(o),
                Err(e) => {
                    v.push(Violation::new(&self.cl("observe_failed"), e));
                    s.obs.clone()
                }
            }
        };
        let mut r = s.r.clone();
        let by_admin = rpre.is_admin(by);
        let relayed = out.top.as_ref().map(|x| x.messages.clone()).unwrap_or_default();
        let mut io = InnerOutcome::default();
        let strict = cfg.prop == "C07";
        match a {
            Act::Inc { spender, .. } => io.grants.push((*spender, by_admin, GK::Inc)),
            Act::Dec { spender, .. } => io.grants.push((*spender, by_admin, GK::Dec)),
            Act::SetPerm { spender, .. } => io.grants.push((*spender, by_admin, GK::Perm)),
            _ => {}
        }
        match a {
            // C07 holds the relay against what current admins really granted: there the reference does
            // not follow a grant or admin-list call it forbids (the divergence is the violation)
            Act::UpdateAdmins { .. } | Act::Freeze { .. } if strict && !(rpre.mutable && by_admin) => {}
            Act::Inc { .. } | Act::Dec { .. } | Act::SetPerm { .. } if strict && !by_admin => {}
            Act::UpdateAdmins { admins, .. } => {
                r.admins = admins.clone();
                let want: BTreeSet<String> = admins.iter().map(|i| cfg.addr(*i)).collect();
                let got: BTreeSet<String> = obs.admins.iter().cloned().collect();
                if rpre.mutable && by_admin && want != got {
                    v.push(Violation::new(
                        "C17.update_admins_sets_submitted_list",
                        format!("{a:?} accepted; AdminList now {:?}", obs.admins.iter().map(|x| self.name_of(x)).collect::<Vec<_>>()),
                    ));
                }
            }
            Act::Freeze { .. } => {
                r.mutable = false;
            }
            Act::Inc { spender, denom, amt, exp, .. } => {
                self.ref_increase(&mut r, *spender, *denom, amt.0, exp.to_key(), h, t, &obs, &format!("{a:?}"), &mut v);
                if cfg.monitors && by_admin {
                    let g = r.granted.entry((*spender, *denom)).or_insert(0);
                    *g = g.saturating_add(amt.0);
                }
            }
            Act::Dec { spender, denom, amt, exp, .. } => {
                // an allowance whose deadline has passed is no allowance any more: there is nothing a
                // decrease could take from it, and winding it down does not make the deadline go away
                // (a later increase without a new expiry still has to be refused)
                let live = rpre.allow.get(spender).cloned().filter(|(_, e)| !e.expired(h, t));
                if let Some((mut m, e0)) = live {
                    let c = m.get(denom).copied().unwrap_or(0);
                    m.insert(*denom, c.saturating_sub(amt.0));
                    m.retain(|_, x| *x != 0);
                    let given = exp.to_key();
                    if m.is_empty() {
                        r.allow.remove(spender);
                    } else {
                        let ne = given.unwrap_or(e0);
                        if given.is_some() && ne.expired(h, t) {
                            v.push(Violation::new(
                                "C08.decrease_expiry_in_future",
                                format!("{a:?} accepted at height {h} time {t} with an expiry already reached"),
                            ));
                        }
                        r.allow.insert(*spender, (m, ne));
                    }
                }
            }
            Act::SetPerm { spender, flags, .. } => {
                r.perms.insert(*spender, *flags);
            }
            Act::Exec { msgs, .. } => {
                // C07: relayed == submitted, in order, fire-and-forget, nothing added
                let sent: Vec<CosmosMsg> = msgs.iter().map(|m| to_cosmos(&cfg.actors, m)).collect();
                let exact = relayed.len() == sent.len()
                    && relayed
                        .iter()
                        .zip(sent.iter())
                        .all(|(r, s)| r.msg == *s && r.reply_on == ReplyOn::Never && r.gas_limit.is_none());
                if !exact {
                    v.push(Violation::new(
                        "C07.relayed_equals_submitted",
                        format!(
                            "{a:?} by {}: submitted {:?} but Response.messages = {:?}",
                            cfg.label(by),
                            sent,
                            relayed.iter().map(|m| format!("{:?} reply_on={:?} gas_limit={:?}", m.msg, m.reply_on, m.gas_limit)).collect::<Vec<_>>()
                        ),
                    ));
                }
                // C07 / C08: accepted only if covered
                if let Some((why, detail)) = not_covered(cfg.kind, rpre, by, msgs, h, t) {
                    v.push(Violation::new(
                        "C07.accepted_only_if_covered",
                        format!("Execute by {} of {:?} accepted at height {h} time {t} but {detail} [{why}]", cfg.label(by), msgs),
                    ));
                    let c08 = match why {
                        "no_allowance" => Some("C08.spend_needs_allowance"),
                        "expired_allowance" => Some("C08.spend_fails_once_expired"),
                        "exceeds_allowance" => Some("C08.spend_within_allowance"),
                        _ => None,
                    };
                    if let Some(c) = c08 {
                        v.push(Violation::new(c, format!("Execute by {} of {:?} accepted at height {h} time {t} but {detail}", cfg.label(by), msgs)));
                    }
                }
                // C08: native tokens leave the proxy for a non-admin only as bank sends charged to its
                // allowance; a relayed burn is a spend no allowance accounts for
                if cfg.kind == Kind::Subkeys && !by_admin {
                    for (i, m) in msgs.iter().enumerate() {
                        if let M::Burn(coins) = m {
                            v.push(Violation::new(
                                "C08.relayed_tokens_are_charged_to_allowance",
                                format!(
                                    "Execute by {} of {:?} accepted at height {h} time {t}: message {i} burns {:?} of the proxy's tokens, which no allowance covers and nothing is deducted for",
                                    cfg.label(by),
                                    msgs,
                                    coins
                                ),
                            ));
                        }
                    }
                }
                // the ledger: a non-admin's sends come out of its allowance, coin by coin
                if cfg.kind == Kind::Subkeys && !by_admin {
                    for m in msgs {
                        if let M::Send(coins) | M::SendSelf(coins) | M::SendTo(_, coins) = m {
                            for (d, amt) in coins {
                                if let Some((am, _)) = r.allow.get_mut(&by) {
                                    let c = am.get(d).copied().unwrap_or(0);
                                    am.insert(*d, c.saturating_sub(amt.0));
                                    am.retain(|_, x| *x != 0);
                                }
                                if cfg.monitors {
                                    let x = r.relayed.entry((by, *d)).or_insert(0);
                                    *x = x.saturating_add(amt.0);
                                }
                            }
                        }
                    }
                }
            }
            Act::Probe { .. } | Act::Advance | Act::Migrate | Act::MigrateOld { .. } => unreachable!(),
        }
        if let (true, Act::Exec { msgs, .. }) = (cfg.dispatch, a) {
            // the relayed messages were executed: follow the self-addressed ones
            for m in msgs {
                if let M::SelfCall(inner) = m {
                    self.apply_inner(&mut r, inner, h, t, &obs, &mut io, &mut v);
                }
            }
        }
        if !matches!(a, Act::Exec { .. }) && !relayed.is_empty() {
            v.push(Violation::new("C07.nothing_relayed_outside_execute", format!("{a:?} emitted {} messages", relayed.len())));
        }
        // C17: the admin list and the frozen flag
        if pre.admins != obs.admins || pre.mutable != obs.mutable {
            let legit = match a {
                Act::UpdateAdmins { .. } => rpre.mutable && by_admin && obs.mutable == pre.mutable,
                Act::Freeze { .. } => rpre.mutable && by_admin && obs.admins == pre.admins && !obs.mutable,
                // relayed to the proxy itself: every change must have been within the rights of the proxy's own address
                Act::Exec { .. } => cfg.dispatch && io.admin_ops > 0 && io.forbidden.is_none(),
                _ => false,
            };
            if !legit {
                v.push(Violation::new(
                    "C17.admin_list_changes_only_by_admin_while_mutable",
                    format!(
                        "{a:?}{} by {} ({}, contract {}): AdminList {:?} mutable={} -> {:?} mutable={}",
                        io.forbidden.as_ref().map(|f| format!(" [{f}]")).unwrap_or_default(),
                        cfg.label(by),
                        if by_admin { "admin" } else { "not an admin" },
                        if rpre.mutable { "mutable" } else { "frozen" },
                        pre.admins.iter().map(|x| self.name_of(x)).collect::<Vec<_>>(),
                        pre.mutable,
                        obs.admins.iter().map(|x| self.name_of(x)).collect::<Vec<_>>(),
                        obs.mutable
                    ),
                ));
            }
        }
        if !store_same {
            self.delta_checks(a, rpre, &io.grants, pre, &obs, &mut v);
        }
        self.check_state(h, t, &r, &obs, &mut v);
        self.filter(&mut v);
        Step {
            next: State { w, r, obs, dead: false },
            label: lbl,
            ok,
            violations: v,
        }
    }

    fn fingerprint(&self, s: &State) -> u128 {
        fp128(&(&s.w, &s.r))
    }
}
