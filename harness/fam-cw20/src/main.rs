mod configs;
mod model;
use configs::configs;
use mc::report::{load_replay, run_replay};
use mc::{Bounds, Known, Report, RunStats};
use model::*;

fn describe(prop: &str) -> (&'static str, &'static str) {
    match prop {
        "C01" => (
            "Transfer/Send/Burn/Mint/Increase/DecreaseAllowance/TransferFrom/SendFrom/BurnFrom/UpdateMinter by every actor to every recipient (self-transfers included), amounts {0,1,2,3} (+5 for mint) in closed configs and {0,1,2^128-2,2^128-1} in edge configs; instantiate messages with repeated accounts (also with empty rows, and one account in two bech32 spellings), u128 overflow; the token contract itself as recipient / owner; the marketing entry points; the chain-level admin as a stranger; 33 accounts carried through a migration from every old cw2 version (incl. two pre-release tags)",
            "state: TokenInfo.total_supply == sum of Balance over all paged AllAccounts, no unlisted holder; transition: mint/burn change supply and exactly one balance by exactly the amount, every other accepted or refused call leaves supply unchanged; lock-step reference ledger in checked arithmetic",
        ),
        "C02" => (
            "Transfer/Send/Burn by holders and strangers, Increase/DecreaseAllowance with every expiry kind (none, never, height/time already expired, +1, +2 blocks), TransferFrom/SendFrom/BurnFrom by every spender naming every owner, AdvanceBlock across every expiry; both orders of the reduce-vs-spend race from every reachable allowance; the receiving contract holding an allowance of its own; mints, minter changes and marketing calls; a migration from every old layout in the middle of any history",
            "reference ledger of balances and (amount, expiry) allowances stepped on accepted calls: an accepted call the reference forbids (no/expired/insufficient allowance, insufficient funds, self-allowance, expired expiry) is a violation; balances fall only for the caller or the named owner of an authorised draw; allowances change only by owner increase/decrease or spender draw; Send/SendFrom emit exactly one Cw20ReceiveMsg with the true initiator, amount and payload; cumulative drawn <= granted monitor",
        ),
        "C13" => (
            "Mint by initial minter, later minters, former minters, strangers and the chain-level admin with amounts {0,1,2,3,2^128-1}; Burn; Transfer; UpdateMinter{None|each} by everyone; the holder calling the *From entry points on itself; a minter that grants an allowance; caps 0, 2..4, 1000 and 2^128-1; 33 holders under a cap through every migration",
            "reference {minter, cap fixed at instantiation}: supply rises only in an accepted Mint by the reference minter, supply <= cap in every state, Minter query == (reference minter, original cap), UpdateMinter accepted only from the reference minter, nothing accepted once the minter is None",
        ),
        "C19" => (
            "Increase/DecreaseAllowance (to exactly zero, above, below; expiries), TransferFrom/SendFrom/BurnFrom (to exactly zero) among owners and spenders incl. mutual ones, AdvanceBlock; at every reachable state: migrate from a pre-0.14 layout (spender index wiped, cw2 version 0.13.4 / 0.13.0 / 0.12.1 / 0.10.3 / 0.9.1 / 0.2.3 / 0.10.0-soon4 / 0.6.0-beta3; optionally a legacy self-approval row) and same-version migrate; tables of 36 rows (3 owners x 12 spenders) and of one owner with 33 spenders; mutual grants; Burn/Transfer/Send/Mint/UpdateMinter/marketing calls by owners",
            "for every ordered pair: Allowance{o,s}, the entry for s in the fully paged AllAllowances{o} and the entry for o in the fully paged AllSpenderAllowances{s} carry the same amount and expiry; a pair absent from one listing is absent from the other and reads (0, never), the pair (X, X) included; a listing resumed from any actor address shows exactly the rows after it; migration leaves every query unchanged",
        ),
        _ => ("", ""),
    }
}

fn run(prop: &str, tier: &str) -> i32 {
    let thorough = tier == "thorough";
    let cfgs = configs(prop, thorough);
    if cfgs.is_empty() {
        eprintln!("fam-cw20 does not serve {prop}");
        return 2;
    }
    let known = Known::load(prop);
    let mut rep = Report::new(prop, tier, "cw20");
    let (alpha, oracle) = describe(prop);
    rep.alphabet = alpha.into();
    rep.oracle = oracle.into();
    rep.bounds = "closed configurations run to fixpoint (driver closes the system: finite supply, capped grants, capped clock); edge/monitor configurations to the stated depth; state cap 6e6 / time cap per configuration".into();
    rep.assumptions = vec![
        "single-contract runtime: each call is an atomic transaction on the real cw20-base entry points (a panic is a failed transaction)".into(),
        "amount alphabet is {0..3} plus boundary values, not all of u128".into(),
        "addresses are MockApi bech32 addresses".into(),
    ];
    let seed = mc::report::seed();
    let runs: Vec<RunStats> = mc::run_pooled(cfgs.len(), |i| {
        let (c, d) = &cfgs[i];
        let m = Cw20Model { cfg: c.clone() };
        let b = Bounds {
            max_depth: *d,
            max_states: 6_000_000,
            max_secs: if thorough { 1500.0 } else { 100.0 },
        };
        mc::bfs(&m, &b, &known, seed)
    });
    rep.runs = runs;
    rep.finish()
}

fn main() {
    mc::world::guarded_main(|| {
    let a = mc::parse_args();
    let code = if a.cmd == "replay" {
        let rf = load_replay(a.path.as_deref().unwrap_or(""));
        let all: Vec<(Cfg, Option<usize>)> = configs(&rf.property, true)
            .into_iter()
            .chain(configs(&rf.property, false))
            .collect();
        match all.into_iter().find(|(c, _)| c.name == rf.config) {
            Some((c, _)) => run_replay(&Cw20Model { cfg: c }, &rf),
            None => {
                eprintln!("machinery error: unknown config {}", rf.config);
                2
            }
        }
    } else {
        run(&a.cmd, &a.tier)
    };
    code
    })
}
