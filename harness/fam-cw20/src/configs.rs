//! configuration matrices per property and tier
use super::model::*;

const MAX: u128 = u128::MAX;

fn kinds(l: &[&'static str]) -> std::collections::BTreeSet<&'static str> {
    l.iter().copied().collect()
}

const ALL_KINDS: [&str; 10] = [
    "Transfer", "Send", "Burn", "Mint", "Inc", "Dec", "TransferFrom", "SendFrom", "BurnFrom", "UpdateMinter",
];

/// (configuration, depth bound) pairs for a property and tier
pub fn configs(prop: &str, thorough: bool) -> Vec<(Cfg, Option<usize>)> {
    let mut out: Vec<(Cfg, Option<usize>)> = vec![];
    match prop {
        "C01" => {
            let p = Props { c01: true, ..Default::default() };
            // closed systems (capped supply, capped grants): fixpoint
            let mints: Vec<(&str, Option<(u8, Option<u128>)>, Option<u128>)> = vec![
                ("nomint", None, None),
                ("cap4", Some((3, Some(4))), None),
                ("cap=initial", Some((3, Some(3))), None),
                ("uncapped", Some((3, None)), Some(4)),
            ];
            let inits: Vec<(&str, Vec<(u8, u128)>)> = vec![
                ("A3", vec![(0, 3)]),
                ("A2B1", vec![(0, 2), (1, 1)]),
                ("empty", vec![]),
            ];
            for (mn, mint, scap) in &mints {
                for (inn, init) in &inits {
                    if *mn == "cap=initial" && *inn == "empty" {
                        continue;
                    }
                    if !thorough && (*inn == "A3" && *mn != "cap4") {
                        continue;
                    }
                    let mut c = Cfg::base(&format!("C01/closed/{inn}/{mn}"));
                    c.props = p.clone();
                    c.initial = init.clone();
                    c.mint = *mint;
                    c.supply_cap = *scap;
                    c.senders = vec![0, 1, 2];
                    c.recipients = vec![0, 1, 2];
                    c.owners = if thorough { vec![0, 1] } else { vec![0] };
                    c.spenders = vec![1, 2];
                    c.minters = vec![3, 0];
                    c.mint_to = if thorough { vec![0, 2, 3] } else if *mn == "cap4" { vec![0, 3] } else { vec![0, 2] };
                    c.amounts = vec![0, 1, 2, 3];
                    c.mint_amounts = vec![0, 1, 2, 5];
                    c.grant_cap = Some(if thorough { 3 } else { 2 });
                    c.kinds = kinds(&ALL_KINDS);
                    // C is also the chain-level migration admin of the token: no rights over anybody's tokens
                    c.wasm_admin = Some(2);
                    // an upgrade must not move balances or the supply either
                    c.migrate_probe = *mn == "cap4";
                    out.push((c, None));
                }
            }
            // unusual instantiate messages: repeated accounts (whether refused or merged, the supply must equal the
            // sum of the listed balances afterwards) and sums beyond u128 (which no supply can represent: refused)
            for (n, init, mint) in [
                ("dup", vec![(0u8, 1u128), (0, 1)], None),
                ("dup3", vec![(0, 1), (1, 1), (0, 2)], None),
                // a repeated account whose other row is empty (placeholder rows emitted by tooling)
                ("dup-zero-later", vec![(0, 2), (0, 0)], None),
                ("dup-zero-first", vec![(0, 0), (0, 2)], None),
                ("dup3-zero-later", vec![(0, 2), (1, 3), (0, 0)], None),
                ("dup-both-zero", vec![(0, 0), (1, 1), (0, 0)], None),
                ("overflow", vec![(0, MAX), (1, 1)], None),
                ("overflow2", vec![(0, MAX - 1), (1, 1), (2, 1)], Some((3u8, None))),
            ] {
                let mut c = Cfg::base(&format!("C01/instantiate/{n}"));
                c.props = p.clone();
                c.initial = init;
                c.mint = mint;
                c.inst_must_fail = n.starts_with("overflow");
                out.push((c, Some(0)));
            }
            // the minter is itself a genesis holder, rows given in ascending, descending and mixed label order
            for (n, init) in [
                ("asc", vec![(0u8, 1u128), (1, 2), (2, 3)]),
                ("desc", vec![(2, 3), (1, 2), (0, 1)]),
                ("mixed", vec![(1, 2), (2, 3), (0, 1)]),
            ] {
                for m in [0u8, 1, 2] {
                    let mut c = Cfg::base(&format!("C01/instantiate/minter-is-genesis-holder/{n}/minter-{m}"));
                    c.actors = vec!["A", "B", "C"];
                    c.props = p.clone();
                    c.initial = init.clone();
                    c.mint = Some((m, None));
                    out.push((c, Some(0)));
                }
            }
            // one account named twice in two spellings (bech32 is case-insensitive as a whole): accepted only
            // if it ends up as one account whose balance the supply counts once
            for (n, init) in [
                ("A,^A", vec![(0u8, 2u128), (2, 1)]),
                ("A,B,^A-zero", vec![(0, 2), (1, 1), (2, 0)]),
            ] {
                let mut c = Cfg::base(&format!("C01/instantiate/case-variant/{n}"));
                c.actors = vec!["A", "B", "^A"];
                c.props = p.clone();
                c.initial = init;
                out.push((c, Some(0)));
            }
            // the token contract's own address as recipient, owner and burner
            {
                let mut c = Cfg::base("C01/closed/token-itself-as-recipient");
                c.actors = vec!["A", "B", "token"];
                c.props = p.clone();
                c.initial = vec![(0, 2), (2, 1)];
                c.mint = Some((1, Some(4)));
                c.senders = vec![0, 2];
                c.recipients = vec![1, 2];
                c.owners = vec![0];
                c.spenders = vec![1];
                c.minters = vec![1];
                c.mint_to = vec![2];
                c.amounts = vec![0, 1, 2];
                c.mint_amounts = vec![1];
                c.grant_cap = Some(2);
                c.kinds = kinds(&["Transfer", "Send", "Burn", "Mint", "Inc", "TransferFrom", "SendFrom", "BurnFrom", "Marketing"]);
                c.marketing = Some(0);
                out.push((c, None));
            }
            // many accounts carried through an upgrade from every pre-0.14 layout (batch boundaries at 10, 30)
            {
                let names: Vec<&'static str> = vec![
                    "U00", "U01", "U02", "U03", "U04", "U05", "U06", "U07", "U08", "U09", "U10", "U11", "U12", "U13", "U14", "U15", "U16",
                    "U17", "U18", "U19", "U20", "U21", "U22", "U23", "U24", "U25", "U26", "U27", "U28", "U29", "U30", "U31", "U32",
                ];
                let mut c = Cfg::base("C01/upgrade/33-accounts");
                c.props = p.clone();
                c.actors = names.clone();
                c.initial = (0..33u8).map(|i| (i, 1 + (i as u128 % 3))).collect();
                c.mint = Some((0, None));
                c.senders = vec![0];
                c.recipients = vec![1];
                c.amounts = vec![1];
                c.kinds = kinds(&["Transfer"]);
                c.owners = vec![];
                c.spenders = vec![];
                c.migrate_probe = true;
                out.push((c, Some(2)));
            }
            // boundary amounts: depth-bounded
            for (n, init, mint) in [
                ("Amax", vec![(0u8, MAX)], Some((3u8, None))),
                ("Amax-1,B1", vec![(0, MAX - 1), (1, 1)], Some((3, None))),
                ("Amax-2", vec![(0, MAX - 2)], Some((3, Some(MAX)))),
            ] {
                let mut c = Cfg::base(&format!("C01/edge/{n}"));
                c.props = p.clone();
                c.initial = init;
                c.mint = mint;
                c.senders = vec![0, 1];
                c.recipients = vec![0, 1];
                c.owners = vec![0];
                c.spenders = vec![1];
                c.minters = vec![3];
                c.mint_to = vec![0, 1];
                c.amounts = vec![0, 1, MAX - 1, MAX];
                c.mint_amounts = vec![0, 1, 2, MAX];
                c.grant_cap = None;
                c.kinds = kinds(&ALL_KINDS);
                out.push((c, Some(if thorough { 5 } else { 3 })));
            }
        }
        "C02" => {
            let p = Props { c02: true, ..Default::default() };
            let exps = vec![
                ExpA::Unset,
                ExpA::Never,
                ExpA::H(H0),
                ExpA::H(H0 + 1),
                ExpA::H(H0 + 2),
                ExpA::T(T0),
                ExpA::T(T0 + DT),
            ];
            // actors: A(owner) B S1 S2 R(receiver contract address)
            let actors = vec!["A", "B", "S1", "S2", "R"];
            let mk = |name: &str| {
                let mut c = Cfg::base(name);
                c.actors = actors.clone();
                c.props = p.clone();
                c.kinds = kinds(&["Transfer", "Send", "Burn", "Inc", "Dec", "TransferFrom", "SendFrom", "BurnFrom"]);
                c.hmax = H0 + 3;
                c
            };
            {
                // closed: one owner, two spenders, all expiry kinds, every block up to past every expiry
                let mut c = mk("C02/closed/owner-A/S1,S2");
                c.initial = vec![(0, 3)];
                c.senders = vec![0, 2];
                c.recipients = vec![1, 4];
                c.owners = vec![0];
                c.spenders = vec![2, 3];
                c.amounts = vec![0, 1, 2, 3];
                c.exps = if thorough { exps.clone() } else { vec![ExpA::Unset, ExpA::H(H0), ExpA::H(H0 + 2), ExpA::T(T0 + DT)] };
                c.payloads = vec![0, 1];
                c.migrate_probe = true;
                c.grant_cap = Some(if thorough { 3 } else { 2 });
                c.hmax = if thorough { H0 + 3 } else { H0 + 2 };
                out.push((c, None));
            }
            {
                // two owners that are also each other's spenders (A<->B), stranger S1 tries everything
                let mut c = mk("C02/closed/A<->B");
                // the stranger S1 is the chain-level migration admin of the token
                c.wasm_admin = Some(2);
                c.initial = vec![(0, 2), (1, 1)];
                c.senders = vec![0, 1, 2];
                c.recipients = vec![0, 2];
                c.owners = vec![0, 1];
                c.spenders = vec![0, 1, 2];
                c.amounts = vec![0, 1, 2];
                c.exps = vec![ExpA::Unset, ExpA::H(H0 + 1)];
                c.grant_cap = Some(2);
                c.hmax = H0 + 1;
                c.kinds = kinds(&["Transfer", "Burn", "Inc", "Dec", "TransferFrom", "BurnFrom"]);
                if !thorough {
                    c.initial = vec![(0, 1), (1, 1)];
                    c.amounts = vec![0, 1];
                    c.owners = vec![0, 1];
                    c.spenders = vec![0, 1, 2];
                    c.senders = vec![0, 1];
                    c.grant_cap = Some(1);
                }
                out.push((c, None));
            }
            {
                // the spender pulls tokens into ITSELF (SendFrom with contract == spender) and owners send to themselves
                let mut c = mk("C02/closed/self-pull");
                c.initial = vec![(0, 2)];
                c.senders = vec![0];
                c.recipients = vec![0, 2];
                c.owners = vec![0];
                c.spenders = vec![2];
                c.amounts = vec![0, 1, 2];
                c.exps = vec![ExpA::Unset];
                c.payloads = vec![0, 1];
                c.grant_cap = Some(2);
                c.hmax = H0;
                c.kinds = kinds(&["Send", "Inc", "TransferFrom", "SendFrom"]);
                out.push((c, None));
            }
            {
                // the RECEIVING contract R holds an allowance of its own; a caller without any allowance (S2) names R
                // as the contract of a SendFrom, and R pulls into itself
                let mut c = mk("C02/closed/receiver-holds-allowance");
                c.initial = vec![(0, 2)];
                c.senders = vec![0];
                c.recipients = vec![4, 1];
                c.owners = vec![0];
                c.spenders = vec![4, 3];
                c.amounts = vec![1, 2];
                c.exps = vec![ExpA::Unset];
                c.payloads = vec![0];
                c.grant_cap = Some(2);
                c.hmax = H0;
                c.kinds = kinds(&["Inc", "Dec", "TransferFrom", "SendFrom", "BurnFrom"]);
                out.push((c, None));
            }
            {
                // entry points that are not about moving one's own tokens: mints, minter changes, marketing calls,
                // and the token contract itself as recipient — nobody's balance may fall through them
                let mut c = mk("C02/closed/other-entry-points");
                c.actors = vec!["A", "B", "S1", "token"];
                c.initial = vec![(0, 2)];
                c.mint = Some((1, Some(3)));
                c.marketing = Some(1);
                c.senders = vec![0];
                c.recipients = vec![2, 3];
                c.owners = vec![0];
                c.spenders = vec![2];
                c.minters = vec![1, 2];
                c.mint_to = vec![0, 3];
                c.amounts = vec![1, 2];
                c.mint_amounts = vec![1];
                c.exps = vec![ExpA::Unset];
                c.grant_cap = Some(2);
                c.hmax = H0;
                c.kinds = kinds(&["Transfer", "Inc", "TransferFrom", "Mint", "UpdateMinter", "Marketing"]);
                out.push((c, None));
            }
            {
                // cumulative monitor (history in state): depth-bounded
                let mut c = mk("C02/monitor/granted-vs-drawn");
                c.initial = vec![(0, 3)];
                c.senders = vec![0];
                c.recipients = vec![1];
                c.owners = vec![0];
                c.spenders = vec![2];
                c.amounts = vec![1, 2];
                c.exps = vec![ExpA::Unset, ExpA::H(H0 + 1)];
                c.grant_cap = None;
                c.monitors = true;
                c.hmax = H0 + 2;
                c.kinds = kinds(&["Transfer", "Inc", "Dec", "TransferFrom", "BurnFrom", "SendFrom"]);
                out.push((c, Some(if thorough { 8 } else { 6 })));
            }
            {
                // boundary amounts
                let mut c = mk("C02/edge/u128");
                c.initial = vec![(0, MAX)];
                c.senders = vec![0, 2];
                c.recipients = vec![1];
                c.owners = vec![0];
                c.spenders = vec![2];
                c.amounts = vec![0, 1, MAX - 1, MAX];
                c.exps = vec![ExpA::Unset, ExpA::H(H0 + 1)];
                c.grant_cap = None;
                c.hmax = H0 + 1;
                out.push((c, Some(if thorough { 5 } else { 4 })));
            }
        }
        "C13" => {
            let p = Props { c13: true, ..Default::default() };
            // actors: M1 M2 M3 X A
            let actors = vec!["M1", "M2", "M3", "X", "A"];
            for (n, init, mint, scap, must_fail) in [
                ("nominter", vec![(4u8, 2u128)], None, None, false),
                ("uncapped", vec![(4, 2)], Some((0u8, None)), Some(5u128), false),
                ("cap=initial", vec![(4, 2)], Some((0, Some(2u128))), None, false),
                ("cap=initial+2", vec![(4, 2)], Some((0, Some(4))), None, false),
                ("cap0-empty", vec![], Some((0, Some(0))), None, false),
                ("cap<initial", vec![(4, 2)], Some((0, Some(1))), None, true),
                ("cap<sum-of-two", vec![(4, 2), (3, 2)], Some((0, Some(3))), None, true),
                ("cap<sum-of-three", vec![(4, 1), (3, 1), (1, 1)], Some((0, Some(2))), None, true),
                ("capmax", vec![(4, MAX - 1)], Some((0, Some(MAX))), None, false),
                // thorough only: more room under the cap (6 units) with the minter itself a genesis holder
                ("cap9-two-holders-minter-holds", vec![(4, 2), (0, 1)], Some((0, Some(9))), None, false),
            ] {
                if !thorough && n == "cap9-two-holders-minter-holds" {
                    continue;
                }
                let mut c = Cfg::base(&format!("C13/{n}"));
                c.actors = actors.clone();
                c.props = p.clone();
                c.initial = init;
                c.mint = mint;
                c.supply_cap = scap;
                c.inst_must_fail = must_fail;
                c.senders = vec![4, 0];
                c.recipients = vec![0, 4];
                c.minters = if thorough { vec![0, 1, 2, 3] } else { vec![0, 1, 3] };
                // X is the chain-level migration admin of the token: no authority over the minter role
                c.wasm_admin = Some(3);
                c.mint_to = vec![4, 0];
                c.amounts = vec![1, 2];
                c.mint_amounts = if n == "capmax" { vec![0, 1, 2, MAX] } else { vec![0, 1, 2, 3, MAX] };
                c.kinds = kinds(&["Mint", "Burn", "UpdateMinter", "Transfer"]);
                if n == "cap=initial+2" || n == "cap=initial" {
                    // burns through an allowance re-open room under the cap exactly once
                    c.kinds = kinds(&["Mint", "Burn", "UpdateMinter", "Transfer", "Inc", "BurnFrom", "TransferFrom"]);
                    c.owners = vec![4];
                    // the holder itself also tries the *From calls on its own account (nobody can grant themselves)
                    c.spenders = vec![0, 4];
                    c.grant_cap = Some(2);
                }
                if n == "cap=initial+2" {
                    c.marketing = Some(1);
                    c.kinds.insert("Marketing");
                }
                // upgrades must not touch the minter or the cap: migrate from every old layout at every state
                c.migrate_probe = true;
                let depth = if n == "capmax" { Some(if thorough { 5 } else { 3 }) } else { None };
                out.push((c, if must_fail { Some(0) } else { depth }));
            }
            // a cap of 1000 (percentages of the cap are whole numbers): the supply must stop at the cap exactly
            {
                let mut c = Cfg::base("C13/cap1000-near-the-cap");
                c.actors = actors.clone();
                c.props = p.clone();
                c.initial = vec![(4, 995)];
                c.mint = Some((0, Some(1000)));
                c.senders = vec![4];
                c.recipients = vec![0];
                c.minters = vec![0, 3];
                c.mint_to = vec![4];
                c.amounts = vec![1];
                c.mint_amounts = vec![1, 5, 6, 10, 15];
                c.kinds = kinds(&["Mint", "Burn", "UpdateMinter"]);
                c.wasm_admin = Some(3);
                out.push((c, None));
            }
            // initial balances whose sum does not fit into u128 under a cap of u128::MAX
            {
                let mut c = Cfg::base("C13/instantiate/sum-beyond-u128-under-cap-max");
                c.actors = actors.clone();
                c.props = p.clone();
                c.initial = vec![(4, MAX - 5), (3, 10)];
                c.mint = Some((0, Some(MAX)));
                c.minters = vec![0];
                c.mint_to = vec![4];
                c.mint_amounts = vec![1];
                c.senders = vec![4];
                c.recipients = vec![0];
                c.amounts = vec![1];
                c.kinds = kinds(&["Mint", "Burn"]);
                out.push((c, Some(2)));
            }
            // the minter approves a spender on its OWN holdings: that is no licence to mint
            {
                let mut c = Cfg::base("C13/minter-grants-an-allowance");
                c.actors = actors.clone();
                c.props = p.clone();
                c.initial = vec![(0, 2)];
                c.mint = Some((0, Some(4)));
                c.minters = vec![0, 3];
                c.mint_to = vec![3, 4];
                c.mint_amounts = vec![1, 2];
                c.owners = vec![0];
                c.spenders = vec![3];
                c.recipients = vec![4];
                c.amounts = vec![1, 2];
                c.grant_cap = Some(2);
                c.kinds = kinds(&["Mint", "Inc", "TransferFrom", "BurnFrom"]);
                out.push((c, None));
            }
            // a capped token with more holders than one page (30) carried through an upgrade from every old
            // layout: supply, cap and the room left under the cap must survive
            {
                let names: Vec<&'static str> = vec![
                    "M1", "X", "U02", "U03", "U04", "U05", "U06", "U07", "U08", "U09", "U10", "U11", "U12", "U13", "U14", "U15", "U16",
                    "U17", "U18", "U19", "U20", "U21", "U22", "U23", "U24", "U25", "U26", "U27", "U28", "U29", "U30", "U31", "U32",
                ];
                let mut c = Cfg::base("C13/upgrade/33-holders-capped");
                c.props = p.clone();
                c.actors = names;
                c.initial = (0..33u8).map(|i| (i, 1 + (i as u128 % 2))).collect();
                let total: u128 = c.initial.iter().map(|x| x.1).sum();
                c.mint = Some((0, Some(total + 1)));
                c.minters = vec![0, 1];
                c.mint_to = vec![1];
                c.mint_amounts = vec![1, 2];
                c.kinds = kinds(&["Mint"]);
                c.migrate_probe = true;
                out.push((c, Some(3)));
            }
        }
        "C19" => {
            let p = Props { c19: true, ..Default::default() };
            let actors = vec!["A", "B", "S1", "S2"];
            {
                let mut c = Cfg::base("C19/closed/A,B->B,S1(+migrate at every state)");
                c.wasm_admin = Some(2);
                c.actors = actors.clone();
                c.props = p.clone();
                c.initial = vec![(0, 2), (1, 2)];
                c.senders = vec![];
                c.recipients = vec![3];
                c.owners = vec![0, 1];
                c.spenders = vec![1, 2];
                c.amounts = vec![0, 1, 2];
                c.exps = vec![ExpA::Unset, ExpA::Never, ExpA::H(H0 + 1), ExpA::T(T0 + 2 * DT)];
                c.grant_cap = Some(2);
                c.hmax = H0 + 2;
                c.kinds = kinds(&["Inc", "Dec", "TransferFrom", "SendFrom", "BurnFrom"]);
                c.migrate_probe = true;
                if !thorough {
                    c.exps = vec![ExpA::Unset, ExpA::H(H0 + 1)];
                    c.hmax = H0 + 1;
                }
                out.push((c, None));
            }
            {
                // mutual grants (A->B and B->A) through every migration
                let mut c = Cfg::base("C19/closed/mutual-grants");
                c.actors = vec!["A", "B", "S1"];
                c.props = p.clone();
                c.initial = vec![(0, 1), (1, 1)];
                c.recipients = vec![2];
                c.owners = vec![0, 1];
                c.spenders = vec![0, 1];
                c.amounts = vec![1, 2];
                c.exps = vec![ExpA::Unset];
                c.grant_cap = Some(2);
                c.hmax = H0;
                c.kinds = kinds(&["Inc", "Dec", "TransferFrom"]);
                c.migrate_probe = true;
                out.push((c, None));
            }
            {
                // an owner that grants before ever holding a token (no balance record), carried through migration
                let mut c = Cfg::base("C19/closed/owner-without-balance-record");
                c.actors = actors.clone();
                c.props = p.clone();
                c.initial = vec![(0, 1)];
                c.senders = vec![0];
                c.recipients = vec![1, 3];
                c.owners = vec![0, 1];
                c.spenders = vec![2];
                c.amounts = vec![0, 1];
                c.exps = vec![ExpA::Unset, ExpA::H(H0 + 1)];
                c.grant_cap = Some(1);
                c.hmax = H0 + 1;
                c.kinds = kinds(&["Transfer", "Inc", "Dec", "TransferFrom", "BurnFrom"]);
                c.migrate_probe = true;
                out.push((c, None));
            }
            {
                // a large pre-0.14 allowance table carried through migration: 3 owners x 12 spenders, so that
                // owners straddle the 10th, 30th (default / maximum page size) entry in key order
                let names: Vec<&'static str> = vec![
                    "O0", "O1", "O2", "P00", "P01", "P02", "P03", "P04", "P05", "P06", "P07", "P08", "P09", "P10", "P11",
                ];
                let mut c = Cfg::base("C19/upgrade/36-allowances");
                c.legacy_self_row = true;
                c.actors = names;
                c.props = p.clone();
                c.initial = vec![(0, 2), (1, 2), (2, 2)];
                c.pre_allow = (0..3u8).flat_map(|o| (3..15u8).map(move |sp| (o, sp, 1 + (sp as u128 % 2)))).collect();
                c.owners = vec![1, 0];
                c.spenders = vec![3, 0];
                c.recipients = vec![0];
                c.amounts = vec![1];
                c.exps = vec![ExpA::Unset];
                c.grant_cap = Some(4);
                c.kinds = kinds(&["TransferFrom"]);
                c.migrate_probe = true;
                out.push((c, Some(2)));
            }
            {
                // one owner with more allowance rows than the largest page (30), migrated from every old layout
                let names: Vec<&'static str> = vec![
                    "O0", "O1", "P00", "P01", "P02", "P03", "P04", "P05", "P06", "P07", "P08", "P09", "P10", "P11", "P12", "P13", "P14", "P15",
                    "P16", "P17", "P18", "P19", "P20", "P21", "P22", "P23", "P24", "P25", "P26", "P27", "P28", "P29", "P30", "P31", "P32",
                ];
                let mut c = Cfg::base("C19/upgrade/one-owner-33-spenders");
                c.actors = names;
                c.props = p.clone();
                c.initial = vec![(0, 2), (1, 2)];
                c.pre_allow = (2..35u8).map(|sp| (0u8, sp, 1 + (sp as u128 % 2))).chain([(1u8, 2u8, 1u128)]).collect();
                c.owners = vec![0];
                c.spenders = vec![34];
                c.recipients = vec![1];
                c.amounts = vec![1];
                c.exps = vec![ExpA::Unset];
                c.grant_cap = Some(4);
                c.kinds = kinds(&["TransferFrom"]);
                c.migrate_probe = true;
                out.push((c, Some(2)));
            }
            {
                // entry points that are not about allowances (burning or sending away the whole balance, mints,
                // minter changes) must leave all three views alone and in agreement
                let mut c = Cfg::base("C19/closed/other-entry-points");
                c.actors = vec!["A", "B", "S1", "token"];
                c.props = p.clone();
                c.initial = vec![(0, 2), (1, 1)];
                c.mint = Some((1, Some(4)));
                c.senders = vec![0, 1];
                c.recipients = vec![1, 2, 3];
                c.owners = vec![0, 1];
                c.spenders = vec![2, 0];
                c.minters = vec![1, 2];
                c.mint_to = vec![0];
                c.amounts = vec![1, 2];
                c.mint_amounts = vec![1];
                c.exps = vec![ExpA::Unset, ExpA::H(H0 + 1)];
                c.grant_cap = Some(2);
                c.hmax = H0 + 1;
                c.kinds = kinds(&["Inc", "Transfer", "Send", "Burn", "Mint", "UpdateMinter", "TransferFrom", "BurnFrom", "Marketing"]);
                c.marketing = Some(1);
                if !thorough {
                    c.senders = vec![0];
                    c.recipients = vec![1, 3];
                    c.owners = vec![0];
                    c.spenders = vec![2];
                    c.minters = vec![1];
                    c.kinds = kinds(&["Inc", "Transfer", "Send", "Burn", "Mint", "TransferFrom", "BurnFrom", "Marketing"]);
                }
                out.push((c, None));
            }
            if thorough {
                let mut c = Cfg::base("C19/closed/4-actors-all-pairs");
                c.actors = actors.clone();
                c.props = p.clone();
                c.initial = vec![(0, 1), (1, 1)];
                c.recipients = vec![3];
                c.owners = vec![0, 1];
                c.spenders = vec![0, 1, 2, 3];
                c.amounts = vec![1];
                c.exps = vec![ExpA::Unset, ExpA::H(H0 + 1)];
                c.grant_cap = Some(1);
                c.hmax = H0 + 1;
                c.kinds = kinds(&["Inc", "Dec", "TransferFrom", "BurnFrom"]);
                c.migrate_probe = true;
                out.push((c, None));
            }
        }
        _ => {}
    }
    out
}

