//! cw20-base under exhaustive exploration: alphabet, reference ledger and oracles for C01, C02, C13, C19.
use cosmwasm_std::{to_json_vec, Binary, CosmosMsg, ReplyOn, Timestamp, Uint128, WasmMsg};
use cw20::{
    AllAccountsResponse, AllAllowancesResponse, AllSpenderAllowancesResponse, AllowanceResponse,
    BalanceResponse, Cw20Coin, Cw20ExecuteMsg, MinterResponse, TokenInfoResponse,
};
use cw20_base::msg::{InstantiateMsg, QueryMsg};
use cw_utils::Expiration;
use mc::world::{ContractVt, World};
use mc::{fp128, Model, Step, Violation};
use serde::{Deserialize, Serialize};
use std::collections::{BTreeMap, BTreeSet};
use std::sync::{Arc, OnceLock};

pub const H0: u64 = 10;
pub const T0: u64 = 1000;
pub const DT: u64 = 5;

pub fn vt() -> &'static ContractVt {
    static VT: OnceLock<ContractVt> = OnceLock::new();
    VT.get_or_init(|| {
        let mut v = mc::contract_vt!(
            "cw20-base",
            cw20_base::contract,
            cw20_base::msg::InstantiateMsg,
            cw20_base::msg::ExecuteMsg,
            cw20_base::msg::QueryMsg
        );
        fn mig(
            d: cosmwasm_std::DepsMut,
            e: cosmwasm_std::Env,
            m: &[u8],
        ) -> Result<cosmwasm_std::Response, String> {
            let msg: cw20_base::msg::MigrateMsg =
                cosmwasm_std::from_json(m).map_err(|e| e.to_string())?;
            cw20_base::contract::migrate(d, e, msg).map_err(|e| e.to_string())
        }
        v.migrate = Some(mig);
        v
    })
}

/// u128 amount that serialises as a decimal string (serde_json values cannot hold u128)
#[derive(Clone, Copy, Debug, PartialEq, Eq, Hash, PartialOrd, Ord)]
pub struct Amt(pub u128);
impl Serialize for Amt {
    fn serialize<S: serde::Serializer>(&self, s: S) -> Result<S::Ok, S::Error> {
        s.serialize_str(&self.0.to_string())
    }
}
impl<'de> Deserialize<'de> for Amt {
    fn deserialize<D: serde::Deserializer<'de>>(d: D) -> Result<Self, D::Error> {
        let s = String::deserialize(d)?;
        s.parse::<u128>().map(Amt).map_err(serde::de::Error::custom)
    }
}

#[derive(Clone, Copy, Debug, Serialize, Deserialize, PartialEq, Eq, Hash, PartialOrd, Ord)]
pub enum ExpA {
    Unset,
    Never,
    H(u64),
    T(u64),
}

impl ExpA {
    pub fn to_opt(self) -> Option<Expiration> {
        match self {
            ExpA::Unset => None,
            ExpA::Never => Some(Expiration::Never {}),
            ExpA::H(h) => Some(Expiration::AtHeight(h)),
            ExpA::T(t) => Some(Expiration::AtTime(Timestamp::from_seconds(t))),
        }
    }
}

pub fn expired(e: &Expiration, height: u64, time_s: u64) -> bool {
    match e {
        Expiration::AtHeight(h) => height >= *h,
        Expiration::AtTime(t) => Timestamp::from_seconds(time_s) >= *t,
        Expiration::Never {} => false,
    }
}

#[derive(Clone, Debug, Serialize, Deserialize)]
pub enum Act {
    Transfer { from: u8, to: u8, amt: Amt },
    Send { from: u8, to: u8, amt: Amt, payload: u8 },
    Burn { from: u8, amt: Amt },
    Mint { by: u8, to: u8, amt: Amt },
    Inc { owner: u8, spender: u8, amt: Amt, exp: ExpA },
    Dec { owner: u8, spender: u8, amt: Amt, exp: ExpA },
    TransferFrom { by: u8, owner: u8, to: u8, amt: Amt },
    SendFrom { by: u8, owner: u8, to: u8, amt: Amt, payload: u8 },
    BurnFrom { by: u8, owner: u8, amt: Amt },
    UpdateMinter { by: u8, new: Option<u8> },
    Advance,
    /// copy the token into a pre-0.14 layout (no spender listing, older cw2 version) and run `migrate`
    MigrateOld { version: u8 },
    /// run `migrate` on the current (already new) layout: must be a no-op
    MigrateSame,
    /// the marketing entry points (0: UpdateMarketing{project}, 1: UploadLogo(url), 2: UpdateMarketing{marketing: caller}):
    /// nothing in the ledger may move
    Marketing { by: u8, kind: u8 },
}

/// final releases and two of the pre-release tags cw-plus published (semver orders them below their release)
pub const OLD_VERSIONS: [&str; 8] = ["0.13.4", "0.12.1", "0.10.3", "0.9.1", "0.2.3", "0.13.0", "0.10.0-soon4", "0.6.0-beta3"];

#[derive(Clone, Debug, Default)]
pub struct Props {
    pub c01: bool,
    pub c02: bool,
    pub c13: bool,
    pub c19: bool,
}

#[derive(Clone, Debug)]
pub struct Cfg {
    pub name: String,
    pub actors: Vec<&'static str>,
    pub initial: Vec<(u8, u128)>,
    pub mint: Option<(u8, Option<u128>)>,
    /// None = instantiation may go either way; Some(false) = it must be refused
    pub inst_must_fail: bool,
    pub props: Props,
    pub hmax: u64,
    /// driver closure: increases are only offered while the allowance stays within this
    pub grant_cap: Option<u128>,
    /// driver closure for uncapped tokens: mints only offered while supply stays within this
    pub supply_cap: Option<u128>,
    /// track cumulative granted/drawn (history in state: depth-bounded runs only)
    pub monitors: bool,
    pub senders: Vec<u8>,
    pub recipients: Vec<u8>,
    pub owners: Vec<u8>,
    pub spenders: Vec<u8>,
    pub minters: Vec<u8>,
    pub mint_to: Vec<u8>,
    pub amounts: Vec<u128>,
    pub mint_amounts: Vec<u128>,
    pub exps: Vec<ExpA>,
    pub payloads: Vec<u8>,
    pub kinds: BTreeSet<&'static str>,
    pub migrate_probe: bool,
    /// allowances granted (IncreaseAllowance by the owner, real entry point) before exploration starts:
    /// large tables for upgrade configurations
    pub pre_allow: Vec<(u8, u8, u128)>,
    /// marketing admin named at instantiation (enables the "Marketing" action kind)
    pub marketing: Option<u8>,
    /// chain-level (migration) admin of the token contract: has no authority inside the contract
    pub wasm_admin: Option<u8>,
    /// the pre-0.14 table handed to `migrate` also holds a row (X, X) for actor 0 (old releases did not refuse
    /// self-approvals): it must come out of the migration in all three views like any other row
    pub legacy_self_row: bool,
}

impl Cfg {
    pub fn base(name: &str) -> Cfg {
        Cfg {
            name: name.to_string(),
            actors: vec!["A", "B", "C", "M"],
            initial: vec![],
            mint: None,
            inst_must_fail: false,
            props: Props::default(),
            hmax: H0,
            grant_cap: Some(3),
            supply_cap: None,
            monitors: false,
            senders: vec![],
            recipients: vec![],
            owners: vec![],
            spenders: vec![],
            minters: vec![],
            mint_to: vec![],
            amounts: vec![0, 1, 2, 3],
            mint_amounts: vec![],
            exps: vec![ExpA::Unset],
            payloads: vec![0],
            kinds: BTreeSet::new(),
            migrate_probe: false,
            pre_allow: vec![],
            marketing: None,
            wasm_admin: None,
            legacy_self_row: false,
        }
    }
    /// An actor named "^X" is the same account as X spelled in upper case (bech32 allows both cases);
    /// an actor named "token" is the token contract itself.
    pub fn addr(&self, i: u8) -> String {
        let n = self.actors[i as usize];
        match n.strip_prefix('^') {
            Some(base) => mc::world::addr_cached(base).to_uppercase(),
            None => mc::world::addr_cached(n),
        }
    }
    /// index of the account an actor label denotes (differs from `i` only for "^X" aliases)
    pub fn canon(&self, i: u8) -> u8 {
        match self.actors[i as usize].strip_prefix('^') {
            Some(base) => self.actors.iter().position(|a| *a == base).map(|p| p as u8).unwrap_or(i),
            None => i,
        }
    }
    pub fn is_alias(&self, i: u8) -> bool {
        self.actors[i as usize].starts_with('^')
    }
}

pub const TOKEN: &str = "token";
pub fn token_addr() -> String {
    mc::world::addr_cached(TOKEN)
}

#[derive(Clone, Debug, PartialEq, Eq, Hash, Default)]
pub struct Ref {
    pub supply: u128,
    pub bal: BTreeMap<u8, u128>,
    /// (owner, spender) -> (amount, expiry). Absent = nothing granted.
    pub allow: BTreeMap<(u8, u8), (u128, ExpKey)>,
    pub minter: Option<u8>,
    pub cap: Option<u128>,
    pub granted: BTreeMap<(u8, u8), u128>,
    pub drawn: BTreeMap<(u8, u8), u128>,
}

/// hashable mirror of Expiration
#[derive(Clone, Copy, Debug, PartialEq, Eq, Hash, PartialOrd, Ord)]
pub enum ExpKey {
    Never,
    H(u64),
    T(u64),
}
impl ExpKey {
    pub fn from(e: &Expiration) -> ExpKey {
        match e {
            Expiration::Never {} => ExpKey::Never,
            Expiration::AtHeight(h) => ExpKey::H(*h),
            Expiration::AtTime(t) => ExpKey::T(t.seconds()),
        }
    }
    pub fn expired(&self, h: u64, t: u64) -> bool {
        match self {
            ExpKey::Never => false,
            ExpKey::H(x) => h >= *x,
            ExpKey::T(x) => t >= *x,
        }
    }
}

/// What the public queries report.
#[derive(Clone, Debug, PartialEq, Eq, Default)]
pub struct Obs {
    pub supply: u128,
    pub accounts: Vec<String>,
    /// balances of every listed account and of every actor
    pub bal: BTreeMap<String, u128>,
    pub minter: Option<(String, Option<u128>)>,
    pub allow: BTreeMap<(u8, u8), (u128, ExpKey)>,
}

#[derive(Clone)]
pub struct State {
    pub w: World,
    pub r: Ref,
    pub obs: Arc<Obs>,
    pub dead: bool,
}

pub struct Cw20Model {
    pub cfg: Cfg,
}

fn q<R: serde::de::DeserializeOwned>(w: &World, m: &QueryMsg) -> Result<R, String> {
    w.query(&token_addr(), m)
}

impl Cw20Model {
    pub fn observe(&self, w: &World) -> Result<Obs, String> {
        let cfg = &self.cfg;
        let ti: TokenInfoResponse = q(w, &QueryMsg::TokenInfo {})?;
        let mut accounts: Vec<String> = vec![];
        let mut cursor: Option<String> = None;
        // C01 walks the listing the way a client with a small page size does (a page that comes back
        // empty ends the walk), other properties only need the set of accounts
        let page_limit = if cfg.props.c01 { 2 } else { 30 };
        loop {
            let page: AllAccountsResponse = q(
                w,
                &QueryMsg::AllAccounts {
                    start_after: cursor.clone(),
                    limit: Some(page_limit),
                },
            )?;
            if page.accounts.is_empty() {
                break;
            }
            cursor = page.accounts.last().cloned();
            accounts.extend(page.accounts);
            if accounts.len() > 1000 {
                return Err("AllAccounts does not terminate".into());
            }
        }
        let mut bal = BTreeMap::new();
        let mut addrs: BTreeSet<String> = accounts.iter().cloned().collect();
        for i in 0..cfg.actors.len() {
            if !cfg.is_alias(i as u8) {
                addrs.insert(cfg.addr(i as u8));
            }
        }
        for a in addrs {
            let b: BalanceResponse = q(w, &QueryMsg::Balance { address: a.clone() })?;
            bal.insert(a, b.balance.u128());
        }
        let m: Option<MinterResponse> = q(w, &QueryMsg::Minter {})?;
        let mut allow = BTreeMap::new();
        if cfg.props.c02 || cfg.props.c19 || !cfg.owners.is_empty() {
            let n = cfg.actors.len() as u8;
            for o in 0..n {
                for s in 0..n {
                    // the pair (X, X) is observed too: nobody can grant themselves an allowance, so it must read
                    // (0, never) and appear in no listing
                    let a: AllowanceResponse = q(
                        w,
                        &QueryMsg::Allowance {
                            owner: cfg.addr(o),
                            spender: cfg.addr(s),
                        },
                    )?;
                    allow.insert((o, s), (a.allowance.u128(), ExpKey::from(&a.expires)));
                }
            }
        }
        Ok(Obs {
            supply: ti.total_supply.u128(),
            accounts,
            bal,
            minter: m.map(|m| (m.minter, m.cap.map(|c| c.u128()))),
            allow,
        })
    }

    fn idx_of(&self, addr: &str) -> Option<u8> {
        (0..self.cfg.actors.len() as u8).find(|i| self.cfg.addr(*i) == addr)
    }

    /// state invariants evaluated through queries
    fn check_state(&self, w: &World, r: &Ref, o: &Obs, out: &mut Vec<Violation>) {
        let cfg = &self.cfg;
        self.check_sum(o, out);
        self.check_rest(w, r, o, out);
    }

    /// C01's state invariant, from observations alone (no reference needed)
    fn check_sum(&self, o: &Obs, out: &mut Vec<Violation>) {
        let cfg = &self.cfg;
        if cfg.props.c01 {
            // sum in 256 bits: use checked u128 and flag overflow as a violation of its own
            let mut sum: Option<u128> = Some(0);
            for a in &o.accounts {
                sum = sum.and_then(|s| s.checked_add(o.bal[a]));
            }
            if sum != Some(o.supply) {
                out.push(Violation::new(
                    "C01.supply_eq_sum",
                    format!("total_supply={} but sum of listed balances={:?}", o.supply, sum),
                ));
            }
            // no unlisted actor may hold tokens
            for (a, b) in &o.bal {
                if *b > 0 && !o.accounts.contains(a) {
                    out.push(Violation::new(
                        "C01.unlisted_holder",
                        format!("{a} holds {b} but is not listed by AllAccounts"),
                    ));
                }
            }
            let mut seen = BTreeSet::new();
            for a in &o.accounts {
                if !seen.insert(a) {
                    out.push(Violation::new("C01.account_listed_twice", a.clone()));
                }
            }
        }
    }

    fn check_rest(&self, w: &World, r: &Ref, o: &Obs, out: &mut Vec<Violation>) {
        let cfg = &self.cfg;
        if cfg.props.c01 || cfg.props.c02 || cfg.props.c13 {
            // conformance with the reference ledger
            if o.supply != r.supply {
                out.push(Violation::new(
                    "ref.supply",
                    format!("supply {} reference {}", o.supply, r.supply),
                ));
            }
            for i in 0..cfg.actors.len() as u8 {
                if cfg.is_alias(i) {
                    continue;
                }
                let have = o.bal[&cfg.addr(i)];
                let want = r.bal.get(&i).copied().unwrap_or(0);
                if have != want {
                    out.push(Violation::new(
                        "ref.balance",
                        format!("balance of {} is {} reference {}", cfg.actors[i as usize], have, want),
                    ));
                }
            }
        }
        if cfg.props.c02 {
            for ((ow, sp), (amt, exp)) in &o.allow {
                let (ramt, rexp) = r.allow.get(&(*ow, *sp)).copied().unwrap_or((0, ExpKey::Never));
                if *amt != ramt || (*amt > 0 && *exp != rexp) {
                    out.push(Violation::new(
                        "C02.allowance_matches_reference",
                        format!(
                            "allowance {}->{} is ({},{:?}) reference ({},{:?})",
                            cfg.actors[*ow as usize], cfg.actors[*sp as usize], amt, exp, ramt, rexp
                        ),
                    ));
                }
            }
            if cfg.monitors {
                for (k, d) in &r.drawn {
                    let g = r.granted.get(k).copied().unwrap_or(0);
                    if *d > g {
                        out.push(Violation::new(
                            "C02.cumulative_draw_le_granted",
                            format!("pair {:?} drawn {} granted {}", k, d, g),
                        ));
                    }
                }
            }
        }
        if cfg.props.c13 {
            if let Some(cap) = r.cap {
                if o.supply > cap {
                    out.push(Violation::new(
                        "C13.supply_le_cap",
                        format!("supply {} exceeds the cap {} fixed at instantiation", o.supply, cap),
                    ));
                }
            }
            let want = r.minter.map(|m| (cfg.addr(m), r.cap));
            if o.minter != want {
                out.push(Violation::new(
                    "C13.minter_query",
                    format!("Minter query {:?} reference {:?}", o.minter, want),
                ));
            }
        }
        if cfg.props.c19 {
            self.check_views(w, o, out);
        }
    }

    /// C19: the three allowance views agree for every (owner, spender) pair of the actor set
    fn check_views(&self, w: &World, o: &Obs, out: &mut Vec<Violation>) {
        let cfg = &self.cfg;
        let n = cfg.actors.len() as u8;
        let mut by_owner: BTreeMap<(u8, u8), (u128, ExpKey)> = BTreeMap::new();
        let mut by_spender: BTreeMap<(u8, u8), (u128, ExpKey)> = BTreeMap::new();
        for x in 0..n {
            // owner listing, fully paged
            let mut cursor: Option<String> = None;
            let mut guard = 0;
            loop {
                let page: Result<AllAllowancesResponse, String> = q(
                    w,
                    &QueryMsg::AllAllowances {
                        owner: cfg.addr(x),
                        start_after: cursor.clone(),
                        limit: Some(30),
                    },
                );
                let page = match page {
                    Ok(p) => p,
                    Err(e) => {
                        out.push(Violation::new("C19.listing_fails", e));
                        break;
                    }
                };
                if page.allowances.is_empty() {
                    break;
                }
                cursor = page.allowances.last().map(|a| a.spender.clone());
                for a in page.allowances {
                    match self.idx_of(&a.spender) {
                        Some(s) => {
                            if by_owner
                                .insert((x, s), (a.allowance.u128(), ExpKey::from(&a.expires)))
                                .is_some()
                            {
                                out.push(Violation::new("C19.duplicate_in_owner_listing", format!("{:?}", (x, s))));
                            }
                        }
                        None => out.push(Violation::new("C19.unknown_spender_listed", a.spender)),
                    }
                }
                guard += 1;
                if guard > 50 {
                    out.push(Violation::new("C19.listing_does_not_terminate", String::new()));
                    break;
                }
            }
            let mut cursor: Option<String> = None;
            let mut guard = 0;
            loop {
                let page: Result<AllSpenderAllowancesResponse, String> = q(
                    w,
                    &QueryMsg::AllSpenderAllowances {
                        spender: cfg.addr(x),
                        start_after: cursor.clone(),
                        limit: Some(30),
                    },
                );
                let page = match page {
                    Ok(p) => p,
                    Err(e) => {
                        out.push(Violation::new("C19.listing_fails", e));
                        break;
                    }
                };
                if page.allowances.is_empty() {
                    break;
                }
                cursor = page.allowances.last().map(|a| a.owner.clone());
                for a in page.allowances {
                    match self.idx_of(&a.owner) {
                        Some(ow) => {
                            if by_spender
                                .insert((ow, x), (a.allowance.u128(), ExpKey::from(&a.expires)))
                                .is_some()
                            {
                                out.push(Violation::new("C19.duplicate_in_spender_listing", format!("{:?}", (ow, x))));
                            }
                        }
                        None => out.push(Violation::new("C19.unknown_owner_listed", a.owner)),
                    }
                }
                guard += 1;
                if guard > 50 {
                    out.push(Violation::new("C19.listing_does_not_terminate", String::new()));
                    break;
                }
            }
        }
        // a listing resumed from ANY address (a row or not) shows exactly the rows that sort after it
        let addrs: Vec<String> = (0..n).map(|i| cfg.addr(i)).collect();
        for x in 0..n {
            for c in 0..n {
                let want_o: Vec<(String, u128)> = {
                    let mut v: Vec<(String, u128)> = by_owner.iter().filter(|((ow, sp), _)| *ow == x && addrs[*sp as usize] > addrs[c as usize]).map(|((_, sp), (a, _))| (addrs[*sp as usize].clone(), *a)).collect();
                    v.sort();
                    v.truncate(30);
                    v
                };
                if let Ok(page) = q::<AllAllowancesResponse>(w, &QueryMsg::AllAllowances { owner: addrs[x as usize].clone(), start_after: Some(addrs[c as usize].clone()), limit: Some(30) }) {
                    let got: Vec<(String, u128)> = page.allowances.iter().map(|a| (a.spender.clone(), a.allowance.u128())).collect();
                    if got != want_o {
                        out.push(Violation::new("C19.owner_listing_from_cursor", format!("AllAllowances{{owner {}, start_after {}}} = {:?}, the full listing has {:?} after it", cfg.actors[x as usize], cfg.actors[c as usize], got, want_o)));
                    }
                }
                let want_s: Vec<(String, u128)> = {
                    let mut v: Vec<(String, u128)> = by_spender.iter().filter(|((ow, sp), _)| *sp == x && addrs[*ow as usize] > addrs[c as usize]).map(|((ow, _), (a, _))| (addrs[*ow as usize].clone(), *a)).collect();
                    v.sort();
                    v.truncate(30);
                    v
                };
                if let Ok(page) = q::<AllSpenderAllowancesResponse>(w, &QueryMsg::AllSpenderAllowances { spender: addrs[x as usize].clone(), start_after: Some(addrs[c as usize].clone()), limit: Some(30) }) {
                    let got: Vec<(String, u128)> = page.allowances.iter().map(|a| (a.owner.clone(), a.allowance.u128())).collect();
                    if got != want_s {
                        out.push(Violation::new("C19.spender_listing_from_cursor", format!("AllSpenderAllowances{{spender {}, start_after {}}} = {:?}, the full listing has {:?} after it", cfg.actors[x as usize], cfg.actors[c as usize], got, want_s)));
                    }
                }
            }
        }
        for ow in 0..n {
            for sp in 0..n {
                let single = o.allow.get(&(ow, sp)).copied().unwrap_or((0, ExpKey::Never));
                let a = by_owner.get(&(ow, sp)).copied();
                let b = by_spender.get(&(ow, sp)).copied();
                let name = format!("{}->{}", cfg.actors[ow as usize], cfg.actors[sp as usize]);
                if a != b {
                    out.push(Violation::new(
                        "C19.owner_listing_eq_spender_listing",
                        format!("{name}: owner listing {:?} spender listing {:?}", a, b),
                    ));
                }
                match a {
                    Some(v) => {
                        if v != single {
                            out.push(Violation::new(
                                "C19.listing_eq_single_query",
                                format!("{name}: owner listing {:?} Allowance query {:?}", v, single),
                            ));
                        }
                    }
                    None => {
                        if single != (0, ExpKey::Never) {
                            out.push(Violation::new(
                                "C19.missing_pair_reads_zero",
                                format!("{name}: absent from listings but Allowance query {:?}", single),
                            ));
                        }
                    }
                }
                if let Some(v) = b {
                    if v != single {
                        out.push(Violation::new(
                            "C19.listing_eq_single_query",
                            format!("{name}: spender listing {:?} Allowance query {:?}", v, single),
                        ));
                    }
                }
            }
        }
    }

    fn exec_msg(&self, a: &Act) -> Option<(u8, Cw20ExecuteMsg)> {
        let cfg = &self.cfg;
        let u = |x: Amt| Uint128::new(x.0);
        let pl = |p: u8| -> Binary {
            match p {
                0 => Binary::default(),
                1 => Binary::from(b"x".to_vec()),
                _ => Binary::from(br#"{"k":1}"#.to_vec()),
            }
        };
        Some(match a {
            Act::Transfer { from, to, amt } => (
                *from,
                Cw20ExecuteMsg::Transfer {
                    recipient: cfg.addr(*to),
                    amount: u(*amt),
                },
            ),
            Act::Send { from, to, amt, payload } => (
                *from,
                Cw20ExecuteMsg::Send {
                    contract: cfg.addr(*to),
                    amount: u(*amt),
                    msg: pl(*payload),
                },
            ),
            Act::Burn { from, amt } => (*from, Cw20ExecuteMsg::Burn { amount: u(*amt) }),
            Act::Mint { by, to, amt } => (
                *by,
                Cw20ExecuteMsg::Mint {
                    recipient: cfg.addr(*to),
                    amount: u(*amt),
                },
            ),
            Act::Inc { owner, spender, amt, exp } => (
                *owner,
                Cw20ExecuteMsg::IncreaseAllowance {
                    spender: cfg.addr(*spender),
                    amount: u(*amt),
                    expires: exp.to_opt(),
                },
            ),
            Act::Dec { owner, spender, amt, exp } => (
                *owner,
                Cw20ExecuteMsg::DecreaseAllowance {
                    spender: cfg.addr(*spender),
                    amount: u(*amt),
                    expires: exp.to_opt(),
                },
            ),
            Act::TransferFrom { by, owner, to, amt } => (
                *by,
                Cw20ExecuteMsg::TransferFrom {
                    owner: cfg.addr(*owner),
                    recipient: cfg.addr(*to),
                    amount: u(*amt),
                },
            ),
            Act::SendFrom { by, owner, to, amt, payload } => (
                *by,
                Cw20ExecuteMsg::SendFrom {
                    owner: cfg.addr(*owner),
                    contract: cfg.addr(*to),
                    amount: u(*amt),
                    msg: pl(*payload),
                },
            ),
            Act::BurnFrom { by, owner, amt } => (
                *by,
                Cw20ExecuteMsg::BurnFrom {
                    owner: cfg.addr(*owner),
                    amount: u(*amt),
                },
            ),
            Act::UpdateMinter { by, new } => (
                *by,
                Cw20ExecuteMsg::UpdateMinter {
                    new_minter: new.map(|n| cfg.addr(n)),
                },
            ),
            Act::Marketing { by, kind } => (
                *by,
                match kind {
                    0 => Cw20ExecuteMsg::UpdateMarketing { project: Some("p".into()), description: None, marketing: None },
                    1 => Cw20ExecuteMsg::UploadLogo(cw20::Logo::Url("u".into())),
                    _ => Cw20ExecuteMsg::UpdateMarketing { project: None, description: None, marketing: Some(cfg.addr(*by)) },
                },
            ),
            Act::Advance | Act::MigrateOld { .. } | Act::MigrateSame => return None,
        })
    }
}

fn label(a: &Act) -> &'static str {
    match a {
        Act::Transfer { .. } => "Transfer",
        Act::Send { .. } => "Send",
        Act::Burn { .. } => "Burn",
        Act::Mint { .. } => "Mint",
        Act::Inc { .. } => "IncreaseAllowance",
        Act::Dec { .. } => "DecreaseAllowance",
        Act::TransferFrom { .. } => "TransferFrom",
        Act::SendFrom { .. } => "SendFrom",
        Act::BurnFrom { .. } => "BurnFrom",
        Act::UpdateMinter { .. } => "UpdateMinter",
        Act::Advance => "AdvanceBlock",
        Act::MigrateOld { .. } => "MigrateFromOldLayout",
        Act::MigrateSame => "MigrateSameVersion",
        Act::Marketing { .. } => "Marketing",
    }
}

/// remove every key of a cw-storage-plus namespace from a raw store
pub fn wipe_namespace(w: &mut World, contract: &str, ns: &str) {
    let mut prefix = vec![(ns.len() >> 8) as u8, (ns.len() & 0xff) as u8];
    prefix.extend_from_slice(ns.as_bytes());
    let inst = w.contracts.get_mut(contract).unwrap();
    let keys: Vec<Vec<u8>> = inst
        .store
        .0
        .keys()
        .filter(|k| k.starts_with(&prefix))
        .cloned()
        .collect();
    let kv = Arc::make_mut(&mut inst.store.0);
    for k in keys {
        kv.remove(&k);
    }
}

impl Model for Cw20Model {
    type State = State;
    type Action = Act;

    fn name(&self) -> String {
        self.cfg.name.clone()
    }

    fn init(&self) -> (State, Vec<Violation>) {
        let cfg = &self.cfg;
        let mut w = World::new();
        w.height = H0;
        w.time_s = T0;
        w.dispatch = false;
        let msg = InstantiateMsg {
            name: "Token".into(),
            symbol: "TOK".into(),
            decimals: 6,
            initial_balances: cfg
                .initial
                .iter()
                .map(|(i, a)| Cw20Coin {
                    address: cfg.addr(*i),
                    amount: Uint128::new(*a),
                })
                .collect(),
            mint: cfg.mint.map(|(m, cap)| MinterResponse {
                minter: cfg.addr(m),
                cap: cap.map(Uint128::new),
            }),
            marketing: cfg.marketing.map(|m| cw20_base::msg::InstantiateMarketingInfo {
                project: None,
                description: None,
                marketing: Some(cfg.addr(m)),
                logo: None,
            }),
        };
        let out = w.instantiate(vt(), &token_addr(), &mc::addr("creator"), &to_json_vec(&msg).unwrap(), &[]);
        let mut v = vec![];
        if let Some(a) = cfg.wasm_admin {
            w.set_wasm_admin(&token_addr(), Some(&cfg.addr(a)));
        }
        if !out.ok() {
            return (
                State {
                    w,
                    r: Ref::default(),
                    obs: Arc::new(Obs::default()),
                    dead: true,
                },
                v,
            );
        }
        // reference from the instantiate message, in checked arithmetic
        let mut r = Ref::default();
        let mut dup = false;
        let mut total: Option<u128> = Some(0);
        for (i, a) in &cfg.initial {
            if r.bal.insert(cfg.canon(*i), *a).is_some() {
                dup = true;
            }
            total = total.and_then(|t| t.checked_add(*a));
        }
        r.minter = cfg.mint.map(|m| m.0);
        r.cap = cfg.mint.and_then(|m| m.1);
        // A repeated account that is ACCEPTED is not a violation by itself (an implementation may merge the
        // rows): what the property demands is judged on the resulting state, below.
        match total {
            None => v.push(Violation::new(
                "C01.initial_supply_overflow_accepted",
                "instantiate accepted balances whose sum exceeds u128".into(),
            )),
            Some(t) => {
                r.supply = t;
                if let Some(cap) = r.cap {
                    if t > cap && cfg.props.c13 {
                        v.push(Violation::new(
                            "C13.initial_supply_above_cap_accepted",
                            format!("initial supply {t} cap {cap}"),
                        ));
                    }
                }
            }
        }
        if cfg.inst_must_fail && v.is_empty() {
            v.push(Violation::new("cfg.expected_refusal", "instantiate was expected to be refused".into()));
        }
        let obs = match self.observe(&w) {
            Ok(o) => o,
            Err(e) => {
                v.push(Violation::new("observe_failed", e));
                Obs::default()
            }
        };
        if !dup && total.is_some() {
            self.check_state(&w, &r, &obs, &mut v);
        } else {
            // no reference ledger for a message with repeated accounts: the state invariant alone decides,
            // and the run stops here
            self.check_sum(&obs, &mut v);
        }
        let mut st = State {
            w,
            r,
            obs: Arc::new(obs),
            dead: dup || total.is_none(),
        };
        for (o, sp, a) in &cfg.pre_allow {
            let stp = self.step(&st, &Act::Inc { owner: *o, spender: *sp, amt: Amt(*a), exp: ExpA::Unset });
            if !stp.ok {
                v.push(Violation::new("cfg.pre_allow_refused", format!("IncreaseAllowance {o}->{sp} {a} refused")));
            }
            v.extend(stp.violations);
            st = stp.next;
        }
        (st, v)
    }

    fn actions(&self, s: &State) -> Vec<Act> {
        let cfg = &self.cfg;
        let mut out = vec![];
        if s.dead {
            return out;
        }
        let k = |n: &str| cfg.kinds.contains(n);
        if k("Transfer") {
            for &f in &cfg.senders {
                for &t in &cfg.recipients {
                    for &a in &cfg.amounts {
                        out.push(Act::Transfer { from: f, to: t, amt: Amt(a) });
                    }
                }
            }
        }
        if k("Send") {
            for &f in &cfg.senders {
                for &t in &cfg.recipients {
                    for &a in &cfg.amounts {
                        for &p in &cfg.payloads {
                            out.push(Act::Send { from: f, to: t, amt: Amt(a), payload: p });
                        }
                    }
                }
            }
        }
        if k("Burn") {
            for &f in &cfg.senders {
                for &a in &cfg.amounts {
                    out.push(Act::Burn { from: f, amt: Amt(a) });
                }
            }
        }
        if k("Mint") {
            for &b in &cfg.minters {
                for &t in &cfg.mint_to {
                    for &a in &cfg.mint_amounts {
                        if let Some(sc) = cfg.supply_cap {
                            if s.r.supply.checked_add(a).map(|x| x > sc).unwrap_or(false) {
                                continue;
                            }
                        }
                        out.push(Act::Mint { by: b, to: t, amt: Amt(a) });
                    }
                }
            }
        }
        if k("Inc") {
            for &o in &cfg.owners {
                for &sp in &cfg.spenders {
                    for &a in &cfg.amounts {
                        if let Some(gc) = cfg.grant_cap {
                            let cur = s.r.allow.get(&(o, sp)).map(|x| x.0).unwrap_or(0);
                            if cur.checked_add(a).map(|x| x > gc).unwrap_or(false) {
                                continue;
                            }
                        }
                        for &e in &cfg.exps {
                            out.push(Act::Inc { owner: o, spender: sp, amt: Amt(a), exp: e });
                        }
                    }
                }
            }
        }
        if k("Dec") {
            for &o in &cfg.owners {
                for &sp in &cfg.spenders {
                    for &a in &cfg.amounts {
                        for &e in &cfg.exps {
                            out.push(Act::Dec { owner: o, spender: sp, amt: Amt(a), exp: e });
                        }
                    }
                }
            }
        }
        for &by in &cfg.spenders {
            for &o in &cfg.owners {
                for &a in &cfg.amounts {
                    if k("TransferFrom") {
                        for &t in &cfg.recipients {
                            out.push(Act::TransferFrom { by, owner: o, to: t, amt: Amt(a) });
                        }
                    }
                    if k("SendFrom") {
                        for &t in &cfg.recipients {
                            for &p in &cfg.payloads {
                                out.push(Act::SendFrom { by, owner: o, to: t, amt: Amt(a), payload: p });
                            }
                        }
                    }
                    if k("BurnFrom") {
                        out.push(Act::BurnFrom { by, owner: o, amt: Amt(a) });
                    }
                }
            }
        }
        if k("UpdateMinter") {
            for &b in &cfg.minters {
                out.push(Act::UpdateMinter { by: b, new: None });
                for &n in &cfg.minters {
                    out.push(Act::UpdateMinter { by: b, new: Some(n) });
                }
            }
        }
        if k("Marketing") {
            if let Some(m) = cfg.marketing {
                for by in [m, (m + 1) % cfg.actors.len() as u8] {
                    for kind in 0..3u8 {
                        out.push(Act::Marketing { by, kind });
                    }
                }
            }
        }
        if s.w.height < cfg.hmax {
            out.push(Act::Advance);
        }
        if cfg.migrate_probe {
            for version in 0..OLD_VERSIONS.len() as u8 {
                out.push(Act::MigrateOld { version });
            }
            out.push(Act::MigrateSame);
        }
        out
    }

    fn step(&self, s: &State, a: &Act) -> Step<State> {
        let cfg = &self.cfg;
        let mut v = vec![];
        let mut w = s.w.clone();
        let mut r = s.r.clone();
        let pre = &*s.obs;
        let lbl = label(a).to_string();
        let (h, t) = (s.w.height, s.w.time_s);
        match a {
            Act::Advance => {
                w.advance(1, DT);
                // nothing observable may change by time passing alone
                let obs = self.observe(&w).unwrap_or_default();
                if obs != *pre {
                    v.push(Violation::new("time_changes_state", "queries changed by a block advance alone".into()));
                }
                self.check_state(&w, &r, &obs, &mut v);
                return Step {
                    next: State { w, r, obs: Arc::new(obs), dead: false },
                    label: lbl,
                    ok: true,
                    violations: v,
                };
            }
            Act::MigrateOld { .. } | Act::MigrateSame => {
                let tok = token_addr();
                let mut injected = false;
                if let Act::MigrateOld { version } = a {
                    wipe_namespace(&mut w, &tok, "allowance_spender");
                    let inst = w.contracts.get_mut(&tok).unwrap();
                    cw2::set_contract_version(&mut inst.store, "crates.io:cw20-base", OLD_VERSIONS[*version as usize])
                        .unwrap();
                    if cfg.legacy_self_row {
                        let x = cosmwasm_std::Addr::unchecked(cfg.addr(0));
                        if !cw20_base::state::ALLOWANCES.has(&inst.store, (&x, &x)) {
                            cw20_base::state::ALLOWANCES
                                .save(&mut inst.store, (&x, &x), &AllowanceResponse { allowance: Uint128::new(1), expires: Expiration::Never {} })
                                .unwrap();
                            injected = true;
                            // the legacy row is part of the books from now on
                            r.allow.insert((0, 0), (1, ExpKey::Never));
                        }
                    }
                }
                // with an injected legacy row the comparison baseline is the old-layout state just before migrate
                let pre_injected;
                let pre: &Obs = if injected {
                    pre_injected = self.observe(&w).unwrap_or_default();
                    &pre_injected
                } else {
                    pre
                };
                let out = w.migrate(&tok, b"{}");
                if !out.ok() && cfg.props.c19 {
                    v.push(Violation::new("C19.migrate_fails", out.err()));
                }
                let obs = self.observe(&w).unwrap_or_default();
                if obs != *pre {
                    v.push(Violation::new(
                        if cfg.props.c13 {
                            "C13.migration_changes_minter_cap_or_supply"
                        } else if cfg.props.c19 {
                            "C19.migration_changes_owner_view"
                        } else if cfg.props.c01 {
                            "C01.migration_changes_balances_or_supply"
                        } else {
                            "C02.migration_changes_balances_or_allowances"
                        },
                        format!("balances / supply / minter / Allowance queries differ after migrate: minter {:?} -> {:?}, supply {} -> {}", pre.minter, obs.minter, pre.supply, obs.supply),
                    ));
                }
                self.check_state(&w, &r, &obs, &mut v);
                return Step {
                    next: State { w, r, obs: Arc::new(obs), dead: false },
                    label: lbl,
                    ok: out.ok(),
                    violations: v,
                };
            }
            _ => {}
        }
        let (sender, msg) = self.exec_msg(a).unwrap();
        let out = w.execute_json(&cfg.addr(sender), &token_addr(), &msg, &[]);
        let ok = out.ok();
        if !ok {
            // a refused call must leave the whole world (hence every query answer) untouched
            if fp128(&w) != fp128(&s.w) {
                v.push(Violation::new("failed_call_changed_state", format!("{a:?}")));
            }
            return Step {
                next: State { w, r, obs: s.obs.clone(), dead: false },
                label: lbl,
                ok,
                violations: v,
            };
        }
        let obs = match self.observe(&w) {
            Ok(o) => o,
            Err(e) => {
                v.push(Violation::new("observe_failed", e));
                Obs::default()
            }
        };
        // ------- the call was accepted: the reference decides whether it was allowed to be
        let bal = |r: &Ref, i: u8| r.bal.get(&i).copied().unwrap_or(0);
        let mut expect_msgs: Option<(u8, u8, u128, u8)> = None; // (initiator, contract, amount, payload)
        match a {
            Act::Transfer { from, to, amt } | Act::Send { from, to, amt, .. } => {
                if bal(&r, *from) < amt.0 {
                    v.push(Violation::new("C02.debit_without_funds", format!("{a:?} accepted with balance {}", bal(&r, *from))));
                } else {
                    *r.bal.entry(*from).or_insert(0) -= amt.0;
                    *r.bal.entry(*to).or_insert(0) += amt.0;
                }
                if let Act::Send { payload, .. } = a {
                    expect_msgs = Some((*from, *to, amt.0, *payload));
                }
            }
            Act::Burn { from, amt } => {
                if bal(&r, *from) < amt.0 {
                    v.push(Violation::new("C02.debit_without_funds", format!("{a:?} accepted with balance {}", bal(&r, *from))));
                } else {
                    *r.bal.entry(*from).or_insert(0) -= amt.0;
                    r.supply -= amt.0;
                }
            }
            Act::Mint { by, to, amt } => {
                if r.minter != Some(*by) {
                    v.push(Violation::new(
                        "C13.mint_by_non_minter",
                        format!("{a:?} accepted, reference minter {:?}", r.minter),
                    ));
                }
                match r.supply.checked_add(amt.0) {
                    None => v.push(Violation::new("C01.mint_overflow_accepted", format!("{a:?}"))),
                    Some(ns) => {
                        r.supply = ns;
                        *r.bal.entry(*to).or_insert(0) += amt.0;
                    }
                }
            }
            Act::Inc { owner, spender, amt, exp } => {
                if owner == spender {
                    v.push(Violation::new("C02.self_allowance_accepted", format!("{a:?}")));
                }
                let e = exp.to_opt();
                if let Some(e) = &e {
                    if expired(e, h, t) {
                        v.push(Violation::new("C02.expired_expiry_accepted", format!("{a:?} at height {h} time {t}")));
                    }
                }
                let cur = r.allow.get(&(*owner, *spender)).copied().unwrap_or((0, ExpKey::Never));
                match cur.0.checked_add(amt.0) {
                    None => v.push(Violation::new("C02.allowance_overflow_accepted", format!("{a:?}"))),
                    Some(n) => {
                        let mut ne = e.map(|e| ExpKey::from(&e)).unwrap_or(cur.1);
                        // Corner the property does not pin: topping up an EXHAUSTED allowance without naming an
                        // expiry. The reference keeps the old deadline after a draw to zero and forgets it after
                        // a decrease to zero (the cw20 spec's wording); an implementation that ends up with an
                        // EARLIER-or-equal deadline than that is stricter, never laxer, and is followed.
                        if e.is_none() && cur.0 == 0 {
                            if let Some((_, oe)) = obs.allow.get(&(*owner, *spender)) {
                                let not_later = match (*oe, ne) {
                                    (a, b) if a == b => true,
                                    (_, ExpKey::Never) => true,
                                    (ExpKey::H(a), ExpKey::H(b)) => a <= b,
                                    (ExpKey::T(a), ExpKey::T(b)) => a <= b,
                                    _ => false,
                                };
                                if not_later {
                                    ne = *oe;
                                }
                            }
                        }
                        r.allow.insert((*owner, *spender), (n, ne));
                        if cfg.monitors {
                            // an increase on top of an expired allowance keeps the stale amount usable only
                            // if the new expiry revives it; what was granted is what the owner added
                            let g = r.granted.entry((*owner, *spender)).or_insert(0);
                            *g = g.saturating_add(amt.0);
                        }
                    }
                }
            }
            Act::Dec { owner, spender, amt, exp } => {
                if owner == spender {
                    v.push(Violation::new("C02.self_allowance_accepted", format!("{a:?}")));
                }
                let cur = r.allow.get(&(*owner, *spender)).copied().unwrap_or((0, ExpKey::Never));
                let n = cur.0.saturating_sub(amt.0);
                if n == 0 {
                    r.allow.remove(&(*owner, *spender));
                } else {
                    let e = exp.to_opt();
                    if let Some(e) = &e {
                        if expired(e, h, t) {
                            v.push(Violation::new("C02.expired_expiry_accepted", format!("{a:?} at height {h} time {t}")));
                        }
                    }
                    let ne = e.map(|e| ExpKey::from(&e)).unwrap_or(cur.1);
                    r.allow.insert((*owner, *spender), (n, ne));
                }
            }
            Act::TransferFrom { by, owner, amt, .. }
            | Act::SendFrom { by, owner, amt, .. }
            | Act::BurnFrom { by, owner, amt } => {
                let cur = r.allow.get(&(*owner, *by)).copied();
                let mut authorised = true;
                match cur {
                    None => {
                        // a draw of nothing against no allowance moves nothing and consumes nothing
                        if amt.0 > 0 {
                            authorised = false;
                            v.push(Violation::new("C02.draw_without_allowance", format!("{a:?} accepted, no allowance granted")));
                        }
                    }
                    Some((n, e)) => {
                        if e.expired(h, t) {
                            authorised = false;
                            v.push(Violation::new(
                                "C02.draw_on_expired_allowance",
                                format!("{a:?} accepted at height {h} time {t}, allowance expired {:?}", e),
                            ));
                        }
                        if n < amt.0 {
                            authorised = false;
                            v.push(Violation::new(
                                "C02.draw_exceeds_allowance",
                                format!("{a:?} accepted with allowance {n}"),
                            ));
                        }
                    }
                }
                if bal(&r, *owner) < amt.0 {
                    authorised = false;
                    v.push(Violation::new("C02.debit_without_funds", format!("{a:?} accepted with balance {}", bal(&r, *owner))));
                }
                if authorised {
                    let (n, e) = cur.unwrap_or((0, ExpKey::Never));
                    if cur.is_some() {
                        r.allow.insert((*owner, *by), (n - amt.0, e));
                    }
                    *r.bal.entry(*owner).or_insert(0) -= amt.0;
                    match a {
                        Act::TransferFrom { to, .. } | Act::SendFrom { to, .. } => {
                            *r.bal.entry(*to).or_insert(0) += amt.0;
                        }
                        _ => r.supply -= amt.0,
                    }
                    if cfg.monitors {
                        let d = r.drawn.entry((*owner, *by)).or_insert(0);
                        *d = d.saturating_add(amt.0);
                    }
                }
                if let Act::SendFrom { by, to, amt, payload, .. } = a {
                    expect_msgs = Some((*by, *to, amt.0, *payload));
                }
            }
            Act::UpdateMinter { by, new } => {
                if r.minter != Some(*by) {
                    v.push(Violation::new(
                        "C13.update_minter_by_non_minter",
                        format!("{a:?} accepted, reference minter {:?}", r.minter),
                    ));
                }
                r.minter = *new;
            }
            Act::Marketing { .. } => {}
            Act::Advance | Act::MigrateOld { .. } | Act::MigrateSame => unreachable!(),
        }

        // ------- transition predicates on (pre, action, post), straight from the property texts
        if cfg.props.c01 {
            let changed: Vec<(&String, u128, u128)> = obs
                .bal
                .iter()
                .filter_map(|(k, nv)| {
                    let ov = pre.bal.get(k).copied().unwrap_or(0);
                    if ov != *nv {
                        Some((k, ov, *nv))
                    } else {
                        None
                    }
                })
                .collect();
            match a {
                Act::Mint { amt, .. } => {
                    if pre.supply.checked_add(amt.0) != Some(obs.supply) {
                        v.push(Violation::new("C01.mint_raises_supply_exactly", format!("{a:?}: supply {} -> {}", pre.supply, obs.supply)));
                    }
                    let okb = if amt.0 == 0 {
                        changed.is_empty()
                    } else {
                        changed.len() == 1 && changed[0].1.checked_add(amt.0) == Some(changed[0].2)
                    };
                    if !okb {
                        v.push(Violation::new("C01.mint_changes_one_balance", format!("{a:?}: balance changes {:?}", changed)));
                    }
                }
                Act::Burn { amt, .. } | Act::BurnFrom { amt, .. } => {
                    if pre.supply.checked_sub(amt.0) != Some(obs.supply) {
                        v.push(Violation::new("C01.burn_lowers_supply_exactly", format!("{a:?}: supply {} -> {}", pre.supply, obs.supply)));
                    }
                    let okb = if amt.0 == 0 {
                        changed.is_empty()
                    } else {
                        changed.len() == 1 && changed[0].1.checked_sub(amt.0) == Some(changed[0].2)
                    };
                    if !okb {
                        v.push(Violation::new("C01.burn_changes_one_balance", format!("{a:?}: balance changes {:?}", changed)));
                    }
                }
                _ => {
                    if obs.supply != pre.supply {
                        v.push(Violation::new("C01.supply_changed_without_mint_or_burn", format!("{a:?}: supply {} -> {}", pre.supply, obs.supply)));
                    }
                }
            }
        }
        if cfg.props.c13 && obs.supply > pre.supply && !matches!(a, Act::Mint { .. }) {
            v.push(Violation::new("C13.supply_rose_without_mint", format!("{a:?}: supply {} -> {}", pre.supply, obs.supply)));
        }
        if cfg.props.c02 {
            // (a) whose balance fell, and by what authority
            for i in 0..cfg.actors.len() as u8 {
                let ad = cfg.addr(i);
                let (ov, nv) = (pre.bal.get(&ad).copied().unwrap_or(0), obs.bal.get(&ad).copied().unwrap_or(0));
                if nv < ov {
                    let legit = match a {
                        Act::Transfer { from, .. } | Act::Send { from, .. } | Act::Burn { from, .. } => *from == i,
                        Act::TransferFrom { owner, .. } | Act::SendFrom { owner, .. } | Act::BurnFrom { owner, .. } => *owner == i,
                        _ => false,
                    };
                    if !legit {
                        v.push(Violation::new(
                            "C02.balance_fell_without_authority",
                            format!("{a:?}: balance of {} fell {ov} -> {nv}", cfg.actors[i as usize]),
                        ));
                    }
                }
            }
            // (c) allowances change only by the owner's increase/decrease or the spender's draw
            for (k, nv) in &obs.allow {
                let ov = pre.allow.get(k).copied().unwrap_or((0, ExpKey::Never));
                let differs = ov.0 != nv.0 || (nv.0 > 0 && ov.1 != nv.1);
                if differs {
                    let legit = match a {
                        Act::Inc { owner, spender, .. } | Act::Dec { owner, spender, .. } => (*owner, *spender) == *k,
                        Act::TransferFrom { by, owner, .. } | Act::SendFrom { by, owner, .. } | Act::BurnFrom { by, owner, .. } => (*owner, *by) == *k,
                        _ => false,
                    };
                    if !legit {
                        v.push(Violation::new(
                            "C02.allowance_changed_by_third_party",
                            format!("{a:?}: allowance {:?} changed {:?} -> {:?}", k, ov, nv),
                        ));
                    }
                }
            }
            // (d) notification
            let msgs = out.top.as_ref().map(|t| t.messages.clone()).unwrap_or_default();
            match expect_msgs {
                None => {
                    if !msgs.is_empty() {
                        v.push(Violation::new("C02.unexpected_message", format!("{a:?} emitted {} messages", msgs.len())));
                    }
                }
                Some((initiator, contract, amount, payload)) => {
                    let pl: Binary = match payload {
                        0 => Binary::default(),
                        1 => Binary::from(b"x".to_vec()),
                        _ => Binary::from(br#"{"k":1}"#.to_vec()),
                    };
                    let want_body = serde_json::json!({"receive": {"sender": cfg.addr(initiator), "amount": amount.to_string(), "msg": pl.to_base64()}});
                    let good = msgs.len() == 1
                        && msgs[0].reply_on == ReplyOn::Never
                        && msgs[0].gas_limit.is_none()
                        && match &msgs[0].msg {
                            CosmosMsg::Wasm(WasmMsg::Execute { contract_addr, msg, funds }) => {
                                *contract_addr == cfg.addr(contract)
                                    && funds.is_empty()
                                    && serde_json::from_slice::<serde_json::Value>(msg.as_slice()).ok() == Some(want_body.clone())
                            }
                            _ => false,
                        };
                    if !good {
                        v.push(Violation::new(
                            "C02.receiver_notified_exactly_once_truthfully",
                            format!("{a:?}: messages {:?}", msgs.iter().map(|m| format!("{:?}", m.msg)).collect::<Vec<_>>()),
                        ));
                    }
                }
            }
        }
        self.check_state(&w, &r, &obs, &mut v);
        Step {
            next: State { w, r, obs: Arc::new(obs), dead: false },
            label: lbl,
            ok,
            violations: v,
        }
    }

    fn fingerprint(&self, s: &State) -> u128 {
        fp128(&(&s.w, &s.r))
    }
}
