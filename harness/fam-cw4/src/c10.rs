//! C10 — cw4-stake: fully backed, weight follows stake, exit only after the delay.
//!
//! The staking contract runs in the kernel with real message dispatch: native coins through the
//! kernel bank, cw20 stake tokens through two real cw20-base instances (the configured token and a
//! foreign one). Reference: a ledger `{stake[u], claims[u] = [(amount, release point)]}` stepped on
//! accepted calls only.
use crate::util::*;
use cosmwasm_std::{coin, to_json_binary, to_json_vec, Coin, Uint128};
use cw20::{Cw20Coin, Cw20ExecuteMsg, Cw20ReceiveMsg};
use cw4::{MemberResponse, TotalWeightResponse};
use cw_controllers::ClaimsResponse;
use cw_utils::Duration;
use mc::world::World;
use mc::{fp128, Model, Step, Violation};
use serde::{Deserialize, Serialize};
use std::sync::Arc;

pub const STAKE: &str = "stakec";
pub const TOKEN: &str = "token";
pub const TOKEN2: &str = "token2";
pub const DENOM: &str = "stake";
pub const OTHER: &str = "other";
/// a different bank denom that equals the stake denom up to letter case
pub const CASED: &str = "STAKE";

/// actors: two stakers and a donor who never stakes
pub const ACTORS: [&str; 3] = ["U1", "U2", "DON"];
const DON: usize = 2;

#[derive(Clone, Copy, Debug, PartialEq, Eq)]
pub enum Period {
    Height(u64),
    Time(u64),
}

#[derive(Clone, Debug)]
pub struct Cfg {
    pub name: String,
    pub cw20: bool,
    pub tpw: u128,
    pub min_bond: u128,
    pub period: Period,
    /// stake-token funds of U1, U2, DON
    pub funds: [u128; 3],
    pub bond_amts: Vec<u128>,
    pub unbond_amts: Vec<u128>,
    pub hmax: u64,
    /// sub-second part (ns) of the block time at instantiation
    pub start_ns: u64,
    /// clock steps in nanoseconds offered as `AdvanceBy` (empty: one `Advance` of +1 block, +5 s)
    pub advance_ns: Vec<u64>,
    /// clock jumps of N blocks and N seconds offered as `Jump` (then no other clock step is offered);
    /// enabled while the height stays within `hmax`
    pub jumps: Vec<u64>,
    /// offer the refused-by-design calls (wrong denom, foreign token, direct Receive, …)
    pub adversarial: bool,
}

/// release point of a claim, as the reference computes it: unbond block/time + period
#[derive(Clone, Copy, Debug, PartialEq, Eq, Hash, PartialOrd, Ord)]
pub enum Rel {
    H(u64),
    /// nanoseconds since the epoch (exact: unbond block time incl. its sub-second part + period)
    T(u64),
}

/// exact block time of a world in nanoseconds
fn now_ns(w: &World) -> u64 {
    w.time_s * 1_000_000_000 + w.time_ns
}

#[derive(Clone, Debug, PartialEq, Eq, Hash, Default)]
pub struct Ledger {
    pub stake: [u128; 2],
    pub claims: [Vec<(u128, Rel)>; 2],
    pub donated: u128,
}

#[derive(Clone, Copy, Debug, Serialize, Deserialize, PartialEq, Eq)]
pub enum Funds {
    /// exactly the configured native denom
    Right(Amt),
    WrongDenom,
    /// one coin of a denom that differs from the configured one only in letter case
    CaseDenom,
    /// (cw20 configurations) one native coin whose bank denom is spelled exactly like the token address
    TokenNamedDenom,
    TwoDenoms,
    /// [0 of the stake denom, 1 of another denom]
    ZeroRightThenForeign,
    /// [1 of another denom, 0 of the stake denom]
    ForeignThenZeroRight,
    None,
}

#[derive(Clone, Debug, Serialize, Deserialize)]
pub enum Act {
    /// `Bond {}` with native funds
    Bond { u: u8, funds: Funds },
    /// cw20 `Send{contract: staking, amount, msg: Bond}` on the configured (0) or the foreign (1) token
    Cw20Bond { u: u8, token: u8, amt: Amt },
    /// `Receive(Cw20ReceiveMsg{sender: for_, amount, msg: Bond})` sent by a user directly
    DirectReceive { u: u8, for_: u8, amt: Amt },
    Unbond { u: u8, amt: Amt },
    Claim { u: u8 },
    /// the donor hands stake tokens to the contract without bonding
    Donate { amt: Amt },
    Advance,
    /// next block, `ns` nanoseconds later (sub-second block times)
    AdvanceBy { ns: u64 },
    /// `n` blocks and `n` seconds later
    Jump { n: u64 },
}

/// everything the oracles read, through queries and real balances
#[derive(Clone, Debug, PartialEq, Eq, Default)]
pub struct Obs {
    pub holdings: u128,
    pub wallets: [u128; 3],
    pub staked: [u128; 3],
    pub claims: [Vec<u128>; 3],
    pub member: [Option<u64>; 3],
    pub total: u64,
    pub listed: Vec<(String, u64)>,
}

#[derive(Clone)]
pub struct State {
    pub w: World,
    pub r: Ledger,
    pub obs: Arc<Obs>,
    pub dead: bool,
}

pub struct StakeModel {
    pub cfg: Cfg,
}

impl StakeModel {
    fn token_balance(w: &World, token: &str, who: &str) -> Result<u128, String> {
        let b: cw20::BalanceResponse =
            w.query(&a(token), &cw20_base::msg::QueryMsg::Balance { address: who.to_string() })?;
        Ok(b.balance.u128())
    }

    fn holding_of(&self, w: &World, who: &str) -> Result<u128, String> {
        if self.cfg.cw20 {
            Self::token_balance(w, TOKEN, who)
        } else {
            Ok(w.balance(who, DENOM))
        }
    }

    pub fn observe(&self, w: &World) -> Result<Obs, String> {
        let st = a(STAKE);
        let mut o = Obs { holdings: self.holding_of(w, &st)?, ..Default::default() };
        for (i, n) in ACTORS.iter().enumerate() {
            let ad = a(n);
            o.wallets[i] = self.holding_of(w, &ad)?;
            let s: cw4_stake::msg::StakedResponse =
                w.query(&st, &cw4_stake::msg::QueryMsg::Staked { address: ad.clone() })?;
            o.staked[i] = s.stake.u128();
            let c: ClaimsResponse = w.query(&st, &cw4_stake::msg::QueryMsg::Claims { address: ad.clone() })?;
            let mut cl: Vec<u128> = c.claims.iter().map(|c| c.amount.u128()).collect();
            cl.sort();
            o.claims[i] = cl;
            let m: MemberResponse = w.query(&st, &cw4_stake::msg::QueryMsg::Member { addr: ad, at_height: None })?;
            o.member[i] = m.weight;
        }
        let t: TotalWeightResponse = w.query(&st, &cw4_stake::msg::QueryMsg::TotalWeight {})?;
        o.total = t.weight;
        o.listed = list_members(w, &st, 30)?.into_iter().map(|m| (m.addr, m.weight)).collect();
        Ok(o)
    }

    fn matured(&self, rel: &Rel, w: &World) -> bool {
        match rel {
            Rel::H(h) => w.height >= *h,
            Rel::T(t) => now_ns(w) >= *t,
        }
    }

    /// state invariants of the property
    fn check_state(&self, r: &Ledger, o: &Obs, out: &mut Vec<Violation>) {
        let cfg = &self.cfg;
        // (1) backing
        let mut books: Option<u128> = Some(0);
        for u in 0..2 {
            books = books.and_then(|b| b.checked_add(r.stake[u]));
            for (amt, _) in &r.claims[u] {
                books = books.and_then(|b| b.checked_add(*amt));
            }
        }
        match books {
            None => out.push(Violation::new(
                "C10.holdings_cover_stakes_and_claims",
                format!("recorded stakes + unreleased claims exceed 2^128, holdings {}", o.holdings),
            )),
            Some(b) => {
                if o.holdings < b {
                    out.push(Violation::new(
                        "C10.holdings_cover_stakes_and_claims",
                        format!("the contract holds {} but owes stakes {:?} + unreleased claims {:?} = {b}", o.holdings, r.stake, r.claims),
                    ));
                } else if r.donated == 0 && o.holdings != b {
                    out.push(Violation::new(
                        "C10.holdings_equal_books_when_only_bonded",
                        format!("funded only by bonding, the contract holds {} but its books say {b}", o.holdings),
                    ));
                }
            }
        }
        // (2) the queries show the ledger
        for u in 0..3 {
            let (ws, wc): (u128, Vec<u128>) = if u < 2 {
                let mut c: Vec<u128> = r.claims[u].iter().map(|c| c.0).collect();
                c.sort();
                (r.stake[u], c)
            } else {
                (0, vec![])
            };
            if o.staked[u] != ws {
                out.push(Violation::new(
                    "C10.stake_changes_only_by_own_bond_unbond",
                    format!("Staked{{{}}} = {}, the owner's bonds minus unbonds give {ws}", ACTORS[u], o.staked[u]),
                ));
            }
            if o.claims[u] != wc {
                out.push(Violation::new(
                    "C10.claims_match_ledger",
                    format!("Claims{{{}}} amounts {:?}, unbonded and not yet paid {:?}", ACTORS[u], o.claims[u], wc),
                ));
            }
            // (3) weight follows stake
            let floor = std::cmp::max(cfg.min_bond, 1);
            let want: Option<u128> = if ws >= floor { Some(ws / cfg.tpw) } else { None };
            match (o.member[u], want) {
                (None, None) => {}
                (Some(g), Some(q)) => {
                    if g as u128 != q {
                        out.push(Violation::new(
                            "C10.member_weight_is_quotient",
                            format!(
                                "{} stakes {ws} with tokens_per_weight {}: weight must be {q}, Member reports {g}",
                                ACTORS[u], cfg.tpw
                            ),
                        ));
                    }
                }
                (g, q) => out.push(Violation::new(
                    "C10.member_iff_stake_reaches_min_bond",
                    format!("{} stakes {ws}, min_bond {}: Member reports {:?}, expected {:?}", ACTORS[u], cfg.min_bond, g, q),
                )),
            }
        }
        // (4) total = sum of member weights; the listing agrees with the point queries
        let sum: u128 = o.listed.iter().map(|m| m.1 as u128).sum();
        if sum != o.total as u128 {
            out.push(Violation::new(
                "C10.total_weight_is_sum_of_members",
                format!(
                    "TotalWeight {} but listed members {:?} sum to {sum}",
                    o.total,
                    o.listed.iter().map(|m| (pretty(&m.0), m.1)).collect::<Vec<_>>()
                ),
            ));
        }
        let mut want: Vec<(String, u64)> = (0..3).filter_map(|u| o.member[u].map(|wt| (a(ACTORS[u]), wt))).collect();
        want.sort();
        let mut got = o.listed.clone();
        got.sort();
        if want != got {
            out.push(Violation::new(
                "C10.listing_matches_member_queries",
                format!(
                    "listed {:?} but Member queries give {:?}",
                    got.iter().map(|m| (pretty(&m.0), m.1)).collect::<Vec<_>>(),
                    want.iter().map(|m| (pretty(&m.0), m.1)).collect::<Vec<_>>()
                ),
            ));
        }
    }

    fn native_funds(&self, f: &Funds) -> Vec<Coin> {
        match f {
            Funds::Right(x) => vec![coin(x.0, DENOM)],
            Funds::WrongDenom => vec![coin(1, OTHER)],
            Funds::CaseDenom => vec![coin(1, CASED)],
            Funds::TokenNamedDenom => vec![coin(1, a(TOKEN))],
            Funds::TwoDenoms => vec![coin(1, OTHER), coin(1, DENOM)],
            Funds::ZeroRightThenForeign => vec![coin(0, DENOM), coin(1, OTHER)],
            Funds::ForeignThenZeroRight => vec![coin(1, OTHER), coin(0, DENOM)],
            Funds::None => vec![],
        }
    }
}

fn label(act: &Act) -> &'static str {
    match act {
        Act::Bond { funds: Funds::Right(_), .. } => "Bond(native)",
        Act::Bond { funds: Funds::WrongDenom, .. } => "Bond(wrong denom)",
        Act::Bond { funds: Funds::CaseDenom, .. } => "Bond(denom differing in letter case)",
        Act::Bond { funds: Funds::TokenNamedDenom, .. } => "Bond(native coin named like the token address)",
        Act::Bond { funds: Funds::TwoDenoms, .. } => "Bond(two denoms)",
        Act::Bond { funds: Funds::ZeroRightThenForeign, .. } | Act::Bond { funds: Funds::ForeignThenZeroRight, .. } => {
            "Bond(zero of the stake denom + a foreign coin)"
        }
        Act::Bond { funds: Funds::None, .. } => "Bond(no funds)",
        Act::Cw20Bond { token: 0, .. } => "Send{Bond}(configured token)",
        Act::Cw20Bond { .. } => "Send{Bond}(foreign token)",
        Act::DirectReceive { .. } => "Receive(sent by a user)",
        Act::Unbond { .. } => "Unbond",
        Act::Claim { .. } => "Claim",
        Act::Donate { .. } => "Donate",
        Act::Advance | Act::AdvanceBy { .. } | Act::Jump { .. } => "AdvanceBlock",
    }
}

impl Model for StakeModel {
    type State = State;
    type Action = Act;

    fn name(&self) -> String {
        self.cfg.name.clone()
    }

    fn init(&self) -> (State, Vec<Violation>) {
        let cfg = &self.cfg;
        let mut w = World::new();
        w.height = H0;
        w.time_s = T0;
        w.time_ns = cfg.start_ns;
        w.dispatch = true;
        let mut v = vec![];
        let creator = a("creator");
        // the foreign token always exists; users hold a little of it and of a second native denom
        let mk_token = |w: &mut World, label: &str, bal: Vec<(usize, u128)>| {
            let msg = cw20_base::msg::InstantiateMsg {
                name: "Token".into(),
                symbol: "TOK".into(),
                decimals: 6,
                initial_balances: bal
                    .into_iter()
                    .filter(|(_, x)| *x > 0)
                    .map(|(i, x)| Cw20Coin { address: a(ACTORS[i]), amount: Uint128::new(x) })
                    .collect(),
                mint: None,
                marketing: None,
            };
            w.instantiate(cw20_vt(), &a(label), &creator, &to_json_vec(&msg).unwrap(), &[])
        };
        let o2 = mk_token(&mut w, TOKEN2, vec![(0, 2), (1, 2)]);
        if !o2.ok() {
            v.push(Violation::new("cfg.instantiate_failed", o2.err()));
        }
        for i in 0..2 {
            w.set_balance(&a(ACTORS[i]), OTHER, 2);
            w.set_balance(&a(ACTORS[i]), CASED, 2);
        }
        if cfg.cw20 {
            let o1 = mk_token(&mut w, TOKEN, (0..3).map(|i| (i, cfg.funds[i])).collect());
            if !o1.ok() {
                v.push(Violation::new("cfg.instantiate_failed", o1.err()));
            }
            // native coins named like the stake denom: bonding them must be refused
            for i in 0..2 {
                w.set_balance(&a(ACTORS[i]), DENOM, 1);
                w.set_balance(&a(ACTORS[i]), &a(TOKEN), 2);
            }
        } else {
            for i in 0..3 {
                w.set_balance(&a(ACTORS[i]), DENOM, cfg.funds[i]);
            }
        }
        let msg = cw4_stake::msg::InstantiateMsg {
            denom: if cfg.cw20 {
                cw20::Denom::Cw20(cosmwasm_std::Addr::unchecked(a(TOKEN)))
            } else {
                cw20::Denom::Native(DENOM.into())
            },
            tokens_per_weight: Uint128::new(cfg.tpw),
            min_bond: Uint128::new(cfg.min_bond),
            unbonding_period: match cfg.period {
                Period::Height(h) => Duration::Height(h),
                Period::Time(t) => Duration::Time(t),
            },
            admin: None,
        };
        let out = w.instantiate(stake_vt(), &a(STAKE), &creator, &to_json_vec(&msg).unwrap(), &[]);
        if !out.ok() {
            v.push(Violation::new("cfg.instantiate_failed", out.err()));
        }
        let r = Ledger::default();
        let obs = match self.observe(&w) {
            Ok(o) => o,
            Err(e) => {
                v.push(Violation::new("observe_failed", e));
                Obs::default()
            }
        };
        if v.is_empty() {
            self.check_state(&r, &obs, &mut v);
        }
        let dead = !v.is_empty();
        (State { w, r, obs: Arc::new(obs), dead }, v)
    }

    fn actions(&self, s: &State) -> Vec<Act> {
        let cfg = &self.cfg;
        let mut out = vec![];
        if s.dead {
            return out;
        }
        for u in 0..2u8 {
            if cfg.cw20 {
                for &x in &cfg.bond_amts {
                    out.push(Act::Cw20Bond { u, token: 0, amt: Amt(x) });
                }
                if cfg.adversarial {
                    out.push(Act::Bond { u, funds: Funds::Right(Amt(1)) });
                    out.push(Act::Bond { u, funds: Funds::TokenNamedDenom });
                    out.push(Act::Bond { u, funds: Funds::None });
                }
            } else {
                for &x in &cfg.bond_amts {
                    out.push(Act::Bond { u, funds: Funds::Right(Amt(x)) });
                }
                if cfg.adversarial {
                    out.push(Act::Bond { u, funds: Funds::WrongDenom });
                    out.push(Act::Bond { u, funds: Funds::CaseDenom });
                    out.push(Act::Bond { u, funds: Funds::TwoDenoms });
                    out.push(Act::Bond { u, funds: Funds::ZeroRightThenForeign });
                    out.push(Act::Bond { u, funds: Funds::ForeignThenZeroRight });
                    out.push(Act::Bond { u, funds: Funds::None });
                }
            }
            if cfg.adversarial {
                out.push(Act::Cw20Bond { u, token: 1, amt: Amt(1) });
                out.push(Act::DirectReceive { u, for_: u, amt: Amt(1) });
                if u == 0 {
                    out.push(Act::DirectReceive { u, for_: 1, amt: Amt(2) });
                }
            }
            let mut ua = cfg.unbond_amts.clone();
            if let Some(x) = s.r.stake[u as usize].checked_add(1) {
                if !ua.contains(&x) {
                    ua.push(x);
                }
            }
            for x in ua {
                // closure of the system: a zero unbond appends a zero claim that no Claim alone ever
                // removes; offer it only while the user has no such claim pending
                if x == 0 && s.r.claims[u as usize].iter().any(|c| c.0 == 0) {
                    continue;
                }
                out.push(Act::Unbond { u, amt: Amt(x) });
            }
            out.push(Act::Claim { u });
        }
        if cfg.funds[DON] > 0 && s.obs.wallets[DON] > 0 {
            out.push(Act::Donate { amt: Amt(1) });
        }
        for n in &cfg.jumps {
            if s.w.height + n <= cfg.hmax {
                out.push(Act::Jump { n: *n });
            }
        }
        if cfg.jumps.is_empty() && s.w.height < cfg.hmax {
            if cfg.advance_ns.is_empty() {
                out.push(Act::Advance);
            }
            for ns in &cfg.advance_ns {
                out.push(Act::AdvanceBy { ns: *ns });
            }
        }
        out
    }

    fn step(&self, s: &State, act: &Act) -> Step<State> {
        let cfg = &self.cfg;
        let mut v: Vec<Violation> = vec![];
        let mut w = s.w.clone();
        let mut r = s.r.clone();
        let pre = &*s.obs;
        let lbl = label(act).to_string();
        let st = a(STAKE);
        if let Act::Advance | Act::AdvanceBy { .. } | Act::Jump { .. } = act {
            match act {
                Act::AdvanceBy { ns } => w.advance_nanos(1, *ns),
                Act::Jump { n } => w.advance(*n, *n),
                _ => w.advance(1, DT),
            }
            let obs = self.observe(&w).unwrap_or_default();
            if obs != *pre {
                v.push(Violation::new("C10.time_alone_changes_nothing", "balances or queries changed by a block advance alone".into()));
            }
            self.check_state(&r, &obs, &mut v);
            let dead = !v.is_empty();
            return Step { next: State { w, r, obs: Arc::new(obs), dead }, label: lbl, ok: true, violations: v };
        }
        let bond_body = to_json_binary(&cw4_stake::msg::ReceiveMsg::Bond {}).unwrap();
        let out = match act {
            Act::Bond { u, funds } => w.execute_json(
                &a(ACTORS[*u as usize]),
                &st,
                &cw4_stake::msg::ExecuteMsg::Bond {},
                &self.native_funds(funds),
            ),
            Act::Cw20Bond { u, token, amt } => w.execute_json(
                &a(ACTORS[*u as usize]),
                &a(if *token == 0 { TOKEN } else { TOKEN2 }),
                &Cw20ExecuteMsg::Send { contract: st.clone(), amount: Uint128::new(amt.0), msg: bond_body.clone() },
                &[],
            ),
            Act::DirectReceive { u, for_, amt } => w.execute_json(
                &a(ACTORS[*u as usize]),
                &st,
                &cw4_stake::msg::ExecuteMsg::Receive(Cw20ReceiveMsg {
                    sender: a(ACTORS[*for_ as usize]),
                    amount: Uint128::new(amt.0),
                    msg: bond_body.clone(),
                }),
                &[],
            ),
            Act::Unbond { u, amt } => w.execute_json(
                &a(ACTORS[*u as usize]),
                &st,
                &cw4_stake::msg::ExecuteMsg::Unbond { tokens: Uint128::new(amt.0) },
                &[],
            ),
            Act::Claim { u } => w.execute_json(&a(ACTORS[*u as usize]), &st, &cw4_stake::msg::ExecuteMsg::Claim {}, &[]),
            Act::Donate { amt } => {
                if cfg.cw20 {
                    w.execute_json(
                        &a(ACTORS[DON]),
                        &a(TOKEN),
                        &Cw20ExecuteMsg::Transfer { recipient: st.clone(), amount: Uint128::new(amt.0) },
                        &[],
                    )
                } else {
                    let res = w.bank_send(&a(ACTORS[DON]), &st, &[coin(amt.0, DENOM)]);
                    mc::TxOut { res: res.map(|_| None), top: None, dispatched: vec![] }
                }
            }
            Act::Advance | Act::AdvanceBy { .. } | Act::Jump { .. } => unreachable!(),
        };
        let ok = out.ok();
        if !ok {
            // the kernel commits nothing of a failed transaction: the world, hence every balance and
            // query, is the pre-state's. A refusal is not a violation, with one exception the text fixes:
            // "Claim pays the user's matured claims" - a Claim by a user whose ledger holds matured, unpaid
            // claims of a positive amount must go through (the contract holds at least its books, so it can pay)
            if let Act::Claim { u } = act {
                let p: u128 = s.r.claims[*u as usize].iter().filter(|c| self.matured(&c.1, &s.w)).map(|c| c.0).sum();
                if p > 0 {
                    v.push(Violation::new(
                        "C10.matured_claims_are_paid_on_claim",
                        format!(
                            "Claim by {} at height {} time {} ns was refused ({}) although claims {:?} worth {p} have matured and were never paid",
                            ACTORS[*u as usize], s.w.height, now_ns(&s.w), out.err(), s.r.claims[*u as usize]
                        ),
                    ));
                    return Step { next: State { w, r, obs: s.obs.clone(), dead: true }, label: lbl, ok, violations: v };
                }
            }
            return Step { next: State { w, r, obs: s.obs.clone(), dead: false }, label: lbl, ok, violations: v };
        }
        let obs = match self.observe(&w) {
            Ok(o) => o,
            Err(e) => {
                v.push(Violation::new("observe_failed", e));
                Obs::default()
            }
        };
        // ---- accepted: step the ledger; an accepted call the ledger forbids is the violation
        // expected movement of stake tokens: (who pays into the contract, amount) / (who is paid, amount)
        let mut pays_in: Option<(usize, u128)> = None;
        let mut paid_out: Option<(usize, u128)> = None;
        match act {
            Act::Bond { u, funds } => {
                let u = *u as usize;
                match funds {
                    Funds::Right(x) if !cfg.cw20 => {
                        match r.stake[u].checked_add(x.0) {
                            Some(n) => r.stake[u] = n,
                            None => v.push(Violation::new("C10.stake_overflow_accepted", format!("{act:?}"))),
                        }
                        pays_in = Some((u, x.0));
                    }
                    _ => v.push(Violation::new(
                        "C10.only_configured_token_accepted",
                        format!("{act:?} was accepted although the funds are not exactly the configured stake token"),
                    )),
                }
            }
            Act::Cw20Bond { u, token, amt } => {
                let u = *u as usize;
                if cfg.cw20 && *token == 0 {
                    match r.stake[u].checked_add(amt.0) {
                        Some(n) => r.stake[u] = n,
                        None => v.push(Violation::new("C10.stake_overflow_accepted", format!("{act:?}"))),
                    }
                    pays_in = Some((u, amt.0));
                } else {
                    v.push(Violation::new(
                        "C10.only_configured_token_accepted",
                        format!("{act:?}: a cw20 token that is not the configured stake token was accepted"),
                    ));
                }
            }
            Act::DirectReceive { .. } => v.push(Violation::new(
                "C10.only_configured_token_accepted",
                format!("{act:?}: a Receive that does not come from the configured token was accepted"),
            )),
            Act::Unbond { u, amt } => {
                let u = *u as usize;
                if amt.0 > r.stake[u] {
                    v.push(Violation::new(
                        "C10.unbond_within_stake",
                        format!("{act:?} accepted with a stake of {}", r.stake[u]),
                    ));
                } else {
                    r.stake[u] -= amt.0;
                    let rel = match cfg.period {
                        Period::Height(p) => Rel::H(s.w.height + p),
                        Period::Time(p) => Rel::T(now_ns(&s.w) + p * 1_000_000_000),
                    };
                    r.claims[u].push((amt.0, rel));
                }
            }
            Act::Claim { u } => {
                let u = *u as usize;
                let (mature, waiting): (Vec<(u128, Rel)>, Vec<(u128, Rel)>) =
                    r.claims[u].iter().partition(|c| self.matured(&c.1, &s.w));
                let p: u128 = mature.iter().map(|c| c.0).sum();
                r.claims[u] = waiting;
                paid_out = Some((u, p));
            }
            Act::Donate { amt } => {
                r.donated += amt.0;
                pays_in = Some((DON, amt.0));
            }
            Act::Advance | Act::AdvanceBy { .. } | Act::Jump { .. } => unreachable!(),
        }
        // ---- real token movement: exactly what the call is entitled to move
        if v.is_empty() {
            let mut want_w = pre.wallets;
            let mut want_h = Some(pre.holdings);
            if let Some((u, x)) = pays_in {
                want_w[u] = want_w[u].wrapping_sub(x);
                want_h = want_h.and_then(|h| h.checked_add(x));
            }
            if let Some((u, x)) = paid_out {
                want_w[u] = want_w[u].wrapping_add(x);
                want_h = want_h.and_then(|h| h.checked_sub(x));
            }
            if let Act::Claim { u } = act {
                if obs.wallets != want_w || Some(obs.holdings) != want_h {
                    let p = paid_out.unwrap().1;
                    v.push(Violation::new(
                        "C10.claim_pays_exactly_the_matured_claims",
                        format!(
                            "Claim by {} at height {} time {} ns: claims before {:?}, matured amount {p}; wallets {:?} -> {:?}, contract {} -> {}",
                            ACTORS[*u as usize], s.w.height, now_ns(&s.w), s.r.claims[*u as usize], pre.wallets, obs.wallets, pre.holdings, obs.holdings
                        ),
                    ));
                }
            } else if obs.wallets != want_w || Some(obs.holdings) != want_h {
                v.push(Violation::new(
                    "C10.tokens_move_exactly_as_called",
                    format!(
                        "{act:?}: wallets {:?} -> {:?} (expected {:?}), contract {} -> {} (expected {:?})",
                        pre.wallets, obs.wallets, want_w, pre.holdings, obs.holdings, want_h
                    ),
                ));
            }
        }
        // (after an accepted call the ledger forbids, the ledger no longer describes the contract)
        if v.is_empty() {
            self.check_state(&r, &obs, &mut v);
        }
        let dead = !v.is_empty();
        Step { next: State { w, r, obs: Arc::new(obs), dead }, label: lbl, ok, violations: v }
    }

    fn fingerprint(&self, s: &State) -> u128 {
        fp128(&(NoHistory(&s.w, &a(STAKE)), &s.r, s.dead))
    }
}
