//! C14 — only the admin changes a group; hooks hear every change truthfully (cw4-group, cw4-stake).
//!
//! Reference `{admin, hooks, members}` stepped on accepted calls of the reference admin only.
//! Response messages are not dispatched (`World.dispatch = false`): they are the observation.
use crate::util::*;
use cosmwasm_std::{coins, to_json_vec, Uint128};
use cw4::Member;
use cw_controllers::{AdminResponse, HooksResponse};
use cw_utils::Duration;
use mc::world::World;
use mc::{fp128, Model, Step, Violation};
use serde::{Deserialize, Serialize};
use std::collections::{BTreeMap, BTreeSet};
use std::sync::Arc;

pub const GROUP: &str = "group";
pub const STAKE: &str = "stakec";
pub const DENOM: &str = "stake";
pub const TOKEN: &str = "token";

/// callers: the initial admin, a second admin candidate, a stranger; group configurations may add
/// the member addresses A and B (indices 3, 4 = MEMBERS[0], MEMBERS[1]) as callers
/// and the default hook addresses H1, H2 (indices 5, 6) as callers
/// and W (index 7), the chain-level (wasm) admin of the contract, who has no authority inside it
pub const CALLERS: [&str; 8] = ["AD", "AD2", "X", "A", "B", "H1", "H2", "W"];
/// default hook addresses; a configuration may instead name callers or stakers as hooks
pub const HOOKS: [&str; 3] = ["H1", "H2", "H3"];
pub const MEMBERS: [&str; 3] = ["A", "B", "C"];
pub const STAKERS: [&str; 2] = ["U1", "U2"];

#[derive(Clone, Debug, PartialEq, Eq, Hash, Default)]
pub struct Ref {
    pub admin: Option<u8>,
    /// registered hooks in registration order
    pub hooks: Vec<u8>,
    /// cw4-group only: the membership
    pub members: BTreeMap<u8, u64>,
}

/// what the queries Admin, Hooks and the paged ListMembers show
#[derive(Clone, Debug, PartialEq, Eq, Default)]
pub struct Obs {
    pub admin: Option<String>,
    pub hooks: Vec<String>,
    pub members: BTreeMap<String, u64>,
}

fn observe(w: &World, contract: &str) -> Result<Obs, String> {
    let ad: AdminResponse = w.query(contract, &cw4::Cw4QueryMsg::Admin {})?;
    let hk: HooksResponse = w.query(contract, &cw4::Cw4QueryMsg::Hooks {})?;
    let l = list_members(w, contract, 30)?;
    if member_map(&l).len() != l.len() {
        return Err(format!("an address is listed twice: {:?}", l));
    }
    Ok(Obs { admin: ad.admin, hooks: hk.hooks, members: member_map(&l) })
}

#[derive(Clone)]
pub struct State {
    pub w: World,
    pub r: Ref,
    pub obs: Arc<Obs>,
    pub dead: bool,
}

fn admin_hooks_agree(hk: &[&'static str], r: &Ref, o: &Obs, out: &mut Vec<Violation>) {
    let want_admin = r.admin.map(|i| a(CALLERS[i as usize]));
    if o.admin != want_admin {
        out.push(Violation::new(
            "C14.admin_is_what_the_admins_made_it",
            format!("Admin query {:?}, the admins' calls give {:?}", o.admin.as_deref().map(pretty), r.admin.map(|i| CALLERS[i as usize])),
        ));
    }
    let mut got = o.hooks.clone();
    got.sort();
    let mut want: Vec<String> = r.hooks.iter().map(|h| a(hk[*h as usize])).collect();
    want.sort();
    if got != want {
        out.push(Violation::new(
            "C14.hooks_are_what_the_admins_made_them",
            format!("Hooks query {:?}, the admins' calls give {:?}", o.hooks, r.hooks.iter().map(|h| hk[*h as usize]).collect::<Vec<_>>()),
        ));
    }
}

/// a call by anyone but the current admin (so every call once the admin is cleared) changes
/// none of admin / hooks / (group) members
fn unchanged_by_non_admin(
    what: &str,
    frozen: bool,
    pre: &Obs,
    post: &Obs,
    with_members: bool,
    out: &mut Vec<Violation>,
) {
    let sfx = if frozen { "after_admin_cleared" } else { "by_non_admin" };
    if pre.admin != post.admin {
        out.push(Violation::new(&format!("C14.admin_changed_{sfx}"), format!("{what}: admin {:?} -> {:?}", pre.admin.as_deref().map(pretty), post.admin.as_deref().map(pretty))));
    }
    if pre.hooks != post.hooks {
        out.push(Violation::new(&format!("C14.hooks_changed_{sfx}"), format!(
                "{what}: hooks {:?} -> {:?}",
                pre.hooks.iter().map(|h| pretty(h)).collect::<Vec<_>>(),
                post.hooks.iter().map(|h| pretty(h)).collect::<Vec<_>>()
            )));
    }
    if with_members && pre.members != post.members {
        out.push(Violation::new(
            &format!("C14.members_changed_{sfx}"),
            format!("{what}: members {:?} -> {:?}", pretty_map(&pre.members), pretty_map(&post.members)),
        ));
    }
}

// ------------------------------------------------------------------------------------------ cw4-group

#[derive(Clone, Debug)]
pub struct GroupCfg {
    pub name: String,
    pub admin: Option<u8>,
    pub initial: Vec<(u8, u64)>,
    pub add_lists: Vec<Vec<(u8, u64)>>,
    pub remove_lists: Vec<Vec<u8>>,
    /// callers that try UpdateMembers with the full alphabet (others get a reduced one)
    pub full_callers: Vec<u8>,
    /// indices into CALLERS of the addresses that call (0,1 = admin candidates, 2 = stranger,
    /// 3,4 = the members A and B, 5,6 = the hook addresses H1 and H2)
    pub callers: Vec<u8>,
    /// labels of the member addresses the indices of `initial` / the add and remove lists refer to
    pub members: Vec<&'static str>,
    /// the contract has the chain-level admin W (CALLERS[7])
    pub wasm_admin: bool,
    /// labels of the addresses offered to AddHook/RemoveHook (may include the admins themselves)
    pub hooks: Vec<&'static str>,
    pub hmax: u64,
}

#[derive(Clone, Debug, Serialize, Deserialize)]
pub enum GAct {
    UpdateAdmin { by: u8, new: Option<u8> },
    AddHook { by: u8, hook: u8 },
    RemoveHook { by: u8, hook: u8 },
    Update { by: u8, add: Vec<(u8, u64)>, remove: Vec<u8> },
    Advance,
}

pub struct GroupAdmin {
    pub cfg: GroupCfg,
}

impl GroupAdmin {
    fn check_ref(&self, r: &Ref, o: &Obs, out: &mut Vec<Violation>) {
        admin_hooks_agree(&self.cfg.hooks, r, o, out);
        let want: BTreeMap<String, u64> = r.members.iter().map(|(i, w)| (a(self.cfg.members[*i as usize]), *w)).collect();
        if o.members != want {
            out.push(Violation::new(
                "C14.members_are_what_the_admins_made_them",
                format!("listed members {:?}, the admins' calls give {:?}", o.members, r.members.iter().map(|(i, w)| (self.cfg.members[*i as usize], *w)).collect::<Vec<_>>()),
            ));
        }
    }
}

impl Model for GroupAdmin {
    type State = State;
    type Action = GAct;

    fn name(&self) -> String {
        self.cfg.name.clone()
    }

    fn init(&self) -> (State, Vec<Violation>) {
        let cfg = &self.cfg;
        let mut w = World::new();
        w.height = H0;
        w.time_s = T0;
        w.dispatch = false;
        let msg = cw4_group::msg::InstantiateMsg {
            admin: cfg.admin.map(|i| a(CALLERS[i as usize])),
            members: cfg.initial.iter().map(|(i, wt)| Member { addr: a(self.cfg.members[*i as usize]), weight: *wt }).collect(),
        };
        let out = w.instantiate(group_vt(), &a(GROUP), &a("creator"), &to_json_vec(&msg).unwrap(), &[]);
        let mut v = vec![];
        if !out.ok() {
            v.push(Violation::new("cfg.instantiate_failed", out.err()));
            return (State { w, r: Ref::default(), obs: Arc::new(Obs::default()), dead: true }, v);
        }
        if cfg.wasm_admin {
            w.set_wasm_admin(&a(GROUP), Some(&a("W")));
        }
        let r = Ref { admin: cfg.admin, hooks: vec![], members: cfg.initial.iter().cloned().collect() };
        let obs = match observe(&w, &a(GROUP)) {
            Ok(o) => o,
            Err(e) => {
                v.push(Violation::new("observe_failed", e));
                Obs::default()
            }
        };
        if v.is_empty() {
            self.check_ref(&r, &obs, &mut v);
        }
        let dead = !v.is_empty();
        (State { w, r, obs: Arc::new(obs), dead }, v)
    }

    fn actions(&self, s: &State) -> Vec<GAct> {
        let cfg = &self.cfg;
        let mut out = vec![];
        if s.dead {
            return out;
        }
        for &by in &cfg.callers {
            out.push(GAct::UpdateAdmin { by, new: None });
            out.push(GAct::UpdateAdmin { by, new: Some(0) });
            out.push(GAct::UpdateAdmin { by, new: Some(1) });
            for hook in 0..cfg.hooks.len() as u8 {
                out.push(GAct::AddHook { by, hook });
                out.push(GAct::RemoveHook { by, hook });
            }
            if cfg.full_callers.contains(&by) {
                for add in &cfg.add_lists {
                    for rem in &cfg.remove_lists {
                        out.push(GAct::Update { by, add: add.clone(), remove: rem.clone() });
                    }
                }
            } else {
                // representative attempts: an addition, a removal of each member, both at once
                out.push(GAct::Update { by, add: vec![(0, 2)], remove: vec![] });
                out.push(GAct::Update { by, add: vec![], remove: vec![0] });
                out.push(GAct::Update { by, add: vec![], remove: vec![1] });
                out.push(GAct::Update { by, add: vec![(1, 1)], remove: vec![0] });
                out.push(GAct::Update { by, add: vec![], remove: vec![] });
            }
        }
        if s.w.height < cfg.hmax {
            out.push(GAct::Advance);
        }
        out
    }

    fn step(&self, s: &State, act: &GAct) -> Step<State> {
        let mut v: Vec<Violation> = vec![];
        let mut w = s.w.clone();
        let mut r = s.r.clone();
        let pre = &*s.obs;
        let g = a(GROUP);
        if let GAct::Advance = act {
            w.advance(1, DT);
            let obs = observe(&w, &g).unwrap_or_default();
            if obs != *pre {
                v.push(Violation::new("C14.time_alone_changes_nothing", "admin, hooks or members changed by a block advance alone".into()));
            }
            let dead = !v.is_empty();
            return Step { next: State { w, r, obs: Arc::new(obs), dead }, label: "AdvanceBlock".into(), ok: true, violations: v };
        }
        let (by, label, msg) = match act {
            GAct::UpdateAdmin { by, new } => (
                *by,
                "UpdateAdmin",
                cw4_group::msg::ExecuteMsg::UpdateAdmin { admin: new.map(|i| a(CALLERS[i as usize])) },
            ),
            GAct::AddHook { by, hook } => (*by, "AddHook", cw4_group::msg::ExecuteMsg::AddHook { addr: a(self.cfg.hooks[*hook as usize]) }),
            GAct::RemoveHook { by, hook } => {
                (*by, "RemoveHook", cw4_group::msg::ExecuteMsg::RemoveHook { addr: a(self.cfg.hooks[*hook as usize]) })
            }
            GAct::Update { by, add, remove } => (
                *by,
                "UpdateMembers",
                cw4_group::msg::ExecuteMsg::UpdateMembers {
                    add: add.iter().map(|(i, wt)| Member { addr: a(self.cfg.members[*i as usize]), weight: *wt }).collect(),
                    remove: remove.iter().map(|i| a(self.cfg.members[*i as usize])).collect(),
                },
            ),
            GAct::Advance => unreachable!(),
        };
        let is_admin = r.admin == Some(by);
        let label = format!("{label}({})", if is_admin { "admin" } else if r.admin.is_none() { "anyone, admin cleared" } else { "not the admin" });
        let out = w.execute_json(&a(CALLERS[by as usize]), &g, &msg, &[]);
        let ok = out.ok();
        if !ok {
            // a failed transaction commits nothing in the kernel: the state is the pre-state
            return Step { next: State { w, r, obs: s.obs.clone(), dead: false }, label, ok, violations: v };
        }
        let obs = match observe(&w, &g) {
            Ok(o) => o,
            Err(e) => {
                v.push(Violation::new("observe_failed", e));
                Obs::default()
            }
        };
        let what = format!("{act:?} by {}", CALLERS[by as usize]);
        if !is_admin {
            unchanged_by_non_admin(&what, r.admin.is_none(), pre, &obs, true, &mut v);
        }
        if ok {
            if is_admin {
                match act {
                    GAct::UpdateAdmin { new, .. } => r.admin = *new,
                    GAct::AddHook { hook, .. } => {
                        if !r.hooks.contains(hook) {
                            r.hooks.push(*hook);
                        }
                    }
                    GAct::RemoveHook { hook, .. } => r.hooks.retain(|h| h != hook),
                    GAct::Update { add, remove, .. } => {
                        for (i, wt) in add {
                            r.members.insert(*i, *wt);
                        }
                        for i in remove {
                            r.members.remove(i);
                        }
                    }
                    GAct::Advance => unreachable!(),
                }
                self.check_ref(&r, &obs, &mut v);
            }
            // notifications of this call, whoever made it
            let msgs = out.top.as_ref().map(|t| t.messages.clone()).unwrap_or_default();
            let listed: BTreeSet<String> = match act {
                GAct::Update { add, remove, .. } => add
                    .iter()
                    .map(|(i, _)| a(self.cfg.members[*i as usize]))
                    .chain(remove.iter().map(|i| a(self.cfg.members[*i as usize])))
                    .collect(),
                _ => BTreeSet::new(),
            };
            // hooks registered when the call ran (an UpdateMembers does not change them)
            check_notifications(&what, &msgs, &pre.members, &obs.members, &pre.hooks, &listed, &mut v);
        }
        let dead = !v.is_empty();
        Step { next: State { w, r, obs: Arc::new(obs), dead }, label, ok, violations: v }
    }

    fn fingerprint(&self, s: &State) -> u128 {
        fp128(&(NoHistory(&s.w, &a(GROUP)), &s.r, s.dead))
    }
}

// ------------------------------------------------------------------------------------------ cw4-stake

#[derive(Clone, Debug)]
pub struct StakeCfg {
    pub name: String,
    pub admin: Option<u8>,
    pub tpw: u128,
    pub min_bond: u128,
    pub funds: Vec<u128>,
    pub amounts: Vec<u128>,
    /// stake token is a real cw20-base instance: users bond through Send{Bond}, the kernel dispatches
    /// every message (hook addresses are sink contracts) and the notifications are read from the
    /// dispatch trace (messages sent BY the staking contract)
    pub cw20: bool,
    /// unbonding period in blocks (Height)
    pub period: u64,
    /// hooks are registered in the order of `hooks` and removed from the end only (keeps long hook
    /// lists tractable): AddHook is offered for the next unregistered label, RemoveHook for the last
    pub sequential_hooks: bool,
    /// indices into CALLERS of the addresses that send the admin/hook calls
    pub callers: Vec<u8>,
    /// the contract has the chain-level admin W (CALLERS[7])
    pub wasm_admin: bool,
    /// labels of the addresses offered to AddHook/RemoveHook (may include a staker)
    pub hooks: Vec<&'static str>,
    pub hmax: u64,
}

#[derive(Clone, Debug, Serialize, Deserialize)]
pub enum SAct {
    UpdateAdmin { by: u8, new: Option<u8> },
    AddHook { by: u8, hook: u8 },
    RemoveHook { by: u8, hook: u8 },
    Bond { u: u8, amt: Amt },
    Unbond { u: u8, amt: Amt },
    Advance,
}

pub struct StakeAdmin {
    pub cfg: StakeCfg,
}

impl Model for StakeAdmin {
    type State = State;
    type Action = SAct;

    fn name(&self) -> String {
        self.cfg.name.clone()
    }

    fn init(&self) -> (State, Vec<Violation>) {
        let cfg = &self.cfg;
        let mut w = World::new();
        w.height = H0;
        w.time_s = T0;
        w.dispatch = cfg.cw20;
        let mut v = vec![];
        if cfg.cw20 {
            let tmsg = cw20_base::msg::InstantiateMsg {
                name: "Token".into(),
                symbol: "TOK".into(),
                decimals: 6,
                initial_balances: cfg
                    .funds
                    .iter()
                    .enumerate()
                    .filter(|(_, f)| **f > 0)
                    .map(|(i, f)| cw20::Cw20Coin { address: a(STAKERS[i]), amount: Uint128::new(*f) })
                    .collect(),
                mint: None,
                marketing: None,
            };
            let o = w.instantiate(cw20_vt(), &a(TOKEN), &a("creator"), &to_json_vec(&tmsg).unwrap(), &[]);
            if !o.ok() {
                v.push(Violation::new("cfg.instantiate_failed", o.err()));
            }
            for h in &cfg.hooks {
                let o = w.instantiate(&mc::stubs::SINK, &a(h), &a("creator"), b"{}", &[]);
                if !o.ok() {
                    v.push(Violation::new("cfg.instantiate_failed", o.err()));
                }
            }
        } else {
            for (i, f) in cfg.funds.iter().enumerate() {
                w.set_balance(&a(STAKERS[i]), DENOM, *f);
            }
        }
        let msg = cw4_stake::msg::InstantiateMsg {
            denom: if cfg.cw20 {
                cw20::Denom::Cw20(cosmwasm_std::Addr::unchecked(a(TOKEN)))
            } else {
                cw20::Denom::Native(DENOM.into())
            },
            tokens_per_weight: Uint128::new(cfg.tpw),
            min_bond: Uint128::new(cfg.min_bond),
            unbonding_period: Duration::Height(cfg.period),
            admin: cfg.admin.map(|i| a(CALLERS[i as usize])),
        };
        let out = w.instantiate(stake_vt(), &a(STAKE), &a("creator"), &to_json_vec(&msg).unwrap(), &[]);
        if !out.ok() {
            v.push(Violation::new("cfg.instantiate_failed", out.err()));
        }
        if !v.is_empty() {
            return (State { w, r: Ref::default(), obs: Arc::new(Obs::default()), dead: true }, v);
        }
        if cfg.wasm_admin {
            w.set_wasm_admin(&a(STAKE), Some(&a("W")));
        }
        let r = Ref { admin: cfg.admin, hooks: vec![], members: BTreeMap::new() };
        let obs = match observe(&w, &a(STAKE)) {
            Ok(o) => o,
            Err(e) => {
                v.push(Violation::new("observe_failed", e));
                Obs::default()
            }
        };
        if v.is_empty() {
            admin_hooks_agree(&self.cfg.hooks, &r, &obs, &mut v);
        }
        let dead = !v.is_empty();
        (State { w, r, obs: Arc::new(obs), dead }, v)
    }

    fn actions(&self, s: &State) -> Vec<SAct> {
        let cfg = &self.cfg;
        let mut out = vec![];
        if s.dead {
            return out;
        }
        for &by in &cfg.callers {
            out.push(SAct::UpdateAdmin { by, new: None });
            out.push(SAct::UpdateAdmin { by, new: Some(0) });
            out.push(SAct::UpdateAdmin { by, new: Some(1) });
            for hook in 0..cfg.hooks.len() as u8 {
                if cfg.sequential_hooks {
                    let n = s.r.hooks.len() as u8;
                    if hook == n {
                        out.push(SAct::AddHook { by, hook });
                    }
                    if n > 0 && hook == n - 1 {
                        out.push(SAct::RemoveHook { by, hook });
                    }
                    continue;
                }
                out.push(SAct::AddHook { by, hook });
                out.push(SAct::RemoveHook { by, hook });
            }
        }
        for u in 0..cfg.funds.len() as u8 {
            for &x in &cfg.amounts {
                out.push(SAct::Bond { u, amt: Amt(x) });
                out.push(SAct::Unbond { u, amt: Amt(x) });
            }
        }
        if s.w.height < cfg.hmax {
            out.push(SAct::Advance);
        }
        out
    }

    fn step(&self, s: &State, act: &SAct) -> Step<State> {
        let mut v: Vec<Violation> = vec![];
        let mut w = s.w.clone();
        let mut r = s.r.clone();
        let pre = &*s.obs;
        let st = a(STAKE);
        if let SAct::Advance = act {
            w.advance(1, DT);
            let obs = observe(&w, &st).unwrap_or_default();
            if obs != *pre {
                v.push(Violation::new("C14.time_alone_changes_nothing", "admin, hooks or members changed by a block advance alone".into()));
            }
            let dead = !v.is_empty();
            return Step { next: State { w, r, obs: Arc::new(obs), dead }, label: "AdvanceBlock".into(), ok: true, violations: v };
        }
        use cw4_stake::msg::ExecuteMsg as X;
        // (sender, is a governance call made by somebody who is not the admin, label, message, funds)
        let (sender, gov_by, label, msg, funds) = match act {
            SAct::UpdateAdmin { by, new } => (
                a(CALLERS[*by as usize]),
                Some(*by),
                "UpdateAdmin",
                X::UpdateAdmin { admin: new.map(|i| a(CALLERS[i as usize])) },
                vec![],
            ),
            SAct::AddHook { by, hook } => {
                (a(CALLERS[*by as usize]), Some(*by), "AddHook", X::AddHook { addr: a(self.cfg.hooks[*hook as usize]) }, vec![])
            }
            SAct::RemoveHook { by, hook } => {
                (a(CALLERS[*by as usize]), Some(*by), "RemoveHook", X::RemoveHook { addr: a(self.cfg.hooks[*hook as usize]) }, vec![])
            }
            SAct::Bond { u, amt } => (a(STAKERS[*u as usize]), None, "Bond", X::Bond {}, coins(amt.0, DENOM)),
            SAct::Unbond { u, amt } => {
                (a(STAKERS[*u as usize]), None, "Unbond", X::Unbond { tokens: Uint128::new(amt.0) }, vec![])
            }
            SAct::Advance => unreachable!(),
        };
        let is_admin = gov_by.is_some() && r.admin == gov_by;
        let label = match gov_by {
            Some(_) => format!("{label}({})", if is_admin { "admin" } else if r.admin.is_none() { "anyone, admin cleared" } else { "not the admin" }),
            None => label.to_string(),
        };
        let out = match act {
            // cw20 stake token: the user asks the token to send the tokens with a Bond instruction
            SAct::Bond { amt, .. } if self.cfg.cw20 => w.execute_json(
                &sender,
                &a(TOKEN),
                &cw20::Cw20ExecuteMsg::Send {
                    contract: st.clone(),
                    amount: Uint128::new(amt.0),
                    msg: cosmwasm_std::to_json_binary(&cw4_stake::msg::ReceiveMsg::Bond {}).unwrap(),
                },
                &[],
            ),
            _ => w.execute_json(&sender, &st, &msg, &funds),
        };
        let ok = out.ok();
        if !ok {
            // a failed transaction commits nothing in the kernel: the state is the pre-state
            return Step { next: State { w, r, obs: s.obs.clone(), dead: false }, label, ok, violations: v };
        }
        let obs = match observe(&w, &st) {
            Ok(o) => o,
            Err(e) => {
                v.push(Violation::new("observe_failed", e));
                Obs::default()
            }
        };
        let what = format!("{act:?}");
        // stakers are never the admin: bonding must leave admin and hooks alone, like any non-admin call;
        // membership of a staking group legitimately follows the stakes, so it is not part of this clause
        if !is_admin {
            unchanged_by_non_admin(&what, r.admin.is_none(), pre, &obs, false, &mut v);
        }
        if ok {
            if is_admin {
                match act {
                    SAct::UpdateAdmin { new, .. } => r.admin = *new,
                    SAct::AddHook { hook, .. } => {
                        if !r.hooks.contains(hook) {
                            r.hooks.push(*hook);
                        }
                    }
                    SAct::RemoveHook { hook, .. } => r.hooks.retain(|h| h != hook),
                    _ => {}
                }
                admin_hooks_agree(&self.cfg.hooks, &r, &obs, &mut v);
            }
            // the messages the staking contract emitted in this transaction: its own response when
            // nothing is dispatched, else what the kernel routed on its behalf (and committed)
            let msgs: Vec<cosmwasm_std::SubMsg> = if self.cfg.cw20 {
                out.committed().filter(|d| d.sender == st).map(|d| cosmwasm_std::SubMsg::new(d.msg.clone())).collect()
            } else {
                out.top.as_ref().map(|t| t.messages.clone()).unwrap_or_default()
            };
            let listed: BTreeSet<String> = match act {
                SAct::Bond { .. } | SAct::Unbond { .. } => [sender.clone()].into_iter().collect(),
                _ => BTreeSet::new(),
            };
            check_notifications(&what, &msgs, &pre.members, &obs.members, &pre.hooks, &listed, &mut v);
        }
        let dead = !v.is_empty();
        Step { next: State { w, r, obs: Arc::new(obs), dead }, label, ok, violations: v }
    }

    fn fingerprint(&self, s: &State) -> u128 {
        fp128(&(NoHistory(&s.w, &a(STAKE)), &s.r, s.dead))
    }
}
