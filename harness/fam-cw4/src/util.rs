//! Shared helpers of the cw4 family: contract tables, addresses, string-serialised amounts,
//! paged member listing, raw-key decoding and hook-notification analysis.
use cosmwasm_std::{from_json, CosmosMsg, SubMsg, WasmMsg};
use cw4::{Member, MemberChangedHookMsg, MemberDiff, MemberListResponse};
use mc::world::{ContractVt, World};
use mc::Violation;
use serde::{Deserialize, Serialize};
use std::collections::{BTreeMap, BTreeSet};
use std::sync::OnceLock;

pub const H0: u64 = 10;
pub const T0: u64 = 1000;
pub const DT: u64 = 5;

pub fn group_vt() -> &'static ContractVt {
    static VT: OnceLock<ContractVt> = OnceLock::new();
    VT.get_or_init(|| {
        mc::contract_vt!(
            "cw4-group",
            cw4_group::contract,
            cw4_group::msg::InstantiateMsg,
            cw4_group::msg::ExecuteMsg,
            cw4_group::msg::QueryMsg
        )
    })
}

pub fn stake_vt() -> &'static ContractVt {
    static VT: OnceLock<ContractVt> = OnceLock::new();
    VT.get_or_init(|| {
        mc::contract_vt!(
            "cw4-stake",
            cw4_stake::contract,
            cw4_stake::msg::InstantiateMsg,
            cw4_stake::msg::ExecuteMsg,
            cw4_stake::msg::QueryMsg
        )
    })
}

pub fn cw20_vt() -> &'static ContractVt {
    static VT: OnceLock<ContractVt> = OnceLock::new();
    VT.get_or_init(|| {
        mc::contract_vt!(
            "cw20-base",
            cw20_base::contract,
            cw20_base::msg::InstantiateMsg,
            cw20_base::msg::ExecuteMsg,
            cw20_base::msg::QueryMsg
        )
    })
}

/// valid bech32 address of a label (memoised per thread)
pub fn a(label: &str) -> String {
    mc::world::addr_cached(label)
}

/// the label of an address of the model (for readable details); unknown addresses stay as they are
pub fn pretty(addr: &str) -> String {
    const LABELS: [&str; 19] = [
        "A", "B", "C", "D", "U1", "U2", "DON", "AD", "AD2", "X", "H1", "H2", "H3", "group", "stakec", "token", "token2", "creator", "U3",
    ];
    LABELS.iter().find(|l| a(l) == addr).map(|l| l.to_string()).unwrap_or_else(|| addr.to_string())
}

pub fn pretty_map(m: &BTreeMap<String, u64>) -> Vec<(String, u64)> {
    m.iter().map(|(k, v)| (pretty(k), *v)).collect()
}

/// u128 amount that serialises as a decimal string (serde_json values cannot hold u128)
#[derive(Clone, Copy, Debug, PartialEq, Eq, Hash, PartialOrd, Ord)]
pub struct Amt(pub u128);
impl Serialize for Amt {
    fn serialize<S: serde::Serializer>(&self, s: S) -> Result<S::Ok, S::Error> {
        s.serialize_str(&self.0.to_string())
    }
}
impl<'de> Deserialize<'de> for Amt {
    fn deserialize<D: serde::Deserializer<'de>>(d: D) -> Result<Self, D::Error> {
        let s = String::deserialize(d)?;
        s.parse::<u128>().map(Amt).map_err(serde::de::Error::custom)
    }
}

/// All members through the paged `ListMembers` query of either group contract (the two query
/// enums serialise identically for this variant). Err = the listing failed or does not terminate.
pub fn list_members(w: &World, contract: &str, page: u32) -> Result<Vec<Member>, String> {
    list_members_from(w, contract, None, page)
}

/// the paged listing continued from a caller-chosen cursor (any valid address, member or not)
pub fn list_members_from(w: &World, contract: &str, start_after: Option<String>, page: u32) -> Result<Vec<Member>, String> {
    let mut out: Vec<Member> = vec![];
    let mut cursor: Option<String> = start_after;
    loop {
        let p: MemberListResponse = w.query(
            contract,
            &cw4::Cw4QueryMsg::ListMembers {
                start_after: cursor.clone(),
                limit: Some(page),
            },
        )?;
        if p.members.is_empty() {
            break;
        }
        cursor = p.members.last().map(|m| m.addr.clone());
        out.extend(p.members);
        if out.len() > 200 {
            return Err("ListMembers does not terminate".into());
        }
    }
    Ok(out)
}

/// value stored under the raw key the cw4 spec publishes for one member
pub fn raw_member(w: &World, contract: &str, addr: &str) -> Result<Option<u64>, String> {
    match w.raw(contract, &cw4::member_key(addr)) {
        None => Ok(None),
        Some(b) => from_json::<u64>(&b).map(Some).map_err(|e| format!("raw member value does not decode: {e}")),
    }
}

/// value stored under the raw key the cw4 spec publishes for the total
pub fn raw_total(w: &World, contract: &str) -> Result<Option<u64>, String> {
    match w.raw(contract, cw4::TOTAL_KEY.as_bytes()) {
        None => Ok(None),
        Some(b) => from_json::<u64>(&b).map(Some).map_err(|e| format!("raw total does not decode: {e}")),
    }
}

/// One hook notification found among the messages of a response.
pub struct HookNote {
    pub target: String,
    pub funds_empty: bool,
    pub diffs: Vec<MemberDiff>,
}

/// Split response messages into member-changed notifications and everything else.
pub fn hook_notes(msgs: &[SubMsg]) -> (Vec<HookNote>, usize) {
    let mut notes = vec![];
    let mut other = 0usize;
    for m in msgs {
        let mut parsed = None;
        if let CosmosMsg::Wasm(WasmMsg::Execute { contract_addr, msg, funds }) = &m.msg {
            if let Ok(serde_json::Value::Object(o)) = serde_json::from_slice::<serde_json::Value>(msg.as_slice()) {
                if o.len() == 1 {
                    if let Some(body) = o.get("member_changed_hook") {
                        if let Ok(h) = serde_json::from_value::<MemberChangedHookMsg>(body.clone()) {
                            parsed = Some(HookNote {
                                target: contract_addr.clone(),
                                funds_empty: funds.is_empty(),
                                diffs: h.diffs,
                            });
                        }
                    }
                }
            }
        }
        match parsed {
            Some(n) => notes.push(n),
            None => other += 1,
        }
    }
    (notes, other)
}

/// C14 notification oracle, shared by cw4-group and cw4-stake.
///
/// `pre`/`post`: every member's weight before / after the call (through the list query),
/// `hooks`: the hooks registered when the call ran, `listed`: the addresses the call named
/// (add ∪ remove, or the bonding/unbonding sender), `membership_call`: the call is one that may
/// change weights (then, if a weight did change, every hook must hear exactly once).
pub fn check_notifications(
    what: &str,
    msgs: &[SubMsg],
    pre: &BTreeMap<String, u64>,
    post: &BTreeMap<String, u64>,
    hooks: &[String],
    listed: &BTreeSet<String>,
    out: &mut Vec<Violation>,
) {
    let (notes, _other) = hook_notes(msgs);
    let changed: BTreeSet<&String> = pre
        .keys()
        .chain(post.keys())
        .filter(|k| pre.get(*k) != post.get(*k))
        .collect();
    // a removed (or never registered) hook is not notified
    for n in &notes {
        if !hooks.contains(&n.target) {
            out.push(Violation::new(
                "C14.only_registered_hooks_notified",
                format!(
                    "{what}: notification sent to {} which is not a registered hook (hooks: {:?})",
                    pretty(&n.target),
                    hooks.iter().map(|h| pretty(h)).collect::<Vec<_>>()
                ),
            ));
        }
        if !n.funds_empty {
            out.push(Violation::new("C14.notification_carries_funds", format!("{what}: to {}", pretty(&n.target))));
        }
    }
    if !changed.is_empty() {
        for h in hooks {
            let k = notes.iter().filter(|n| n.target == *h).count();
            if k != 1 {
                out.push(Violation::new(
                    "C14.each_hook_notified_exactly_once",
                    format!(
                        "{what}: weights changed ({:?} -> {:?}), hook {} received {k} notifications",
                        pretty_map(pre),
                        pretty_map(post),
                        pretty(h)
                    ),
                ));
            }
        }
    }
    // truthfulness of every notification that was sent
    for n in &notes {
        let mut chain: BTreeMap<&String, (Option<u64>, Option<u64>)> = BTreeMap::new();
        let mut broken = false;
        for d in &n.diffs {
            // an entry is the report of one step of one touched address: an address that was no
            // member before the step and is none after it was not touched by it
            if d.old.is_none() && d.new.is_none() {
                out.push(Violation::new(
                    "C14.diff_names_only_touched_addresses",
                    format!("{what}: entry {{{}, old: None, new: None}} (notification to {})", pretty(&d.key), pretty(&n.target)),
                ));
            }
            if !listed.contains(&d.key) {
                out.push(Violation::new(
                    "C14.entry_names_untouched_address",
                    format!("{what}: entry for {} which the call did not name", pretty(&d.key)),
                ));
            }
            match chain.get_mut(&d.key) {
                None => {
                    chain.insert(&d.key, (d.old, d.new));
                }
                Some(c) => {
                    if c.1 != d.old {
                        broken = true;
                        out.push(Violation::new(
                            "C14.diff_chain_is_continuous",
                            format!("{what}: entries for {} do not chain: previous new {:?}, next old {:?}", pretty(&d.key), c.1, d.old),
                        ));
                    }
                    c.1 = d.new;
                }
            }
        }
        if broken {
            continue;
        }
        for (k, (first_old, last_new)) in &chain {
            let (p, q) = (pre.get(*k).copied(), post.get(*k).copied());
            if *first_old != p {
                out.push(Violation::new(
                    "C14.diff_reports_true_previous_weight",
                    format!("{what}: {} reported old {:?}, true previous weight {:?}", pretty(k), first_old, p),
                ));
            }
            if *last_new != q {
                out.push(Violation::new(
                    "C14.diff_reports_true_new_weight",
                    format!("{what}: {} reported new {:?}, true new weight {:?}", pretty(k), last_new, q),
                ));
            }
        }
        for c in &changed {
            if !chain.contains_key(*c) {
                out.push(Violation::new(
                    "C14.every_change_is_reported",
                    format!(
                        "{what}: weight of {} changed {:?} -> {:?} without an entry (notification to {})",
                        pretty(c),
                        pre.get(*c),
                        post.get(*c),
                        pretty(&n.target)
                    ),
                ));
            }
        }
    }
}

pub fn member_map(l: &[Member]) -> BTreeMap<String, u64> {
    l.iter().map(|m| (m.addr.clone(), m.weight)).collect()
}

/// Memo of state fingerprints whose STATE oracle already passed. The state oracles are
/// deterministic functions of the fingerprinted state, so re-evaluating them on another
/// transition into the same state cannot give a different answer; failures are never cached.
pub struct Memo {
    shards: Vec<std::sync::Mutex<std::collections::HashSet<u128>>>,
}

impl Default for Memo {
    fn default() -> Self {
        Memo { shards: (0..64).map(|_| std::sync::Mutex::new(std::collections::HashSet::new())).collect() }
    }
}

impl Memo {
    /// run `f` unless it already passed for `fp`; remember `fp` if it adds no violation
    pub fn once(&self, fp: u128, out: &mut Vec<Violation>, f: impl FnOnce(&mut Vec<Violation>)) {
        let sh = &self.shards[(fp as usize) & 63];
        if sh.lock().unwrap().contains(&fp) {
            return;
        }
        let n = out.len();
        f(out);
        if out.len() == n {
            sh.lock().unwrap().insert(fp);
        }
    }
}

/// `World` hashed WITHOUT the snapshot changelog / checkpoint namespaces of one contract.
///
/// Used as fingerprint by C10 and C14 only. Argument: those namespaces are written by
/// `SnapshotMap::save/remove` and read only (a) by `may_load_at_height`, i.e. the `at_height`
/// queries, which neither property observes, and (b) by `has_changelog`, whose answer only decides
/// whether another changelog entry is written. No execute path, no current-value query and no
/// message of the contracts depends on them, so two states that differ only there have the same
/// future behaviour under every oracle of C10/C14. (C09, which is about exactly this history,
/// fingerprints the full world.)
pub struct NoHistory<'a>(pub &'a World, pub &'a str);

fn ns_prefix(ns: &str) -> Vec<u8> {
    let mut p = vec![(ns.len() >> 8) as u8, (ns.len() & 0xff) as u8];
    p.extend_from_slice(ns.as_bytes());
    p
}

impl<'a> std::hash::Hash for NoHistory<'a> {
    fn hash<H: std::hash::Hasher>(&self, h: &mut H) {
        thread_local! {
            static SKIP: [Vec<u8>; 4] = [
                ns_prefix(cw4::MEMBERS_CHANGELOG),
                ns_prefix(cw4::MEMBERS_CHECKPOINTS),
                ns_prefix(cw4::TOTAL_KEY_CHANGELOG),
                ns_prefix(cw4::TOTAL_KEY_CHECKPOINTS),
            ];
        }
        let w = self.0;
        w.height.hash(h);
        w.time_s.hash(h);
        for (k, v) in &w.bank {
            if *v != 0 {
                k.hash(h);
                v.hash(h);
            }
        }
        0xffu8.hash(h);
        for (addr, c) in &w.contracts {
            addr.hash(h);
            c.vt.name.hash(h);
            let filter = addr == self.1;
            let mut n = 0u32;
            for (k, v) in c.store.0.iter() {
                if filter && SKIP.with(|s| s.iter().any(|p| k.starts_with(p))) {
                    continue;
                }
                k.hash(h);
                v.hash(h);
                n += 1;
            }
            n.hash(h);
        }
        w.failing.hash(h);
        w.gas_fail.hash(h);
        w.outbox.hash(h);
        w.next_seq.hash(h);
    }
}
