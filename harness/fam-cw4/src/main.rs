//! fam-cw4: exhaustive exploration of cw4-group and cw4-stake for C09, C10, C14.
//!   fam-cw4 C09|C10|C14 --tier quick|thorough      fam-cw4 replay <file>
mod c09;
mod c10;
mod c14;
mod util;

use mc::report::{load_replay, run_replay, ReplayFile};
use mc::{Bounds, Known, Report, RunStats};
use util::H0;

/// one configuration of one of the five model types, with its depth bound
enum Job {
    G9(c09::GroupHist, Option<usize>),
    S9(c09::StakeHist, Option<usize>),
    S10(c10::StakeModel, Option<usize>),
    G14(c14::GroupAdmin, Option<usize>),
    S14(c14::StakeAdmin, Option<usize>),
}

impl Job {
    fn name(&self) -> String {
        use mc::Model;
        match self {
            Job::G9(m, _) => m.name(),
            Job::S9(m, _) => m.name(),
            Job::S10(m, _) => m.name(),
            Job::G14(m, _) => m.name(),
            Job::S14(m, _) => m.name(),
        }
    }
    fn run(&self, known: &Known, thorough: bool, seed: u64) -> RunStats {
        let b = |d: &Option<usize>| Bounds {
            max_depth: *d,
            max_states: 8_000_000,
            max_secs: std::env::var("CW4_MAX_SECS").ok().and_then(|x| x.parse().ok()).unwrap_or(if thorough { 1500.0 } else { 120.0 }),
        };
        match self {
            Job::G9(m, d) => mc::bfs(m, &b(d), known, seed),
            Job::S9(m, d) => mc::bfs(m, &b(d), known, seed),
            Job::S10(m, d) => mc::bfs(m, &b(d), known, seed),
            Job::G14(m, d) => mc::bfs(m, &b(d), known, seed),
            Job::S14(m, d) => mc::bfs(m, &b(d), known, seed),
        }
    }
    fn replay(&self, rf: &ReplayFile) -> i32 {
        match self {
            Job::G9(m, _) => run_replay(m, rf),
            Job::S9(m, _) => run_replay(m, rf),
            Job::S10(m, _) => run_replay(m, rf),
            Job::G14(m, _) => run_replay(m, rf),
            Job::S14(m, _) => run_replay(m, rf),
        }
    }
}

/// 33 member labels, sorted by their address (the order of the contracts' listing)
fn big_group_labels() -> Vec<&'static str> {
    const L: [&str; 33] = [
        "M00", "M01", "M02", "M03", "M04", "M05", "M06", "M07", "M08", "M09", "M10", "M11", "M12", "M13", "M14", "M15", "M16",
        "M17", "M18", "M19", "M20", "M21", "M22", "M23", "M24", "M25", "M26", "M27", "M28", "M29", "M30", "M31", "M32",
    ];
    let mut v: Vec<(String, &'static str)> = L.iter().map(|l| (util::a(l), *l)).collect();
    v.sort();
    v.into_iter().map(|x| x.1).collect()
}

fn c09_jobs(thorough: bool) -> Vec<Job> {
    let mut out = vec![];
    let g = |name: &str, names: Vec<&'static str>, n: u8, weights: Vec<u64>, initial: Vec<(u8, u64)>, blocks: u64, dup: bool| {
        Job::G9(
            c09::GroupHist {
                cfg: c09::GroupCfg {
                    name: name.to_string(),
                    names,
                    n_members: n,
                    weights,
                    max_add: 2,
                    max_remove: 2,
                    initial,
                    dup_add: dup,
                    initial_spelled: vec![],
                    case_variants: dup,
                    no_admin: false,
                    clear_admin: false,
                    hmax: H0 + blocks - 1,
                },
                memo: Default::default(),
            },
            None,
        )
    };
    let ab = || vec!["A", "B", "D"];
    let abc = || vec!["A", "B", "C", "D"];
    if thorough {
        out.push(g("C09/group/init[]/members{A,B}/weights{0,1,2}/4 blocks", ab(), 2, vec![0, 1, 2], vec![], 4, true));
        out.push(g("C09/group/init[A:1,B:2]/members{A,B,C}/weights{0,1}/3 blocks", abc(), 3, vec![0, 1], vec![(0, 1), (1, 2)], 3, false));
        out.push(g("C09/group/init[]/members{A,B,C}/weights{0,1,2}/2 blocks", abc(), 3, vec![0, 1, 2], vec![], 2, true));
        out.push(g("C09/group/init[A:1]/members{A,B}/weights{0,1,2}/3 blocks", ab(), 2, vec![0, 1, 2], vec![(0, 1)], 3, false));
        out.push(g("C09/group/init[A:0]/members{A,B}/weights{0,1,2}/3 blocks", ab(), 2, vec![0, 1, 2], vec![(0, 0)], 3, false));
        out.push(g("C09/group/init[A:1]/members{A,B}/weights{1,2^64-1}/3 blocks", ab(), 2, vec![1, u64::MAX], vec![(0, 1)], 3, true));
    } else {
        out.push(g("C09/group/init[]/members{A,B}/weights{0,1,2}/3 blocks", ab(), 2, vec![0, 1, 2], vec![], 3, true));
        out.push(g("C09/group/init[A:1,B:2]/members{A,B,C}/weights{0,1}/2 blocks", abc(), 3, vec![0, 1], vec![(0, 1), (1, 2)], 2, false));
        out.push(g("C09/group/init[A:1]/members{A,B}/weights{0,1,2}/2 blocks", ab(), 2, vec![0, 1, 2], vec![(0, 1)], 2, false));
        out.push(g("C09/group/init[A:0]/members{A,B}/weights{0,1,2}/2 blocks", ab(), 2, vec![0, 1, 2], vec![(0, 0)], 2, false));
        out.push(g("C09/group/init[A:1]/members{A,B}/weights{1,2^64-1}/2 blocks", ab(), 2, vec![1, u64::MAX], vec![(0, 1)], 2, true));
    }
    // repeated initial members: instantiation is expected to be refused; if it is not, the invariants decide
    out.push(g("C09/group/init[A:1,A:2] (repeated member)", ab(), 2, vec![0, 1], vec![(0, 1), (0, 2)], 1, false));
    out.push(g("C09/group/init[A:1,B:1,A:1] (repeated member)", ab(), 2, vec![0, 1], vec![(0, 1), (1, 1), (0, 1)], 1, false));
    // the admin gives the group up at any point of the history (UpdateAdmin{None}); a group that never
    // had an admin: the history before and at the instantiation height must still read None / 0
    for (nm, no_admin, initial, blocks) in [
        ("C09/group/init[A:1]/members{A,B}/weights{0,2}/admin may be cleared/3 blocks", false, vec![(0u8, 1u64)], 3u64),
        ("C09/group/no admin/init[A:1,B:2]/members{A,B}/weights{0,1}/3 blocks", true, vec![(0, 1), (1, 2)], 3),
    ] {
        out.push(Job::G9(
            c09::GroupHist {
                cfg: c09::GroupCfg {
                    name: nm.to_string(),
                    names: ab(),
                    n_members: 2,
                    weights: if no_admin { vec![0, 1] } else { vec![0, 2] },
                    max_add: if no_admin { 1 } else { 2 },
                    max_remove: if no_admin { 1 } else { 2 },
                    initial,
                    dup_add: false,
                    initial_spelled: vec![],
                    case_variants: false,
                    no_admin,
                    clear_admin: !no_admin,
                    hmax: H0 + blocks - 1,
                },
                memo: Default::default(),
            },
            None,
        ));
    }
    // one account named in lower and in UPPER case bech32 spelling at instantiation
    for (nm, list) in [
        ("C09/group/init[A:3, A in upper case:4] (one account, two spellings)", vec![(0u8, 3u64, false), (0, 4, true)]),
        ("C09/group/init[A in upper case:2, B:1]", vec![(0, 2, true), (1, 1, false)]),
    ] {
        out.push(Job::G9(
            c09::GroupHist {
                cfg: c09::GroupCfg {
                    name: nm.to_string(),
                    names: ab(),
                    n_members: 2,
                    weights: vec![0, 1],
                    max_add: 1,
                    max_remove: 1,
                    initial: vec![],
                    dup_add: false,
                    initial_spelled: list,
                    case_variants: true,
                    no_admin: false,
                    clear_admin: false,
                    hmax: H0,
                },
                memo: Default::default(),
            },
            Some(2),
        ));
    }
    // more members than one listing page (33 > 30): the update alphabet is the two members that sort
    // last in address order, every member is probed
    {
        let sorted = big_group_labels();
        let mut names: Vec<&'static str> = vec![sorted[32], sorted[31]];
        names.extend(sorted[..31].iter().copied());
        names.push("D");
        out.push(Job::G9(
            c09::GroupHist {
                cfg: c09::GroupCfg {
                    name: "C09/group/33 initial members of weight 1/updates of the two last in address order/weights{0,2}/2 blocks".to_string(),
                    names,
                    n_members: 2,
                    weights: vec![0, 2],
                    max_add: 2,
                    max_remove: 1,
                    initial: (0..33u8).map(|i| (i, 1)).collect(),
                    dup_add: false,
                    initial_spelled: vec![],
                    case_variants: false,
                    no_admin: false,
                    clear_admin: false,
                    hmax: H0 + 1,
                },
                memo: Default::default(),
            },
            Some(if thorough { 4 } else { 2 }),
        ));
    }
    let s = |tpw: u128, min_bond: u128, funds: Vec<u128>, blocks: u64| {
        Job::S9(
            c09::StakeHist {
                cfg: c09::StakeCfg {
                    name: format!("C09/stake/native/tokens_per_weight {tpw}/min_bond {min_bond}/funds {:?}/{blocks} blocks", funds),
                    tpw,
                    min_bond,
                    funds,
                    amounts: vec![1, 2, 3],
                    period: (false, 1),
                    hmax: H0 + blocks - 1,
                },
                memo: Default::default(),
            },
            None,
        )
    };
    if thorough {
        out.push(s(1, 1, vec![3, 2], 4));
        out.push(s(2, 2, vec![3, 2], 4));
        out.push(s(2, 1, vec![3, 1], 4));
        out.push(s(1, 2, vec![2, 2], 4));
    } else {
        out.push(s(1, 1, vec![3, 2], 3));
        out.push(s(2, 2, vec![3, 2], 3));
        out.push(s(2, 1, vec![3, 1], 3));
    }
    // min_bond that is NOT a multiple of tokens_per_weight: a stake can fall below min_bond without leaving its
    // weight step (3 -> 2 with tokens_per_weight 2, min_bond 3) and the member must still go (seeded C09_r12_1)
    out.push(s(2, 3, vec![3, 2], 3));
    // a zero unbonding period (claims mature in the block of the unbond), block- and time-based
    for (time, nm) in [(false, "Height(0)"), (true, "Time(0)")] {
        out.push(Job::S9(
            c09::StakeHist {
                cfg: c09::StakeCfg {
                    name: format!("C09/stake/native/tokens_per_weight 1/min_bond 1/unbonding {nm}/funds [2, 1]/3 blocks"),
                    tpw: 1,
                    min_bond: 1,
                    funds: vec![2, 1],
                    amounts: vec![1, 2],
                    period: (time, 0),
                    hmax: H0 + 2,
                },
                memo: Default::default(),
            },
            None,
        ));
    }
    // weights that each fit 64 bits but whose sum does not: the total must not wrap (the second
    // bond may be refused); finite funds and a capped clock, run to the fixpoint
    let big: u128 = 10_000_000_000_000_000_000;
    out.push(Job::S9(
        c09::StakeHist {
            cfg: c09::StakeCfg {
                name: "C09/stake/native/tokens_per_weight 1/min_bond 1/funds [1e19, 1e19]/amounts {1e19, 1}/2 blocks/edge: sum of weights above 2^64".into(),
                tpw: 1,
                min_bond: 1,
                funds: vec![big, big],
                amounts: vec![big, 1],
                period: (false, 1),
                hmax: H0 + 1,
            },
            memo: Default::default(),
        },
        Some(if thorough { 8 } else { 6 }),
    ));
    out
}

fn c10_jobs(thorough: bool) -> Vec<Job> {
    use c10::{Cfg, Period, StakeModel};
    let mut out = vec![];
    let mk = |cw20: bool, tpw: u128, mb: u128, period: Period, funds: [u128; 3], bond: Vec<u128>, unbond: Vec<u128>, blocks: u64, adv: bool, tag: &str, depth: Option<usize>| {
        let p = match period {
            Period::Height(h) => format!("Height({h})"),
            Period::Time(t) => format!("Time({t}s)"),
        };
        Job::S10(
            StakeModel {
                cfg: Cfg {
                    name: format!(
                        "C10/{}/tokens_per_weight {tpw}/min_bond {mb}/unbonding {p}/funds {:?}/{blocks} blocks/{tag}",
                        if cw20 { "cw20" } else { "native" },
                        funds
                    ),
                    cw20,
                    tpw,
                    min_bond: mb,
                    period,
                    funds,
                    bond_amts: bond,
                    unbond_amts: unbond,
                    hmax: H0 + blocks - 1,
                    start_ns: 0,
                    advance_ns: vec![],
                    jumps: vec![],
                    adversarial: adv,
                },
            },
            depth,
        )
    };
    // time-based unbonding observed with sub-second resolution: blocks at T0+0.7 s, steps of 9.5 s and
    // 0.5 s, period 10 s. A claim created at x matures at exactly x+10 s; the instants x+9.5 s (which lies
    // after floor_to_second(x)+10 s when x has the fraction .7) and x+10 s separate exact from truncated release.
    let subsec = |cw20: bool, tpw: u128, mb: u128| {
        Job::S10(
            StakeModel {
                cfg: Cfg {
                    name: format!(
                        "C10/{}/tokens_per_weight {tpw}/min_bond {mb}/unbonding Time(10s)/funds [2, 1, 0]/4 blocks/sub-second clock: start +0.7 s, steps 9.5 s and 0.5 s",
                        if cw20 { "cw20" } else { "native" }
                    ),
                    cw20,
                    tpw,
                    min_bond: mb,
                    period: Period::Time(10),
                    funds: [2, 1, 0],
                    bond_amts: vec![1, 2],
                    unbond_amts: vec![1, 2],
                    hmax: H0 + 3,
                    start_ns: 700_000_000,
                    advance_ns: vec![9_500_000_000, 500_000_000],
                    jumps: vec![],
                    adversarial: false,
                },
            },
            None,
        )
    };
    let hp = Period::Height(2);
    let tp = Period::Time(2 * util::DT);
    if thorough {
        for cw20 in [false, true] {
            for tpw in [1u128, 2, 3] {
                for period in [hp, tp] {
                    for mb in [0u128, 1, 2] {
                        out.push(mk(cw20, tpw, mb, period, [3, 1, 1], vec![1, 2, 3], vec![0, 1, 2, 3], 4, true, "closed", None));
                    }
                    // a minimum bond above one weight unit: more funds, coarser amounts
                    out.push(mk(cw20, tpw, 5, period, [6, 1, 0], vec![2, 3, 5], vec![0, 1, 3], 4, true, "closed", None));
                }
            }
        }
        // two larger closed systems: both stakers with several tokens and a donor
        out.push(mk(false, 1, 1, hp, [3, 2, 1], vec![1, 2, 3], vec![0, 1, 2, 3], 4, true, "closed", None));
        out.push(mk(true, 2, 2, tp, [3, 2, 1], vec![1, 2, 3], vec![0, 1, 2, 3], 4, true, "closed", None));
    } else {
        out.push(mk(false, 1, 0, hp, [3, 1, 1], vec![1, 2, 3], vec![0, 1, 2, 3], 4, true, "closed", None));
        out.push(mk(false, 2, 2, tp, [3, 2, 0], vec![1, 2, 3], vec![1, 2, 3], 4, true, "closed", None));
        out.push(mk(true, 1, 1, hp, [3, 1, 1], vec![1, 2, 3], vec![0, 1, 2, 3], 4, true, "closed", None));
        out.push(mk(true, 3, 2, tp, [4, 1, 0], vec![1, 2, 3], vec![0, 1, 3], 4, true, "closed", None));
        out.push(mk(false, 3, 5, hp, [6, 1, 0], vec![2, 3, 5], vec![0, 1, 3], 4, true, "closed", None));
    }
    // very long unbonding periods (more than ten years of seconds / blocks): the clock jumps by
    // 315 360 000 and by 84 640 000 (blocks and seconds), so a Claim is tried after 315 360 000 and
    // at exactly 400 000 000, the configured period
    let long = |cw20: bool, period: Period| {
        let p = match period {
            Period::Height(h) => format!("Height({h})"),
            Period::Time(t) => format!("Time({t}s)"),
        };
        Job::S10(
            StakeModel {
                cfg: Cfg {
                    name: format!(
                        "C10/{}/tokens_per_weight 1/min_bond 1/unbonding {p}/funds [2, 1, 0]/clock jumps of 315360000 and 84640000 blocks+seconds",
                        if cw20 { "cw20" } else { "native" }
                    ),
                    cw20,
                    tpw: 1,
                    min_bond: 1,
                    period,
                    funds: [2, 1, 0],
                    bond_amts: vec![1, 2],
                    unbond_amts: vec![1, 2],
                    hmax: H0 + 400_000_000,
                    start_ns: 0,
                    advance_ns: vec![],
                    jumps: vec![315_360_000, 84_640_000],
                    adversarial: false,
                },
            },
            None,
        )
    };
    // zero unbonding period: a claim is mature in the block of its unbond
    out.push(mk(false, 1, 1, Period::Height(0), [2, 1, 0], vec![1, 2], vec![1, 2], 3, false, "closed", None));
    out.push(mk(false, 2, 1, Period::Time(0), [2, 1, 0], vec![1, 2], vec![1, 2], 3, false, "closed", None));
    out.push(long(false, Period::Height(400_000_000)));
    out.push(long(false, Period::Time(400_000_000)));
    if thorough {
        out.push(long(true, Period::Height(400_000_000)));
        out.push(long(true, Period::Time(400_000_000)));
    }
    out.push(subsec(false, 1, 1));
    if thorough {
        out.push(subsec(true, 2, 1));
    }
    // boundary stakes: quotients around 2^64 and amounts around 2^128
    let p64: u128 = 1 << 64;
    let depth = Some(if thorough { 7 } else { 5 });
    for cw20 in [false, true] {
        for tpw in if thorough { vec![1u128, 2, 3] } else { vec![1u128, 2] } {
            if !thorough && cw20 && tpw == 2 {
                continue;
            }
            let q = p64 * tpw;
            out.push(mk(
                cw20,
                tpw,
                1,
                hp,
                [q + 3, q, 0],
                vec![q + 3, q, q - 1, 1, 3],
                vec![1, 3, q],
                3,
                false,
                "edge: stakes around 2^64*tokens_per_weight",
                depth,
            ));
        }
        // tokens_per_weight that does not fit 64 bits: stakes below it weigh 0, at or above it 1
        out.push(mk(
            cw20,
            p64 + 1000,
            5000,
            hp,
            [p64 + 13_000, 12_000, 0],
            vec![12_000, p64 + 1000],
            vec![1, 12_000],
            3,
            false,
            "edge: tokens_per_weight above 2^64",
            depth,
        ));
        // two stakers whose weights fit 64 bits each but not together
        out.push(mk(
            cw20,
            1,
            1,
            hp,
            [10_000_000_000_000_000_000, 10_000_000_000_000_000_000, 0],
            vec![10_000_000_000_000_000_000, 1],
            vec![1, 10_000_000_000_000_000_000],
            3,
            false,
            "edge: sum of weights above 2^64",
            depth,
        ));
        out.push(mk(
            cw20,
            1,
            1,
            hp,
            [u128::MAX, 0, 0],
            vec![u128::MAX, u128::MAX - 1, 1],
            vec![1, u128::MAX],
            3,
            false,
            "edge: stakes around 2^128",
            depth,
        ));
    }
    out
}

fn c14_jobs(thorough: bool) -> Vec<Job> {
    let mut out = vec![];
    let hk = |n: usize| c14::HOOKS[..n].to_vec();
    let g = |name: &str, admin: Option<u8>, initial: Vec<(u8, u64)>, n: u8, weights: Vec<u64>, removes: Vec<Vec<u8>>, full: Vec<u8>, callers: Vec<u8>, hooks: Vec<&'static str>, blocks: u64| {
        Job::G14(
            c14::GroupAdmin {
                cfg: c14::GroupCfg {
                    name: name.to_string(),
                    admin,
                    initial,
                    add_lists: c09::add_lists(n, 2, &weights),
                    remove_lists: removes,
                    full_callers: full,
                    wasm_admin: callers.contains(&7),
                    callers,
                    members: c14::MEMBERS.to_vec(),
                    hooks,
                    hmax: H0 + blocks - 1,
                },
            },
            None,
        )
    };
    // remove lists over {A,B} plus a non-member C, a repeated address and a reversed order
    let rem2 = || vec![vec![], vec![0], vec![1], vec![0, 1], vec![2], vec![0, 2], vec![0, 0], vec![1, 0]];
    let rem3 = || {
        let mut r = c09::subsets(3, 2);
        r.push(vec![0, 0]);
        r.push(vec![2, 0]);
        r
    };
    if thorough {
        out.push(g("C14/group/admin AD/init[]/members{A,B,C}/weights{0,1,2}/3 hooks/2 blocks", Some(0), vec![], 3, vec![0, 1, 2], rem3(), vec![0, 1, 2], vec![0, 1, 2], hk(3), 2));
        out.push(g("C14/group/admin AD/init[A:1,B:2]/members{A,B,C}/weights{0,1,2}/2 hooks/3 blocks", Some(0), vec![(0, 1), (1, 2)], 3, vec![0, 1, 2], rem3(), vec![0, 1], vec![0, 1, 2], hk(2), 3));
        out.push(g("C14/group/no admin/init[A:1,B:2]/members{A,B}/weights{0,1,2}/3 hooks/2 blocks", None, vec![(0, 1), (1, 2)], 2, vec![0, 1, 2], rem2(), vec![0, 1, 2], vec![0, 1, 2], hk(3), 2));
    }
    // (the quick configurations are part of the thorough tier too)
    out.push(g("C14/group/admin AD/init[]/members{A,B,C}/weights{0,1,2}/2 hooks/2 blocks", Some(0), vec![], 3, vec![0, 1, 2], rem3(), vec![0, 1], vec![0, 1, 2], hk(2), 2));
    out.push(g("C14/group/admin AD/init[A:1,B:2]/members{A,B}/weights{0,1,2}/callers AD,AD2,X, the members A,B, the hooks H1,H2 and the wasm admin W/2 hooks/2 blocks", Some(0), vec![(0, 1), (1, 2)], 2, vec![0, 1, 2], rem2(), vec![0, 1, 2], vec![0, 1, 2, 3, 4, 5, 6, 7], hk(2), 2));
    out.push(g("C14/group/no admin/init[A:1,B:2]/members{A,B}/weights{0,1,2}/callers AD,AD2,X, the members A,B, the hooks H1,H2 and the wasm admin W/2 hooks/2 blocks", None, vec![(0, 1), (1, 2)], 2, vec![0, 1, 2], rem2(), vec![0, 1, 2], vec![0, 1, 2, 3, 4, 5, 6, 7], hk(2), 2));
    // the admins themselves are offered as hook addresses: a governing contract that also listens
    out.push(g("C14/group/admin AD/init[A:1]/members{A,B}/weights{0,1,2}/hooks{H1,AD,AD2}/2 blocks", Some(0), vec![(0, 1)], 2, vec![0, 1, 2], rem2(), vec![0, 1], vec![0, 1, 2], vec!["H1", "AD", "AD2"], 2));
    // more members than one listing page: 33 members, updates of the two that sort last
    {
        let sorted = big_group_labels();
        let mut members: Vec<&'static str> = vec![sorted[32], sorted[31]];
        members.extend(sorted[..31].iter().copied());
        out.push(Job::G14(
            c14::GroupAdmin {
                cfg: c14::GroupCfg {
                    name: "C14/group/admin AD/33 initial members of weight 1/updates of the two last in address order/weights{0,2}/1 hook".to_string(),
                    admin: Some(0),
                    initial: (0..33u8).map(|i| (i, 1)).collect(),
                    add_lists: c09::add_lists(2, 2, &[0, 2]),
                    remove_lists: vec![vec![], vec![0], vec![1]],
                    full_callers: vec![0],
                    callers: vec![0],
                    members,
                    wasm_admin: false,
                    hooks: hk(1),
                    hmax: H0,
                },
            },
            Some(if thorough { 4 } else { 3 }),
        ));
    }
    // one UpdateMembers naming 12 (and 11) addresses at once, two hooks
    {
        let labels = big_group_labels();
        let members: Vec<&'static str> = labels[..12].to_vec();
        let all: Vec<(u8, u64)> = (0..12u8).map(|i| (i, 1)).collect();
        let reweigh: Vec<(u8, u64)> = (0..11u8).map(|i| (i, 2)).collect();
        out.push(Job::G14(
            c14::GroupAdmin {
                cfg: c14::GroupCfg {
                    name: "C14/group/admin AD/init[]/updates naming 12 and 11 addresses at once/2 hooks".to_string(),
                    admin: Some(0),
                    initial: vec![],
                    add_lists: vec![vec![], all, reweigh, vec![(0, 3)]],
                    remove_lists: vec![vec![], (0..12u8).collect(), vec![11]],
                    full_callers: vec![0],
                    callers: vec![0],
                    members,
                    wasm_admin: false,
                    hooks: hk(2),
                    hmax: H0,
                },
            },
            Some(if thorough { 5 } else { 4 }),
        ));
    }
    let s = |admin: Option<u8>, tpw: u128, mb: u128, funds: Vec<u128>, amounts: Vec<u128>, hooks: Vec<&'static str>, blocks: u64, cw20: bool| {
        // the default hook addresses also try the admin/hook calls themselves
        let callers: Vec<u8> = if hooks.iter().all(|h| c14::HOOKS.contains(h)) { vec![0, 1, 2, 5, 6, 7] } else { vec![0, 1, 2] };
        let hooks_name = if hooks.iter().all(|h| c14::HOOKS.contains(h)) { format!("{} hooks", hooks.len()) } else { format!("hooks{:?}", hooks) };
        Job::S14(
            c14::StakeAdmin {
                cfg: c14::StakeCfg {
                    name: format!(
                        "C14/stake/{}{}/tokens_per_weight {tpw}/min_bond {mb}/funds {:?}/{hooks_name}/{blocks} blocks",
                        if cw20 { "cw20 token, dispatched/" } else { "" },
                        if admin.is_some() { "admin AD" } else { "no admin" },
                        funds
                    ),
                    admin,
                    tpw,
                    min_bond: mb,
                    funds,
                    amounts,
                    cw20,
                    period: 1,
                    sequential_hooks: false,
                    wasm_admin: callers.contains(&7),
                    callers,
                    hooks,
                    hmax: H0 + blocks - 1,
                },
            },
            None,
        )
    };
    if thorough {
        out.push(s(Some(0), 1, 1, vec![4, 3], vec![1, 2, 3], hk(3), 2, false));
        out.push(s(Some(0), 2, 2, vec![4, 3], vec![1, 2, 3], hk(3), 2, false));
        out.push(s(Some(0), 3, 2, vec![5, 3], vec![1, 2, 3], hk(2), 3, false));
    }
    out.push(s(Some(0), 1, 1, vec![3, 2], vec![1, 2, 3], hk(2), 2, false));
    out.push(s(Some(0), 2, 2, vec![4, 2], vec![1, 2, 3], hk(2), 2, false));
    out.push(s(Some(0), 2, 3, vec![4, 2], vec![1, 2], hk(2), 2, false));
    out.push(s(None, 2, 1, vec![3, 2], vec![1, 2], hk(2), 1, false));
    // tokens_per_weight above min_bond: members with weight 0 come and go; a staker is also a hook
    out.push(s(Some(0), 3, 1, vec![3, 2], vec![1, 2], vec!["H1", "U1"], 2, false));
    // cw20 stake token: bonding arrives through the token's Send -> Receive, everything is dispatched
    out.push(s(Some(0), 2, 1, vec![3, 2], vec![1, 2], hk(2), 2, true));
    // the contract's own address and a member's address among the hook addresses (cw4-group)
    out.push(Job::G14(c14::GroupAdmin {
        cfg: c14::GroupCfg {
            name: "C14/group/admin AD/init[A:1]/members{A,B}/weights{0,1}/hooks{H1, the member A, the group itself}/1 block".to_string(),
            admin: Some(0),
            initial: vec![(0, 1)],
            add_lists: c09::add_lists(2, 2, &[0, 1]),
            remove_lists: vec![vec![], vec![0], vec![1], vec![0, 1]],
            full_callers: vec![0],
            callers: vec![0, 1, 2],
            members: c14::MEMBERS.to_vec(),
            wasm_admin: false,
            hooks: vec!["H1", "A", "group"],
            hmax: H0,
        },
    }, None));
    // cw4-stake: its own address as hook; seven hooks registered one after the other; a zero unbonding period
    let st = |name: &str, hooks: Vec<&'static str>, sequential: bool, period: u64, funds: Vec<u128>| {
        Job::S14(c14::StakeAdmin {
            cfg: c14::StakeCfg {
                name: name.to_string(),
                admin: Some(0),
                tpw: 1,
                min_bond: 1,
                funds,
                amounts: vec![1, 2],
                cw20: false,
                period,
                sequential_hooks: sequential,
                wasm_admin: false,
                callers: vec![0, 2],
                hooks,
                hmax: H0 + 1,
            },
        }, None)
    };
    out.push(st("C14/stake/admin AD/tokens_per_weight 1/min_bond 1/funds [2, 1]/hooks{H1, the staking contract itself}/2 blocks", vec!["H1", "stakec"], false, 1, vec![2, 1]));
    out.push(st("C14/stake/admin AD/tokens_per_weight 1/min_bond 1/funds [2, 1]/7 hooks registered in order/2 blocks", vec!["H1", "H2", "H3", "H4", "H5", "H6", "H7"], true, 1, vec![2, 1]));
    out.push(st("C14/stake/admin AD/tokens_per_weight 1/min_bond 1/unbonding Height(0)/funds [2, 1]/hooks{H1}/2 blocks", vec!["H1"], false, 0, vec![2, 1]));
    out
}

fn jobs(prop: &str, thorough: bool) -> Vec<Job> {
    match prop {
        "C09" => c09_jobs(thorough),
        "C10" => c10_jobs(thorough),
        "C14" => c14_jobs(thorough),
        _ => vec![],
    }
}

fn describe(prop: &str) -> (&'static str, &'static str, &'static str) {
    match prop {
        "C09" => (
            "cw4-group: UpdateMembers with every add list over the member alphabet x weight alphabet of size <= 2 combined with every remove list of size <= 2 (overlaps, re-adds, re-weights, removal of non-members, zero weights, empty update, a repeated address in add and in remove, weights 2^64-1), any number of updates per block, AdvanceBlock up to the block bound; initial lists [], [A:1], [A:0], [A:1,B:2] lists with a repeated member and lists naming one account in lower and UPPER case spelling; updates naming a member in UPPER case; UpdateAdmin{None} at any point of the history and a group instantiated without admin; a group of 33 members (more than one listing page). cw4-stake (kernel + bank, native denom): Bond/Unbond of 1..3 tokens by two users, Claim, AdvanceBlock; unbonding Height(1), Height(0) and Time(0); one edge configuration with two users bonding 1e19 each (sum of weights above 2^64).",
            "reference = membership at the START of every block since instantiation. After every step, for every probe address (members and a never-member) and every height h in {0, H0-1, H0 .. now+2}: Member{addr,at_height:h} == reference (None up to and including the instantiation height, unaffected by changes in block h or later, current value for future heights); Member{addr} == current; cw4-group TotalWeight{at_height:h} likewise; TotalWeight == sum of ListMembers paged by 2; listing == true membership; ListMembers{start_after: X} for every probe address X (member or not), in one page and paged by 1, == the true members sorting after X; raw cw4::TOTAL_KEY and cw4::member_key(addr) decode to the smart-query values. For cw4-stake the true weight of a staker is floor(stake/tokens_per_weight) of the stake its accepted bonds and unbonds add up to (None below max(min_bond,1)).",
            "the clock is capped (blocks per configuration in its name) and weights are finite, so every configuration runs to a FIXPOINT: all histories over the alphabet within the block bound, any number of updates per block",
        ),
        "C10" => (
            "Bond with funds {1,2,3 of the stake denom, another denom, a denom equal to the stake denom up to letter case, two denoms, a zero amount of the stake denom next to a foreign coin (both orders), none; in cw20 configurations a native coin whose denom is spelled like the token address}; cw20 Send{Bond} through the configured real cw20-base token and through a foreign one; Receive sent directly by a user (for himself / for another user); Unbond {0,1,2,3, stake+1}; Claim; a donation to the contract; AdvanceBlock (+1 block, +5 s; in the sub-second configuration blocks start at T0+0.7 s and advance by 9.5 s or 0.5 s). Configurations: native / cw20 stake token, tokens_per_weight {1,2,3}, min_bond {0,1,2,5}, unbonding Height(2) / Time(10 s) (and Height/Time(400 000 000) with a jumping clock), two stakers with finite funds and a donor. Edge configurations: bonds of 2^64*tpw-1, 2^64*tpw, 2^64*tpw+3, 2^128-1, 2^128-2, two stakers bonding 1e19 each (sum of weights above 2^64), and tokens_per_weight 2^64+1000 with min_bond 5000.",
            "reference ledger {stake[u], claims[u]=[(amount, unbond block height / exact block time in nanoseconds + period)]} stepped on accepted calls. State: real holdings of the contract (kernel bank / real cw20 balance) >= sum stakes + sum unreleased claims, == when nobody donated; Staked and Claims queries == ledger; Member{u} == Some(floor(stake/tokens_per_weight)) compared in 128 bits iff stake >= max(min_bond,1) else None; TotalWeight == sum of listed weights; listing == Member queries. Transition: accepted bond with anything but exactly the configured token, foreign-token Send{Bond} or user-sent Receive accepted => violation; Unbond above the stake accepted => violation; a Claim by a user with matured unpaid claims (> 0) is accepted; an accepted Claim moves exactly the sum of the caller's claims whose release point is reached (computed by the reference) from the contract to the caller and removes them, nobody else's balance moves; every other accepted call moves exactly its own amount; a refused call and a block advance change nothing.",
            "closed configurations (finite funds, capped clock, zero-unbond offered once per pending zero claim) run to FIXPOINT; edge configurations to the stated depth",
        ),
        "C14" => (
            "cw4-group: UpdateAdmin{None|AD|AD2}, AddHook/RemoveHook{H1,H2(,H3)}, UpdateMembers (every add list of size <= 2 over members x weights, remove lists incl. overlap with add, a non-member, a repeated address; re-weight to the same value) by the admin, the other admin candidate, a stranger and (in two configurations) the members A and B themselves, incl. removing themselves, the hook addresses H1, H2 themselves and the chain-level (wasm) admin W of the contract; single updates naming 12 addresses; a group of 33 members (more than one listing page) whose last members in address order are re-weighted and removed; hook addresses that are the admins themselves, a member, or the contract itself; seven hooks (cw4-stake); a zero unbonding period; AdvanceBlock. cw4-stake: the same admin/hook calls (also sent by the hook addresses) plus Bond/Unbond by two users; native denom (response messages observed, not dispatched) and one configuration with a real cw20-base stake token where Send{Bond} -> Receive and every hook message are dispatched by the kernel to sink contracts and the notifications are read from the dispatch trace.",
            "reference {admin, hooks, members} stepped on accepted calls of the reference admin. A call by anyone else, and every call once the admin is None, leaves the Admin, Hooks and (cw4-group) ListMembers queries unchanged; after an admin's call they equal the reference. Every accepted call whose effect changes some weight returns exactly one member_changed_hook message per hook registered at that time; every notification goes to a registered hook, carries no funds, names only addresses the call listed (the bonding sender for cw4-stake), no entry has old None and new None; folding its diffs per address in order: first old == weight before the call, each new == next old, last new == weight after the call; every address whose weight changed has an entry. cw4-stake: a bond/unbond that changes no weight sends no notification.",
            "all configurations run to FIXPOINT (single block or two blocks; finite weights, hooks, admins, funds)",
        ),
        _ => ("", "", ""),
    }
}

fn run(prop: &str, tier: &str) -> i32 {
    let thorough = tier == "thorough";
    let mut js = jobs(prop, thorough);
    // development knob: explore only the configurations whose name contains the given text
    if let Ok(only) = std::env::var("CW4_ONLY") {
        js.retain(|j| j.name().contains(&only));
    }
    if js.is_empty() {
        eprintln!("fam-cw4 does not serve {prop}");
        return 2;
    }
    let known = Known::load(prop);
    let mut rep = Report::new(prop, tier, "cw4");
    let (alpha, oracle, bounds) = describe(prop);
    rep.alphabet = alpha.into();
    rep.oracle = oracle.into();
    rep.bounds = bounds.into();
    rep.assumptions = vec![
        "every call is an atomic transaction on the real entry points compiled from /repo (a panic is a failed transaction); after a refused call nothing is re-observed because the kernel commits nothing of a failed transaction".into(),
        "weights, amounts and funds come from small alphabets forced to collide plus the boundary values named in the alphabet, not all of u64/u128".into(),
        "addresses are MockApi bech32 addresses; block time advances 5 s per block".into(),
    ];
    match prop {
        "C09" => rep.assumptions.push(
            "the state oracle is a deterministic function of (world, reference): it is evaluated once per distinct state (memo keyed by the 128-bit state fingerprint), every transition still executes the real entry point; cw4-stake: the true weights follow the stakes the accepted bond/unbond calls add up to".into(),
        ),
        _ => {
            rep.assumptions.push(
                "fingerprint abstraction: the snapshot changelog/checkpoint namespaces (members__changelog, members__checkpoints, total__changelog, total__checkpoints) of the contract under test are left out of the state key; they are read only by at_height queries (C09's subject, not observed here) and by has_changelog, which only decides whether another changelog entry is written".into(),
            );
            rep.assumptions.push(
                "message routing, the bank and sub-message atomicity are the kernel's (cross-validated against cw-multi-test by kernel-diff); C14 does not dispatch the returned messages, they are the observation".into(),
            );
        }
    }
    let seed = mc::report::seed();
    let runs: Vec<RunStats> = mc::run_pooled(js.len(), |i| js[i].run(&known, thorough, seed));
    rep.runs = runs;
    rep.finish()
}

fn main() {
    mc::world::silence_panics();
    let a = mc::parse_args();
    let code = if a.cmd == "replay" {
        let rf = load_replay(a.path.as_deref().unwrap_or(""));
        let all = jobs(&rf.property, true).into_iter().chain(jobs(&rf.property, false));
        let mut found = None;
        for j in all {
            if j.name() == rf.config {
                found = Some(j);
                break;
            }
        }
        match found {
            Some(j) => j.replay(&rf),
            None => {
                eprintln!("machinery error: unknown config {}", rf.config);
                2
            }
        }
    } else {
        run(&a.cmd, &a.tier)
    };
    std::process::exit(code);
}
