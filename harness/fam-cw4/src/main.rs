fn main() {
    eprintln!("fam-cw4: not built yet");
    std::process::exit(2);
}
