//! C09 — totals and point-in-time weights match the true history (cw4-group and cw4-stake).
//!
//! Reference: the membership that held at the START of every block since instantiation. After
//! every step every probe address and the total are queried at every height from before
//! instantiation to two blocks into the future and compared with it; raw keys are decoded and
//! compared with the smart queries; the total is compared with the sum of the paged listing.
use crate::util::*;
use cosmwasm_std::{coins, to_json_vec, Uint128};
use cw4::{Member, MemberResponse, TotalWeightResponse};
use cw_utils::Duration;
use mc::world::World;
use mc::{fp128, Model, Step, Violation};
use serde::{Deserialize, Serialize};
use std::collections::BTreeMap;

pub const GROUP: &str = "group";
pub const STAKE: &str = "stakec";
pub const DENOM: &str = "stake";

type Members = BTreeMap<u8, u64>;

/// membership history: `starts[i]` = membership at the start of block `H0 + 1 + i`
#[derive(Clone, Debug, Default, PartialEq, Eq, Hash)]
pub struct Hist {
    pub cur: Members,
    pub starts: Vec<Members>,
    /// cw4-stake only: tokens bonded minus unbonded per staker (accepted calls)
    pub stake: Vec<u128>,
}

impl Hist {
    /// the reference answer for a query at height `h` asked in block `now`
    fn at(&self, h: u64, now: u64) -> Option<&Members> {
        if h <= H0 {
            None // the contract did not exist at the start of its instantiation block
        } else if h <= now {
            Some(&self.starts[(h - H0 - 1) as usize])
        } else {
            Some(&self.cur) // the future: nothing later than now is known, the present value stands
        }
    }
}

fn heights(now: u64) -> Vec<u64> {
    let mut v = vec![0, H0 - 1];
    v.extend(H0..=now + 2);
    v
}

/// The oracle shared by both contracts. `total_at_height`: cw4-group answers the total at a height.
fn check_history(
    w: &World,
    contract: &str,
    names: &[&'static str],
    r: &Hist,
    total_at_height: bool,
    out: &mut Vec<Violation>,
) {
    let now = w.height;
    let hs = heights(now);
    let sum = |m: Option<&Members>| -> u128 { m.map(|m| m.values().map(|x| *x as u128).sum()).unwrap_or(0) };
    for (i, n) in names.iter().enumerate() {
        let ad = a(n);
        let i = i as u8;
        for &h in &hs {
            let want = r.at(h, now).and_then(|m| m.get(&i).copied());
            let got: Result<MemberResponse, String> = w.query(
                contract,
                &cw4::Cw4QueryMsg::Member { addr: ad.clone(), at_height: Some(h) },
            );
            match got {
                Ok(g) if g.weight == want => {}
                other => out.push(Violation::new(
                    "C09.member_at_height",
                    format!(
                        "in block {now}: Member{{{n}, at_height:{h}}} = {:?}, the weight at the start of block {h} was {:?}",
                        other.map(|g| g.weight),
                        want
                    ),
                )),
            }
        }
        let want = r.cur.get(&i).copied();
        let got: Result<MemberResponse, String> =
            w.query(contract, &cw4::Cw4QueryMsg::Member { addr: ad.clone(), at_height: None });
        let cur_ok = matches!(&got, Ok(g) if g.weight == want);
        if !cur_ok {
            out.push(Violation::new(
                "C09.member_current",
                format!("in block {now}: Member{{{n}}} = {:?}, true weight {:?}", got.as_ref().map(|g| g.weight), want),
            ));
        }
        match raw_member(w, contract, &ad) {
            Ok(rawv) if got.as_ref().map(|g| g.weight == rawv).unwrap_or(false) => {}
            rawv => out.push(Violation::new(
                "C09.raw_member_key_eq_smart_query",
                format!("in block {now}: raw member_key({n}) = {:?}, smart query {:?}", rawv, got.map(|g| g.weight)),
            )),
        }
    }
    // totals
    let cur_total: Result<TotalWeightResponse, String> = if total_at_height {
        w.query(contract, &cw4::Cw4QueryMsg::TotalWeight { at_height: None })
    } else {
        w.query(contract, &cw4_stake::msg::QueryMsg::TotalWeight {})
    };
    if total_at_height {
        for &h in &hs {
            let want = sum(r.at(h, now));
            let got: Result<TotalWeightResponse, String> =
                w.query(contract, &cw4::Cw4QueryMsg::TotalWeight { at_height: Some(h) });
            match got {
                Ok(g) if g.weight as u128 == want => {}
                other => out.push(Violation::new(
                    "C09.total_at_height",
                    format!(
                        "in block {now}: TotalWeight{{at_height:{h}}} = {:?}, the total at the start of block {h} was {want}",
                        other.map(|g| g.weight)
                    ),
                )),
            }
        }
    }
    let want = sum(Some(&r.cur));
    if !matches!(&cur_total, Ok(g) if g.weight as u128 == want) {
        out.push(Violation::new(
            "C09.total_current",
            format!("in block {now}: TotalWeight = {:?}, sum of true weights {want}", cur_total.as_ref().map(|g| g.weight)),
        ));
    }
    match raw_total(w, contract) {
        Ok(Some(t)) if cur_total.as_ref().map(|g| g.weight == t).unwrap_or(false) => {}
        t => out.push(Violation::new(
            "C09.raw_total_key_eq_smart_query",
            format!("in block {now}: raw TOTAL_KEY = {:?}, smart query {:?}", t, cur_total.as_ref().map(|g| g.weight)),
        )),
    }
    // the listing, in pages of two
    match list_members(w, contract, 2) {
        Err(e) => out.push(Violation::new("C09.list_members_fails", e)),
        Ok(l) => {
            let s: u128 = l.iter().map(|m| m.weight as u128).sum();
            if !matches!(&cur_total, Ok(g) if g.weight as u128 == s) {
                out.push(Violation::new(
                    "C09.total_eq_sum_of_listed",
                    format!(
                        "in block {now}: TotalWeight = {:?}, listed members {:?} sum to {s}",
                        cur_total.as_ref().map(|g| g.weight),
                        l.iter().map(|m| (name_of(names, &m.addr), m.weight)).collect::<Vec<_>>()
                    ),
                ));
            }
            let mut want: Vec<(String, u64)> = r.cur.iter().map(|(i, wt)| (a(names[*i as usize]), *wt)).collect();
            want.sort();
            let mut got: Vec<(String, u64)> = l.iter().map(|m| (m.addr.clone(), m.weight)).collect();
            got.sort();
            // continuing the listing from any valid address X (member or not): exactly the true members
            // that sort after X, in one default page and paged one by one, and their weights add up
            for n in names.iter() {
                let x = a(n);
                let mut after: Vec<(String, u64)> = want.iter().filter(|m| m.0 > x).cloned().collect();
                after.sort();
                let wsum: u128 = after.iter().map(|m| m.1 as u128).sum();
                let page: Result<cw4::MemberListResponse, String> =
                    w.query(contract, &cw4::Cw4QueryMsg::ListMembers { start_after: Some(x.clone()), limit: None });
                let paged = list_members_from(w, contract, Some(x.clone()), 1);
                for (how, got) in [("one page", page.map(|p| p.members)), ("paged by 1", paged)] {
                    let shown = |l: &[(String, u64)]| l.iter().map(|m| (name_of(names, &m.0), m.1)).collect::<Vec<_>>();
                    match got {
                        Err(e) => out.push(Violation::new("C09.list_members_fails", e)),
                        Ok(l) => {
                            let mut g: Vec<(String, u64)> = l.iter().map(|m| (m.addr.clone(), m.weight)).collect();
                            g.sort();
                            let gsum: u128 = g.iter().map(|m| m.1 as u128).sum();
                            // a single page may be cut by the contract's page size: it must be a non-empty
                            // (if anything follows X) initial stretch of the members after X; the paged walk is complete
                            let good = if how == "one page" {
                                let l0: Vec<(String, u64)> = l.iter().map(|m| (m.addr.clone(), m.weight)).collect();
                                l0.len() <= after.len() && l0[..] == after[..l0.len()] && (after.is_empty() || !l0.is_empty())
                            } else {
                                g == after && gsum == wsum
                            };
                            if !good {
                                out.push(Violation::new(
                                    "C09.listing_from_cursor_is_the_members_after_it",
                                    format!(
                                        "in block {now}: ListMembers{{start_after:{n}}} ({how}) = {:?}, the true members after {n} are {:?}",
                                        shown(&g),
                                        shown(&after)
                                    ),
                                ));
                            }
                        }
                    }
                }
            }
            if want != got {
                out.push(Violation::new(
                    "C09.listed_members_are_the_true_members",
                    format!(
                        "in block {now}: listed {:?}, true members {:?}",
                        l.iter().map(|m| (name_of(names, &m.addr), m.weight)).collect::<Vec<_>>(),
                        r.cur.iter().map(|(i, wt)| (names[*i as usize], *wt)).collect::<Vec<_>>()
                    ),
                ));
            }
        }
    }
}

fn name_of(names: &[&'static str], addr: &str) -> String {
    names.iter().find(|n| a(n) == addr).map(|n| n.to_string()).unwrap_or_else(|| addr.to_string())
}

// ------------------------------------------------------------------------------------------ cw4-group

#[derive(Clone, Debug)]
pub struct GroupCfg {
    pub name: String,
    /// probe addresses; the first `n_members` of them are in the update alphabet
    pub names: Vec<&'static str>,
    pub n_members: u8,
    pub weights: Vec<u64>,
    pub max_add: usize,
    pub max_remove: usize,
    pub initial: Vec<(u8, u64)>,
    /// offer an UpdateMembers whose add list repeats an address
    pub dup_add: bool,
    /// instantiate with this list instead of `initial`: (member, weight, spelled in UPPER case)
    pub initial_spelled: Vec<(u8, u64, bool)>,
    /// offer updates that name member 0 in lower and in UPPER case bech32 spelling
    pub case_variants: bool,
    /// instantiate the group without an admin (immutable from the start)
    pub no_admin: bool,
    /// offer `UpdateAdmin{None}` by the admin (the group is frozen afterwards, its history must stay)
    pub clear_admin: bool,
    pub hmax: u64,
}

#[derive(Clone, Debug, Serialize, Deserialize)]
pub enum GAct {
    Update { add: Vec<(u8, u64)>, remove: Vec<u8> },
    /// an update whose entries carry a spelling flag (true = the address in UPPER case)
    UpdateSpelled { add: Vec<(u8, u64, bool)>, remove: Vec<(u8, bool)> },
    /// `UpdateAdmin{admin: None}` by the admin
    ClearAdmin,
    Advance,
}

fn spelled(label: &str, upper: bool) -> String {
    if upper {
        a(label).to_uppercase()
    } else {
        a(label)
    }
}

#[derive(Clone)]
pub struct GState {
    pub w: World,
    pub r: Hist,
    pub dead: bool,
}

pub struct GroupHist {
    pub cfg: GroupCfg,
    pub memo: Memo,
}

pub fn subsets(n: u8, max: usize) -> Vec<Vec<u8>> {
    let mut out: Vec<Vec<u8>> = vec![vec![]];
    let mut level: Vec<Vec<u8>> = vec![vec![]];
    for _ in 0..max {
        let mut next = vec![];
        for s in &level {
            let from = s.last().map(|x| x + 1).unwrap_or(0);
            for i in from..n {
                let mut t = s.clone();
                t.push(i);
                next.push(t);
            }
        }
        out.extend(next.iter().cloned());
        level = next;
    }
    out
}

/// every assignment of weights to every address subset of size ≤ max
pub fn add_lists(n: u8, max: usize, weights: &[u64]) -> Vec<Vec<(u8, u64)>> {
    let mut out = vec![];
    for s in subsets(n, max) {
        let mut acc: Vec<Vec<(u8, u64)>> = vec![vec![]];
        for i in s {
            let mut next = vec![];
            for p in &acc {
                for w in weights {
                    let mut t = p.clone();
                    t.push((i, *w));
                    next.push(t);
                }
            }
            acc = next;
        }
        out.extend(acc);
    }
    out
}

impl GroupHist {
    fn admin() -> String {
        a("AD")
    }
}

impl Model for GroupHist {
    type State = GState;
    type Action = GAct;

    fn name(&self) -> String {
        self.cfg.name.clone()
    }

    fn init(&self) -> (GState, Vec<Violation>) {
        let cfg = &self.cfg;
        let mut w = World::new();
        w.height = H0;
        w.time_s = T0;
        w.dispatch = false;
        let msg = cw4_group::msg::InstantiateMsg {
            admin: if cfg.no_admin { None } else { Some(Self::admin()) },
            members: if cfg.initial_spelled.is_empty() {
                cfg.initial.iter().map(|(i, wt)| Member { addr: a(cfg.names[*i as usize]), weight: *wt }).collect()
            } else {
                cfg.initial_spelled
                    .iter()
                    .map(|(i, wt, up)| Member { addr: spelled(cfg.names[*i as usize], *up), weight: *wt })
                    .collect()
            },
        };
        let out = w.instantiate(group_vt(), &a(GROUP), &a("creator"), &to_json_vec(&msg).unwrap(), &[]);
        let mut v = vec![];
        let mut r = Hist::default();
        // a list that repeats an account (also in another spelling) has no meaning fixed by the text
        let mut dup = !cfg.initial_spelled.is_empty();
        for (i, wt) in &cfg.initial {
            if r.cur.insert(*i, *wt).is_some() {
                dup = true;
            }
        }
        if !out.ok() {
            // refusing a repeated member is what the code promises and never a violation; any other
            // initial list must instantiate, or the configuration would silently explore nothing
            if !dup {
                v.push(Violation::new("cfg.instantiate_failed", out.err()));
            }
            return (GState { w, r: Hist::default(), dead: true }, v);
        }
        if dup {
            // the text fixes no meaning for a repeated initial member: take the listing as the
            // membership and require everything else to agree with it
            match list_members(&w, &a(GROUP), 30) {
                Ok(l) => {
                    r.cur = l
                        .iter()
                        .filter_map(|m| cfg.names.iter().position(|n| a(n) == m.addr).map(|i| (i as u8, m.weight)))
                        .collect()
                }
                Err(e) => v.push(Violation::new("C09.list_members_fails", e)),
            }
        }
        check_history(&w, &a(GROUP), &cfg.names, &r, true, &mut v);
        let dead = !v.is_empty();
        (GState { w, r, dead }, v)
    }

    fn actions(&self, s: &GState) -> Vec<GAct> {
        let cfg = &self.cfg;
        let mut out = vec![];
        if s.dead {
            return out;
        }
        let rems = subsets(cfg.n_members, cfg.max_remove);
        for add in add_lists(cfg.n_members, cfg.max_add, &cfg.weights) {
            for rem in &rems {
                if add.is_empty() && rem.is_empty() {
                    continue;
                }
                out.push(GAct::Update { add: add.clone(), remove: rem.clone() });
            }
        }
        out.push(GAct::Update { add: vec![], remove: vec![] });
        if cfg.dup_add {
            let (w0, w1) = (cfg.weights[0], *cfg.weights.last().unwrap());
            out.push(GAct::Update { add: vec![(0, w1), (0, w0)], remove: vec![] });
            // the same address twice in the remove list
            out.push(GAct::Update { add: vec![], remove: vec![0, 0] });
        }
        if cfg.clear_admin {
            out.push(GAct::ClearAdmin);
        }
        if cfg.case_variants {
            let (w0, w1) = (cfg.weights[0], *cfg.weights.last().unwrap());
            out.push(GAct::UpdateSpelled { add: vec![(0, w1, false), (0, w0.max(1), true)], remove: vec![] });
            out.push(GAct::UpdateSpelled { add: vec![(0, w1, true)], remove: vec![] });
            out.push(GAct::UpdateSpelled { add: vec![], remove: vec![(0, true)] });
            out.push(GAct::UpdateSpelled { add: vec![(1, w1, false)], remove: vec![(0, true)] });
        }
        if s.w.height < cfg.hmax {
            out.push(GAct::Advance);
        }
        out
    }

    fn step(&self, s: &GState, act: &GAct) -> Step<GState> {
        let cfg = &self.cfg;
        let mut v = vec![];
        let mut w = s.w.clone();
        let mut r = s.r.clone();
        let (label, ok) = match act {
            GAct::Advance => {
                r.starts.push(r.cur.clone());
                w.advance(1, DT);
                ("AdvanceBlock", true)
            }
            GAct::ClearAdmin => {
                let out = w.execute_json(
                    &Self::admin(),
                    &a(GROUP),
                    &cw4_group::msg::ExecuteMsg::UpdateAdmin { admin: None },
                    &[],
                );
                // membership and its history are untouched by a change of the admin
                ("UpdateAdmin{None}", out.ok())
            }
            GAct::UpdateSpelled { add, remove } => {
                let msg = cw4_group::msg::ExecuteMsg::UpdateMembers {
                    add: add
                        .iter()
                        .map(|(i, wt, up)| Member { addr: spelled(cfg.names[*i as usize], *up), weight: *wt })
                        .collect(),
                    remove: remove.iter().map(|(i, up)| spelled(cfg.names[*i as usize], *up)).collect(),
                };
                let out = w.execute_json(&Self::admin(), &a(GROUP), &msg, &[]);
                if out.ok() {
                    // which account an unusual spelling names is not fixed by the text: adopt the listing
                    // as the membership and let the invariants judge (total, history, raw keys)
                    if let Ok(l) = list_members(&w, &a(GROUP), 30) {
                        r.cur = l
                            .iter()
                            .filter_map(|m| cfg.names.iter().position(|n| a(n) == m.addr).map(|i| (i as u8, m.weight)))
                            .collect();
                    }
                }
                ("UpdateMembers(other spelling)", out.ok())
            }
            GAct::Update { add, remove } => {
                let msg = cw4_group::msg::ExecuteMsg::UpdateMembers {
                    add: add
                        .iter()
                        .map(|(i, wt)| Member { addr: a(cfg.names[*i as usize]), weight: *wt })
                        .collect(),
                    remove: remove.iter().map(|i| a(cfg.names[*i as usize])).collect(),
                };
                let out = w.execute_json(&Self::admin(), &a(GROUP), &msg, &[]);
                if out.ok() {
                    let mut seen = std::collections::BTreeSet::new();
                    let repeated = add.iter().any(|(i, _)| !seen.insert(*i));
                    if repeated {
                        // meaning not fixed by the text: adopt the listing (see init)
                        if let Ok(l) = list_members(&w, &a(GROUP), 30) {
                            r.cur = l
                                .iter()
                                .filter_map(|m| cfg.names.iter().position(|n| a(n) == m.addr).map(|i| (i as u8, m.weight)))
                                .collect();
                        }
                    } else {
                        for (i, wt) in add {
                            r.cur.insert(*i, *wt);
                        }
                        for i in remove {
                            r.cur.remove(i);
                        }
                    }
                }
                ("UpdateMembers", out.ok())
            }
        };
        self.memo.once(fp128(&(&w, &r, false)), &mut v, |v| check_history(&w, &a(GROUP), &cfg.names, &r, true, v));
        let dead = !v.is_empty();
        Step { next: GState { w, r, dead }, label: label.into(), ok, violations: v }
    }

    fn fingerprint(&self, s: &GState) -> u128 {
        fp128(&(&s.w, &s.r, s.dead))
    }
}

// ------------------------------------------------------------------------------------------ cw4-stake

#[derive(Clone, Debug)]
pub struct StakeCfg {
    pub name: String,
    pub tpw: u128,
    pub min_bond: u128,
    pub funds: Vec<u128>,
    pub amounts: Vec<u128>,
    /// unbonding period: (time based?, length in blocks / seconds)
    pub period: (bool, u64),
    pub hmax: u64,
}

#[derive(Clone, Debug, Serialize, Deserialize)]
pub enum SAct {
    Bond { u: u8, amt: Amt },
    Unbond { u: u8, amt: Amt },
    Claim { u: u8 },
    Advance,
}

pub struct StakeHist {
    pub cfg: StakeCfg,
    pub memo: Memo,
}

/// probe addresses of the staking runs: two stakers and an address that never stakes
const SNAMES: [&str; 3] = ["U1", "U2", "D"];

impl StakeHist {
    /// current membership as the contract reports it (the history is built from these observations:
    /// C09 speaks about consistency over time; whether the weight is the right function of the stake is C10)
    fn observe_cur(w: &World, v: &mut Vec<Violation>) -> Members {
        let mut m = Members::new();
        for (i, n) in SNAMES.iter().enumerate() {
            let got: Result<MemberResponse, String> =
                w.query(&a(STAKE), &cw4::Cw4QueryMsg::Member { addr: a(n), at_height: None });
            match got {
                Ok(g) => {
                    if let Some(wt) = g.weight {
                        m.insert(i as u8, wt);
                    }
                }
                Err(e) => v.push(Violation::new("C09.member_current", e)),
            }
        }
        m
    }
}

impl Model for StakeHist {
    type State = GState;
    type Action = SAct;

    fn name(&self) -> String {
        self.cfg.name.clone()
    }

    fn init(&self) -> (GState, Vec<Violation>) {
        let cfg = &self.cfg;
        let mut w = World::new();
        w.height = H0;
        w.time_s = T0;
        w.dispatch = true;
        for (i, f) in cfg.funds.iter().enumerate() {
            w.set_balance(&a(SNAMES[i]), DENOM, *f);
        }
        let msg = cw4_stake::msg::InstantiateMsg {
            denom: cw20::Denom::Native(DENOM.into()),
            tokens_per_weight: Uint128::new(cfg.tpw),
            min_bond: Uint128::new(cfg.min_bond),
            unbonding_period: if cfg.period.0 { Duration::Time(cfg.period.1) } else { Duration::Height(cfg.period.1) },
            admin: None,
        };
        let out = w.instantiate(stake_vt(), &a(STAKE), &a("creator"), &to_json_vec(&msg).unwrap(), &[]);
        let mut v = vec![];
        if !out.ok() {
            v.push(Violation::new("cfg.instantiate_failed", out.err()));
            return (GState { w, r: Hist::default(), dead: true }, v);
        }
        let r = Hist::default();
        check_history(&w, &a(STAKE), &SNAMES, &r, false, &mut v);
        let dead = !v.is_empty();
        (GState { w, r, dead }, v)
    }

    fn actions(&self, s: &GState) -> Vec<SAct> {
        let cfg = &self.cfg;
        let mut out = vec![];
        if s.dead {
            return out;
        }
        for u in 0..cfg.funds.len() as u8 {
            for &x in &cfg.amounts {
                out.push(SAct::Bond { u, amt: Amt(x) });
            }
            for &x in &cfg.amounts {
                out.push(SAct::Unbond { u, amt: Amt(x) });
            }
            out.push(SAct::Claim { u });
        }
        if s.w.height < cfg.hmax {
            out.push(SAct::Advance);
        }
        out
    }

    fn step(&self, s: &GState, act: &SAct) -> Step<GState> {
        let mut v = vec![];
        let mut w = s.w.clone();
        let mut r = s.r.clone();
        let (label, ok) = match act {
            SAct::Advance => {
                r.starts.push(r.cur.clone());
                w.advance(1, DT);
                ("AdvanceBlock", true)
            }
            SAct::Bond { u, amt } => {
                let out = w.execute_json(
                    &a(SNAMES[*u as usize]),
                    &a(STAKE),
                    &cw4_stake::msg::ExecuteMsg::Bond {},
                    &coins(amt.0, DENOM),
                );
                ("Bond", out.ok())
            }
            SAct::Unbond { u, amt } => {
                let out = w.execute_json(
                    &a(SNAMES[*u as usize]),
                    &a(STAKE),
                    &cw4_stake::msg::ExecuteMsg::Unbond { tokens: Uint128::new(amt.0) },
                    &[],
                );
                ("Unbond", out.ok())
            }
            SAct::Claim { u } => {
                let out = w.execute_json(&a(SNAMES[*u as usize]), &a(STAKE), &cw4_stake::msg::ExecuteMsg::Claim {}, &[]);
                ("Claim", out.ok())
            }
        };
        // a refused call leaves the kernel's world untouched (transactions are atomic): nothing to observe.
        // The true weights follow the stakes the accepted calls add up to (bond +, unbond -): every
        // bond/unbond is a membership change of the history this property is about
        if ok {
            if r.stake.len() < SNAMES.len() {
                r.stake.resize(SNAMES.len(), 0);
            }
            match act {
                SAct::Bond { u, amt } => r.stake[*u as usize] = r.stake[*u as usize].saturating_add(amt.0),
                SAct::Unbond { u, amt } => r.stake[*u as usize] = r.stake[*u as usize].saturating_sub(amt.0),
                _ => {}
            }
            if !matches!(act, SAct::Advance) {
                let floor = std::cmp::max(self.cfg.min_bond, 1);
                let mut m = Members::new();
                for (i, st) in r.stake.iter().enumerate() {
                    if *st >= floor {
                        match u64::try_from(*st / self.cfg.tpw) {
                            Ok(wt) => {
                                m.insert(i as u8, wt);
                            }
                            // a weight beyond 64 bits cannot be reported at all: take what is observed
                            Err(_) => {
                                if let Some(wt) = Self::observe_cur(&w, &mut v).get(&(i as u8)) {
                                    m.insert(i as u8, *wt);
                                }
                            }
                        }
                    }
                }
                r.cur = m;
            }
        }
        self.memo.once(fp128(&(&w, &r, false)), &mut v, |v| check_history(&w, &a(STAKE), &SNAMES, &r, false, v));
        let dead = !v.is_empty();
        Step { next: GState { w, r, dead }, label: label.into(), ok, violations: v }
    }

    fn fingerprint(&self, s: &GState) -> u128 {
        fp128(&(&s.w, &s.r, s.dead))
    }
}
