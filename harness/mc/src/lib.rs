pub mod explore;
pub mod report;
pub mod store;
pub mod stubs;
pub mod world;

pub use explore::{bfs, fp128, Bounds, KnownMatcher, Model, RunStats, Step, Violation};
pub use report::{Known, Report};
pub use world::{addr, ContractVt, Dispatched, TxOut, World};

use rayon::prelude::*;

/// Explore several configurations of one model type in parallel (each BFS is itself parallel).
pub fn run_all<M: Model + Send>(
    models: &[M],
    bounds: &Bounds,
    known: &dyn KnownMatcher,
) -> Vec<RunStats> {
    let seed = report::seed();
    models
        .par_iter()
        .map(|m| explore::bfs(m, bounds, known, seed))
        .collect()
}

pub struct Args {
    pub cmd: String,
    pub tier: String,
    pub path: Option<String>,
}

/// `<bin> C01 [--tier quick|thorough]` or `<bin> replay <file>`
pub fn parse_args() -> Args {
    let a: Vec<String> = std::env::args().collect();
    if a.len() < 2 {
        eprintln!("usage: {} <property>|replay <file> [--tier quick|thorough]", a[0]);
        std::process::exit(2);
    }
    let mut tier = std::env::var("VERIF_TIER").unwrap_or_else(|_| "quick".to_string());
    let mut path = None;
    let mut i = 2;
    while i < a.len() {
        if a[i] == "--tier" && i + 1 < a.len() {
            tier = a[i + 1].clone();
            i += 2;
        } else {
            path = Some(a[i].clone());
            i += 1;
        }
    }
    Args {
        cmd: a[1].clone(),
        tier,
        path,
    }
}
