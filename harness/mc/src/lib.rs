pub mod explore;
pub mod report;
pub mod store;
pub mod stubs;
pub mod world;

pub use explore::{bfs, fp128, Bounds, KnownMatcher, Model, RunStats, Step, Violation};
pub use report::{Known, Report};
pub use world::{addr, ContractVt, Dispatched, TxOut, World};


/// Run `n` jobs (one per configuration; job `i` typically calls `mc::bfs`) on a few worker threads,
/// each with its OWN rayon pool. `mc::bfs` parallelises every level with `par_iter`; if several
/// searches shared one pool, a search waiting for its level could steal and run another
/// configuration's whole search on its stack, which makes per-configuration wall times and time
/// caps meaningless. Results come back in job order; the searches themselves are deterministic.
pub fn run_pooled<T: Send, F: Fn(usize) -> T + Sync>(n: usize, f: F) -> Vec<T> {
    use std::sync::atomic::{AtomicUsize, Ordering};
    use std::sync::Mutex;
    let cores = std::thread::available_parallelism().map(|x| x.get()).unwrap_or(8);
    let workers: usize = std::env::var("MC_WORKERS").ok().and_then(|s| s.parse().ok()).unwrap_or(4).clamp(1, n.max(1));
    let per = (cores * 2 / workers.max(1)).clamp(1, cores);
    let next = AtomicUsize::new(0);
    let slots: Vec<Mutex<Option<T>>> = (0..n).map(|_| Mutex::new(None)).collect();
    std::thread::scope(|sc| {
        for _ in 0..workers {
            sc.spawn(|| {
                let pool = rayon::ThreadPoolBuilder::new().num_threads(per).build().expect("thread pool");
                loop {
                    let i = next.fetch_add(1, Ordering::SeqCst);
                    if i >= n {
                        break;
                    }
                    let r = pool.install(|| f(i));
                    *slots[i].lock().unwrap() = Some(r);
                }
            });
        }
    });
    slots.into_iter().map(|m| m.into_inner().unwrap().expect("job finished")).collect()
}

/// Explore several configurations of one model type (see `run_pooled`).
pub fn run_all<M: Model + Send>(
    models: &[M],
    bounds: &Bounds,
    known: &dyn KnownMatcher,
) -> Vec<RunStats> {
    let seed = report::seed();
    run_pooled(models.len(), |i| explore::bfs(&models[i], bounds, known, seed))
}

pub struct Args {
    pub cmd: String,
    pub tier: String,
    pub path: Option<String>,
}

/// `<bin> C01 [--tier quick|thorough]` or `<bin> replay <file>`
pub fn parse_args() -> Args {
    let a: Vec<String> = std::env::args().collect();
    if a.len() < 2 {
        eprintln!("usage: {} <property>|replay <file> [--tier quick|thorough]", a[0]);
        std::process::exit(2);
    }
    let mut tier = std::env::var("VERIF_TIER").unwrap_or_else(|_| "quick".to_string());
    let mut path = None;
    let mut i = 2;
    while i < a.len() {
        if a[i] == "--tier" && i + 1 < a.len() {
            tier = a[i + 1].clone();
            i += 2;
        } else {
            path = Some(a[i].clone());
            i += 1;
        }
    }
    Args {
        cmd: a[1].clone(),
        tier,
        path,
    }
}
