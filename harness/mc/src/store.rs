//! Copy-on-write key/value store implementing `cosmwasm_std::Storage`.
use cosmwasm_std::{Order, Record, Storage};
use std::collections::BTreeMap;
use std::ops::Bound;
use std::sync::Arc;

pub type Kv = BTreeMap<Vec<u8>, Vec<u8>>;

#[derive(Clone, Default, Debug, PartialEq, Eq, Hash)]
pub struct MemStore(pub Arc<Kv>);

impl MemStore {
    pub fn new() -> Self {
        MemStore(Arc::new(Kv::new()))
    }
    pub fn kv(&self) -> &Kv {
        &self.0
    }
}

impl Storage for MemStore {
    fn get(&self, key: &[u8]) -> Option<Vec<u8>> {
        self.0.get(key).cloned()
    }
    fn set(&mut self, key: &[u8], value: &[u8]) {
        if value.is_empty() {
            panic!("TL;DR: Value must not be empty in Storage::set");
        }
        if self.0.get(key).map(|v| v.as_slice()) == Some(value) {
            return;
        }
        Arc::make_mut(&mut self.0).insert(key.to_vec(), value.to_vec());
    }
    fn remove(&mut self, key: &[u8]) {
        if self.0.contains_key(key) {
            Arc::make_mut(&mut self.0).remove(key);
        }
    }
    fn range<'a>(
        &'a self,
        start: Option<&[u8]>,
        end: Option<&[u8]>,
        order: Order,
    ) -> Box<dyn Iterator<Item = Record> + 'a> {
        if let (Some(s), Some(e)) = (start, end) {
            if s >= e {
                return Box::new(std::iter::empty());
            }
        }
        let lo = match start {
            Some(s) => Bound::Included(s.to_vec()),
            None => Bound::Unbounded,
        };
        let hi = match end {
            Some(e) => Bound::Excluded(e.to_vec()),
            None => Bound::Unbounded,
        };
        let it = self.0.range((lo, hi)).map(|(k, v)| (k.clone(), v.clone()));
        match order {
            Order::Ascending => Box::new(it),
            Order::Descending => Box::new(it.rev()),
        }
    }
}
