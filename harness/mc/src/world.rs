//! The kernel: a deterministic, cloneable mini-chain that routes messages between the real
//! contract entry points (DESIGN.md §3.1).
use crate::store::MemStore;
use cosmwasm_std::testing::MockApi;
use cosmwasm_std::{
    from_json, to_json_binary, Addr, AllBalanceResponse, Api, BalanceResponse, BankMsg, BankQuery,
    Binary, BlockInfo, Coin, ContractInfo, ContractInfoResponse, ContractResult, CosmosMsg, Deps,
    DepsMut, Empty, Env, IbcMsg, MessageInfo, Querier, QuerierResult, QuerierWrapper,
    QueryRequest, Reply, ReplyOn, Response, SubMsg, SubMsgResponse, SubMsgResult, SystemError,
    SystemResult, Timestamp, TransactionInfo, Uint128, WasmMsg, WasmQuery,
};
use std::collections::{BTreeMap, BTreeSet};
use std::hash::{Hash, Hasher};
use std::panic::{catch_unwind, AssertUnwindSafe};

pub type EntryMut = fn(DepsMut, Env, MessageInfo, &[u8]) -> Result<Response, String>;
pub type EntryQuery = fn(Deps, Env, &[u8]) -> Result<Binary, String>;
pub type EntryReply = fn(DepsMut, Env, Reply) -> Result<Response, String>;
pub type EntryMigrate = fn(DepsMut, Env, &[u8]) -> Result<Response, String>;

/// Entry points of one contract code. Built by the `contract_vt!` macro from the real crate.
pub struct ContractVt {
    pub name: &'static str,
    pub instantiate: EntryMut,
    pub execute: EntryMut,
    pub query: EntryQuery,
    pub reply: Option<EntryReply>,
    pub migrate: Option<EntryMigrate>,
}

#[macro_export]
macro_rules! contract_vt {
    ($name:expr, $m:path, $imsg:ty, $emsg:ty, $qmsg:ty) => {{
        use $m as c;
        fn i(
            d: cosmwasm_std::DepsMut,
            e: cosmwasm_std::Env,
            info: cosmwasm_std::MessageInfo,
            m: &[u8],
        ) -> Result<cosmwasm_std::Response, String> {
            let msg: $imsg = cosmwasm_std::from_json(m).map_err(|e| format!("parse: {e}"))?;
            c::instantiate(d, e, info, msg).map_err(|e| e.to_string())
        }
        fn x(
            d: cosmwasm_std::DepsMut,
            e: cosmwasm_std::Env,
            info: cosmwasm_std::MessageInfo,
            m: &[u8],
        ) -> Result<cosmwasm_std::Response, String> {
            let msg: $emsg = cosmwasm_std::from_json(m).map_err(|e| format!("parse: {e}"))?;
            c::execute(d, e, info, msg).map_err(|e| e.to_string())
        }
        fn q(
            d: cosmwasm_std::Deps,
            e: cosmwasm_std::Env,
            m: &[u8],
        ) -> Result<cosmwasm_std::Binary, String> {
            let msg: $qmsg = cosmwasm_std::from_json(m).map_err(|e| format!("parse: {e}"))?;
            c::query(d, e, msg).map_err(|e| e.to_string())
        }
        $crate::world::ContractVt {
            name: $name,
            instantiate: i,
            execute: x,
            query: q,
            reply: None,
            migrate: None,
        }
    }};
}

#[derive(Clone)]
pub struct Instance {
    pub vt: &'static ContractVt,
    pub store: MemStore,
    /// chain-level (migration) admin named at instantiation, as WasmQuery::ContractInfo reports it
    pub wasm_admin: Option<String>,
}

/// One dispatched (sub-)message, as seen by the kernel.
#[derive(Clone, Debug)]
pub struct Dispatched {
    pub depth: u32,
    pub sender: String,
    pub msg: CosmosMsg,
    pub gas_limit: Option<u64>,
    pub reply_on: ReplyOn,
    pub ok: bool,
    pub err: Option<String>,
    /// true if the effects of this dispatch were rolled back (its own failure or an enclosing one)
    pub reverted: bool,
}

/// Result of one transaction.
#[derive(Clone, Debug)]
pub struct TxOut {
    /// Ok(data) if the whole message tree succeeded and was committed.
    pub res: Result<Option<Binary>, String>,
    /// The Response returned by the top-level entry point, if it returned Ok.
    pub top: Option<Response>,
    pub dispatched: Vec<Dispatched>,
}

impl TxOut {
    pub fn ok(&self) -> bool {
        self.res.is_ok()
    }
    pub fn err(&self) -> String {
        self.res.clone().err().unwrap_or_default()
    }
    /// dispatches whose effects are part of the committed state
    pub fn committed(&self) -> impl Iterator<Item = &Dispatched> {
        let ok = self.res.is_ok();
        self.dispatched.iter().filter(move |d| ok && d.ok && !d.reverted)
    }
}

#[derive(Clone, Debug, PartialEq, Eq, Hash, serde::Serialize, serde::Deserialize)]
pub struct SentPacket {
    pub contract: String,
    pub channel_id: String,
    pub data: Vec<u8>,
    pub timeout_ts_nanos: Option<u64>,
    pub seq: u64,
}

#[derive(Clone)]
pub struct World {
    pub height: u64,
    pub time_s: u64,
    /// sub-second part of the block time in nanoseconds (0..1e9); block time = time_s seconds + time_ns
    pub time_ns: u64,
    pub bank: BTreeMap<(String, String), u128>,
    pub contracts: BTreeMap<String, Instance>,
    /// `WasmMsg::Execute` dispatched to (or `BankMsg::Send` to) an address in this set fails. Fault injection.
    pub failing: BTreeSet<String>,
    /// any sub-message that carries a gas limit fails (models "ran out of its gas limit")
    pub gas_fail: bool,
    /// IBC packets emitted with `IbcMsg::SendPacket` and not yet removed by a driver
    pub outbox: Vec<SentPacket>,
    pub next_seq: u64,
    /// If false, messages of the top-level response are reported (TxOut.top) but not dispatched.
    pub dispatch: bool,
    /// messages the kernel does not interpret (staking, gov, …) are accepted iff this is true
    pub accept_opaque: bool,
}

pub const CHAIN_ID: &str = "mc-chain";

/// `MockApi` with a per-thread memo for `addr_validate` (bech32 decoding dominates otherwise).
/// Semantics are MockApi's: the cache stores exactly what MockApi answered for that input.
#[derive(Clone, Copy, Default)]
pub struct KApi {
    inner: MockApi,
}

thread_local! {
    static ADDR_CACHE: std::cell::RefCell<std::collections::HashMap<String, Result<(), String>>> =
        std::cell::RefCell::new(std::collections::HashMap::new());
}

impl Api for KApi {
    fn addr_validate(&self, human: &str) -> cosmwasm_std::StdResult<Addr> {
        let hit = ADDR_CACHE.with(|c| c.borrow().get(human).cloned());
        let r = match hit {
            Some(r) => r,
            None => {
                let r = self.inner.addr_validate(human).map(|_| ()).map_err(|e| e.to_string());
                ADDR_CACHE.with(|c| {
                    let mut c = c.borrow_mut();
                    if c.len() < 100_000 {
                        c.insert(human.to_string(), r.clone());
                    }
                });
                r
            }
        };
        match r {
            Ok(()) => Ok(Addr::unchecked(human)),
            Err(e) => Err(cosmwasm_std::StdError::generic_err(e)),
        }
    }
    fn addr_canonicalize(&self, human: &str) -> cosmwasm_std::StdResult<cosmwasm_std::CanonicalAddr> {
        self.inner.addr_canonicalize(human)
    }
    fn addr_humanize(&self, canonical: &cosmwasm_std::CanonicalAddr) -> cosmwasm_std::StdResult<Addr> {
        self.inner.addr_humanize(canonical)
    }
    fn secp256k1_verify(&self, a: &[u8], b: &[u8], c: &[u8]) -> Result<bool, cosmwasm_std::VerificationError> {
        self.inner.secp256k1_verify(a, b, c)
    }
    fn secp256k1_recover_pubkey(&self, a: &[u8], b: &[u8], c: u8) -> Result<Vec<u8>, cosmwasm_std::RecoverPubkeyError> {
        self.inner.secp256k1_recover_pubkey(a, b, c)
    }
    fn ed25519_verify(&self, a: &[u8], b: &[u8], c: &[u8]) -> Result<bool, cosmwasm_std::VerificationError> {
        self.inner.ed25519_verify(a, b, c)
    }
    fn ed25519_batch_verify(&self, a: &[&[u8]], b: &[&[u8]], c: &[&[u8]]) -> Result<bool, cosmwasm_std::VerificationError> {
        self.inner.ed25519_batch_verify(a, b, c)
    }
    fn debug(&self, message: &str) {
        self.inner.debug(message)
    }
}

pub fn api() -> KApi {
    KApi::default()
}

/// valid bech32 address for a label
pub fn addr(label: &str) -> String {
    MockApi::default().addr_make(label).to_string()
}

/// memoised `addr` (address derivation hashes and bech32-encodes); per-thread, no locking
pub fn addr_cached(label: &str) -> String {
    thread_local! {
        static CACHE: std::cell::RefCell<std::collections::HashMap<String, String>> =
            std::cell::RefCell::new(std::collections::HashMap::new());
    }
    CACHE.with(|c| {
        if let Some(a) = c.borrow().get(label) {
            return a.clone();
        }
        let a = addr(label);
        c.borrow_mut().insert(label.to_string(), a.clone());
        a
    })
}

impl Default for World {
    fn default() -> Self {
        World {
            height: 10,
            time_s: 1000,
            time_ns: 0,
            bank: BTreeMap::new(),
            contracts: BTreeMap::new(),
            failing: BTreeSet::new(),
            gas_fail: false,
            outbox: Vec::new(),
            next_seq: 1,
            dispatch: true,
            accept_opaque: true,
        }
    }
}

impl Hash for World {
    fn hash<H: Hasher>(&self, h: &mut H) {
        self.height.hash(h);
        self.time_s.hash(h);
        self.time_ns.hash(h);
        self.bank.len().hash(h);
        for (k, v) in &self.bank {
            if *v != 0 {
                k.hash(h);
                v.hash(h);
            }
        }
        self.contracts.len().hash(h);
        for (a, c) in &self.contracts {
            a.hash(h);
            c.vt.name.hash(h);
            c.store.0.len().hash(h);
            for (k, v) in c.store.0.iter() {
                k.hash(h);
                v.hash(h);
            }
        }
        self.failing.hash(h);
        self.gas_fail.hash(h);
        self.outbox.hash(h);
        self.next_seq.hash(h);
    }
}

struct WorldQuerier<'a> {
    w: &'a World,
}

impl<'a> Querier for WorldQuerier<'a> {
    fn raw_query(&self, bin_request: &[u8]) -> QuerierResult {
        let req: QueryRequest<Empty> = match from_json(bin_request) {
            Ok(r) => r,
            Err(e) => {
                return SystemResult::Err(SystemError::InvalidRequest {
                    error: e.to_string(),
                    request: bin_request.into(),
                })
            }
        };
        self.w.handle_query(req)
    }
}

/// The runtime validates what a contract reports (as wasmd and cw-multi-test do): a response with an empty
/// attribute key or value, a reserved key or a too short event type fails the call.
pub fn validate_response(resp: &Response) -> Result<(), String> {
    for a in resp.attributes.iter().chain(resp.events.iter().flat_map(|e| e.attributes.iter())) {
        let (k, v) = (a.key.trim(), a.value.trim());
        if k.is_empty() {
            return Err(format!("Empty attribute key. Value: {v}"));
        }
        if v.is_empty() {
            return Err(format!("Empty attribute value. Key: {k}"));
        }
        if k.starts_with('_') {
            return Err(format!("Attribute key starts with reserved prefix _: {k}"));
        }
    }
    for e in &resp.events {
        if e.ty.trim().len() < 2 {
            return Err(format!("Event type too short: {}", e.ty));
        }
    }
    Ok(())
}

impl World {
    pub fn new() -> Self {
        Self::default()
    }

    pub fn env(&self, contract: &str) -> Env {
        Env {
            block: self.block(),
            transaction: Some(TransactionInfo { index: 0 }),
            contract: ContractInfo {
                address: Addr::unchecked(contract),
            },
        }
    }

    pub fn block(&self) -> BlockInfo {
        BlockInfo {
            height: self.height,
            time: Timestamp::from_seconds(self.time_s).plus_nanos(self.time_ns),
            chain_id: CHAIN_ID.to_string(),
        }
    }

    pub fn advance(&mut self, blocks: u64, secs: u64) {
        self.height += blocks;
        self.time_s += secs;
    }

    /// advance by a duration given in nanoseconds (sub-second block times)
    pub fn advance_nanos(&mut self, blocks: u64, nanos: u64) {
        self.height += blocks;
        let total = self.time_ns + nanos;
        self.time_s += total / 1_000_000_000;
        self.time_ns = total % 1_000_000_000;
    }

    pub fn balance(&self, addr: &str, denom: &str) -> u128 {
        self.bank
            .get(&(addr.to_string(), denom.to_string()))
            .copied()
            .unwrap_or(0)
    }

    pub fn set_balance(&mut self, addr: &str, denom: &str, amount: u128) {
        if amount == 0 {
            self.bank.remove(&(addr.to_string(), denom.to_string()));
        } else {
            self.bank.insert((addr.to_string(), denom.to_string()), amount);
        }
    }

    pub fn all_balances(&self, addr: &str) -> Vec<Coin> {
        self.bank
            .range((addr.to_string(), String::new())..)
            .take_while(|((a, _), _)| a == addr)
            .filter(|(_, v)| **v != 0)
            .map(|((_, d), v)| Coin {
                denom: d.clone(),
                amount: Uint128::new(*v),
            })
            .collect()
    }

    fn handle_query(&self, req: QueryRequest<Empty>) -> QuerierResult {
        match req {
            QueryRequest::Bank(BankQuery::Balance { address, denom }) => {
                let amount = self.balance(&address, &denom);
                let resp = BalanceResponse::new(Coin {
                    denom,
                    amount: Uint128::new(amount),
                });
                SystemResult::Ok(ContractResult::Ok(to_json_binary(&resp).unwrap()))
            }
            QueryRequest::Bank(BankQuery::AllBalances { address }) => {
                let resp = AllBalanceResponse::new(self.all_balances(&address));
                SystemResult::Ok(ContractResult::Ok(to_json_binary(&resp).unwrap()))
            }
            QueryRequest::Wasm(WasmQuery::Smart { contract_addr, msg }) => {
                match self.contracts.get(&contract_addr) {
                    None => SystemResult::Err(SystemError::NoSuchContract {
                        addr: contract_addr,
                    }),
                    Some(_) => match self.query_raw_msg(&contract_addr, msg.as_slice()) {
                        Ok(b) => SystemResult::Ok(ContractResult::Ok(b)),
                        Err(e) => SystemResult::Ok(ContractResult::Err(e)),
                    },
                }
            }
            QueryRequest::Wasm(WasmQuery::Raw { contract_addr, key }) => {
                match self.contracts.get(&contract_addr) {
                    None => SystemResult::Err(SystemError::NoSuchContract {
                        addr: contract_addr,
                    }),
                    Some(inst) => {
                        let v = inst.store.0.get(key.as_slice()).cloned().unwrap_or_default();
                        SystemResult::Ok(ContractResult::Ok(Binary::from(v)))
                    }
                }
            }
            QueryRequest::Wasm(WasmQuery::ContractInfo { contract_addr }) => {
                match self.contracts.get(&contract_addr) {
                    None => SystemResult::Err(SystemError::NoSuchContract {
                        addr: contract_addr,
                    }),
                    Some(inst) => {
                        let resp = ContractInfoResponse::new(
                            1,
                            Addr::unchecked("creator"),
                            inst.wasm_admin.as_ref().map(Addr::unchecked),
                            false,
                            None,
                        );
                        SystemResult::Ok(ContractResult::Ok(to_json_binary(&resp).unwrap()))
                    }
                }
            }
            other => SystemResult::Err(SystemError::UnsupportedRequest {
                kind: format!("{other:?}"),
            }),
        }
    }

    /// Run a contract's real `query` entry point on the current state.
    pub fn query_raw_msg(&self, contract: &str, msg: &[u8]) -> Result<Binary, String> {
        let inst = self
            .contracts
            .get(contract)
            .ok_or_else(|| format!("no such contract {contract}"))?;
        let q = WorldQuerier { w: self };
        let api = api();
        let deps = Deps {
            storage: &inst.store,
            api: &api,
            querier: QuerierWrapper::new(&q),
        };
        let env = self.env(contract);
        let f = inst.vt.query;
        match catch_unwind(AssertUnwindSafe(|| f(deps, env, msg))) {
            Ok(r) => r,
            Err(p) => Err(format!("panic: {}", panic_msg(&p))),
        }
    }

    pub fn query<Q: serde::Serialize, R: serde::de::DeserializeOwned>(
        &self,
        contract: &str,
        msg: &Q,
    ) -> Result<R, String> {
        let m = cosmwasm_std::to_json_vec(msg).map_err(|e| e.to_string())?;
        let b = self.query_raw_msg(contract, &m)?;
        from_json(&b).map_err(|e| format!("query response parse: {e}"))
    }

    pub fn raw(&self, contract: &str, key: &[u8]) -> Option<Vec<u8>> {
        self.contracts.get(contract)?.store.0.get(key).cloned()
    }

    // ---------------------------------------------------------------- bank primitives

    fn bank_move(&mut self, from: &str, to: &str, coins: &[Coin]) -> Result<(), String> {
        // cosmos-sdk / cw-multi-test: zero coins are dropped; an all-zero, non-empty list is an error
        let nz: Vec<&Coin> = coins.iter().filter(|c| !c.amount.is_zero()).collect();
        if nz.is_empty() {
            return Err("Cannot transfer empty coins amount".into());
        }
        for c in &nz {
            let have = self.balance(from, &c.denom);
            let amt = c.amount.u128();
            if have < amt {
                return Err(format!(
                    "insufficient funds: {from} has {have}{} needs {amt}",
                    c.denom
                ));
            }
            self.set_balance(from, &c.denom, have - amt);
            if to != BURN {
                let t = self.balance(to, &c.denom);
                let nt = t
                    .checked_add(amt)
                    .ok_or_else(|| "bank overflow".to_string())?;
                self.set_balance(to, &c.denom, nt);
            }
        }
        Ok(())
    }

    /// environment action: a plain bank transfer between accounts (a user tx)
    pub fn bank_send(&mut self, from: &str, to: &str, coins: &[Coin]) -> Result<(), String> {
        let mut w = self.clone();
        w.bank_move(from, to, coins)?;
        *self = w;
        Ok(())
    }

    // ---------------------------------------------------------------- transactions

    /// Install a contract instance at a chosen address and run its real `instantiate`.
    /// name the chain-level (migration) admin of an instantiated contract (the optional `admin` of
    /// MsgInstantiateContract); it has no authority inside the contract
    pub fn set_wasm_admin(&mut self, address: &str, admin: Option<&str>) {
        if let Some(inst) = self.contracts.get_mut(address) {
            inst.wasm_admin = admin.map(|a| a.to_string());
        }
    }

    pub fn instantiate(
        &mut self,
        vt: &'static ContractVt,
        address: &str,
        sender: &str,
        msg: &[u8],
        funds: &[Coin],
    ) -> TxOut {
        let mut w = self.clone();
        let mut log = Vec::new();
        let r = (|| -> Result<(Option<Binary>, Response), String> {
            if w.contracts.contains_key(address) {
                return Err("address in use".into());
            }
            w.contracts.insert(
                address.to_string(),
                Instance {
                    vt,
                    store: MemStore::new(),
                    wasm_admin: None,
                },
            );
            if !funds.is_empty() {
                w.bank_move(sender, address, funds)?;
            }
            let info = MessageInfo {
                sender: Addr::unchecked(sender),
                funds: funds.to_vec(),
            };
            let f = vt.instantiate;
            let resp = w.call_mut(address, |d, e| f(d, e, info, msg))?;
            let top = resp.clone();
            let data = w.process_response(address, resp, 0, &mut log)?;
            Ok((data, top))
        })();
        self.finish(w, r, log)
    }

    pub fn execute(&mut self, sender: &str, contract: &str, msg: &[u8], funds: &[Coin]) -> TxOut {
        let mut w = self.clone();
        let mut log = Vec::new();
        let r = (|| -> Result<(Option<Binary>, Response), String> {
            if !w.contracts.contains_key(contract) {
                return Err(format!("no such contract {contract}"));
            }
            if !funds.is_empty() {
                w.bank_move(sender, contract, funds)?;
            }
            let info = MessageInfo {
                sender: Addr::unchecked(sender),
                funds: funds.to_vec(),
            };
            let f = w.contracts[contract].vt.execute;
            let resp = w.call_mut(contract, |d, e| f(d, e, info, msg))?;
            let top = resp.clone();
            let data = if w.dispatch {
                w.process_response(contract, resp, 0, &mut log)?
            } else {
                validate_response(&resp)?;
                resp.data.clone()
            };
            Ok((data, top))
        })();
        self.finish(w, r, log)
    }

    pub fn execute_json<M: serde::Serialize>(
        &mut self,
        sender: &str,
        contract: &str,
        msg: &M,
        funds: &[Coin],
    ) -> TxOut {
        let m = cosmwasm_std::to_json_vec(msg).expect("serialize msg");
        self.execute(sender, contract, &m, funds)
    }

    pub fn migrate(&mut self, contract: &str, msg: &[u8]) -> TxOut {
        let mut w = self.clone();
        let mut log = Vec::new();
        let r = (|| -> Result<(Option<Binary>, Response), String> {
            let f = w
                .contracts
                .get(contract)
                .ok_or("no such contract")?
                .vt
                .migrate
                .ok_or("contract has no migrate")?;
            let resp = w.call_mut(contract, |d, e| f(d, e, msg))?;
            let top = resp.clone();
            let data = w.process_response(contract, resp, 0, &mut log)?;
            Ok((data, top))
        })();
        self.finish(w, r, log)
    }

    /// Run an arbitrary entry point of `contract` (IBC callbacks) as one transaction: the closure
    /// gets `DepsMut`/`Env` and returns the sub-messages to dispatch plus the data (acknowledgement).
    /// Commit iff the closure and all required sub-calls succeed. Returns the final data, where a
    /// `reply` that sets data overrides it (wasmd's rule for acknowledgements).
    pub fn entry<F>(&mut self, contract: &str, f: F) -> TxOut
    where
        F: FnOnce(DepsMut, Env) -> Result<(Vec<SubMsg>, Option<Binary>), String>,
    {
        let mut w = self.clone();
        let mut log = Vec::new();
        let r = (|| -> Result<(Option<Binary>, Response), String> {
            let (msgs, data) = w.call_mut(contract, f)?;
            let mut resp = Response::new();
            resp.messages = msgs;
            resp.data = data;
            let top = resp.clone();
            let data = w.process_response(contract, resp, 0, &mut log)?;
            Ok((data, top))
        })();
        self.finish(w, r, log)
    }

    fn finish(
        &mut self,
        w: World,
        r: Result<(Option<Binary>, Response), String>,
        mut log: Vec<Dispatched>,
    ) -> TxOut {
        match r {
            Ok((data, top)) => {
                *self = w;
                TxOut {
                    res: Ok(data),
                    top: Some(top),
                    dispatched: log,
                }
            }
            Err(e) => {
                for d in log.iter_mut() {
                    d.reverted = true;
                }
                TxOut {
                    res: Err(e),
                    top: None,
                    dispatched: log,
                }
            }
        }
    }

    /// call a closure with DepsMut on `contract`'s store; the querier sees the state at call start.
    fn call_mut<T, F>(&mut self, contract: &str, f: F) -> Result<T, String>
    where
        F: FnOnce(DepsMut, Env) -> Result<T, String>,
    {
        let snapshot = self.clone();
        let env = self.env(contract);
        let inst = self
            .contracts
            .get_mut(contract)
            .ok_or_else(|| format!("no such contract {contract}"))?;
        let q = WorldQuerier { w: &snapshot };
        let api = api();
        let deps = DepsMut {
            storage: &mut inst.store,
            api: &api,
            querier: QuerierWrapper::new(&q),
        };
        match catch_unwind(AssertUnwindSafe(|| f(deps, env))) {
            Ok(r) => r,
            Err(p) => Err(format!("panic: {}", panic_msg(&p))),
        }
    }

    fn process_response(
        &mut self,
        contract: &str,
        resp: Response,
        depth: u32,
        log: &mut Vec<Dispatched>,
    ) -> Result<Option<Binary>, String> {
        validate_response(&resp)?;
        let mut data = resp.data;
        for sub in resp.messages {
            let d = self.execute_submsg(contract, sub, depth, log)?;
            if d.is_some() {
                data = d;
            }
        }
        Ok(data)
    }

    fn execute_submsg(
        &mut self,
        contract: &str,
        sub: SubMsg,
        depth: u32,
        log: &mut Vec<Dispatched>,
    ) -> Result<Option<Binary>, String> {
        if depth > 12 {
            return Err("dispatch depth exceeded".into());
        }
        let snapshot = self.clone();
        let idx = log.len();
        log.push(Dispatched {
            depth,
            sender: contract.to_string(),
            msg: sub.msg.clone(),
            gas_limit: sub.gas_limit,
            reply_on: sub.reply_on.clone(),
            ok: false,
            err: None,
            reverted: false,
        });
        let res = if self.gas_fail && sub.gas_limit.is_some() {
            Err("out of gas (injected)".to_string())
        } else {
            self.dispatch_msg(contract, sub.msg.clone(), depth + 1, log)
        };
        match res {
            Ok(d) => {
                log[idx].ok = true;
                if matches!(sub.reply_on, ReplyOn::Always | ReplyOn::Success) {
                    #[allow(deprecated)]
                    let reply = Reply {
                        id: sub.id,
                        payload: sub.payload.clone(),
                        gas_used: 0,
                        result: SubMsgResult::Ok(SubMsgResponse {
                            events: vec![],
                            data: d,
                            msg_responses: vec![],
                        }),
                    };
                    self.call_reply(contract, reply, depth, log)
                } else {
                    Ok(None)
                }
            }
            Err(e) => {
                *self = snapshot;
                log[idx].err = Some(e.clone());
                for d in log[idx..].iter_mut() {
                    d.reverted = true;
                }
                if matches!(sub.reply_on, ReplyOn::Always | ReplyOn::Error) {
                    let reply = Reply {
                        id: sub.id,
                        payload: sub.payload.clone(),
                        gas_used: 0,
                        result: SubMsgResult::Err(e),
                    };
                    self.call_reply(contract, reply, depth, log)
                } else {
                    Err(e)
                }
            }
        }
    }

    fn call_reply(
        &mut self,
        contract: &str,
        reply: Reply,
        depth: u32,
        log: &mut Vec<Dispatched>,
    ) -> Result<Option<Binary>, String> {
        let f = self.contracts[contract]
            .vt
            .reply
            .ok_or_else(|| "contract has no reply entry point".to_string())?;
        let resp = self.call_mut(contract, |d, e| f(d, e, reply))?;
        self.process_response(contract, resp, depth + 1, log)
    }

    fn dispatch_msg(
        &mut self,
        sender: &str,
        msg: CosmosMsg,
        depth: u32,
        log: &mut Vec<Dispatched>,
    ) -> Result<Option<Binary>, String> {
        let api = api();
        match msg {
            CosmosMsg::Bank(BankMsg::Send { to_address, amount }) => {
                api.addr_validate(&to_address).map_err(|e| e.to_string())?;
                if self.failing.contains(&to_address) {
                    return Err("injected failure: recipient rejects".into());
                }
                self.bank_move(sender, &to_address, &amount)?;
                Ok(None)
            }
            CosmosMsg::Bank(BankMsg::Burn { amount }) => {
                self.bank_move(sender, BURN, &amount)?;
                Ok(None)
            }
            CosmosMsg::Wasm(WasmMsg::Execute {
                contract_addr,
                msg,
                funds,
            }) => {
                api.addr_validate(&contract_addr).map_err(|e| e.to_string())?;
                if !self.contracts.contains_key(&contract_addr) {
                    return Err(format!("no such contract {contract_addr}"));
                }
                if self.failing.contains(&contract_addr) {
                    return Err("injected failure: callee rejects".into());
                }
                if !funds.is_empty() {
                    self.bank_move(sender, &contract_addr, &funds)?;
                }
                let info = MessageInfo {
                    sender: Addr::unchecked(sender),
                    funds,
                };
                let f = self.contracts[&contract_addr].vt.execute;
                let resp = self.call_mut(&contract_addr, |d, e| f(d, e, info, msg.as_slice()))?;
                let data = self.process_response(&contract_addr, resp, depth, log)?;
                // wasmd hands the *protobuf-encoded MsgExecuteContractResponse* to the caller's `reply`
                Ok(data.map(|d| wrap_execute_response(d.as_slice())))
            }
            CosmosMsg::Ibc(IbcMsg::SendPacket {
                channel_id,
                data,
                timeout,
            }) => {
                let seq = self.next_seq;
                self.next_seq += 1;
                self.outbox.push(SentPacket {
                    contract: sender.to_string(),
                    channel_id,
                    data: data.to_vec(),
                    timeout_ts_nanos: timeout.timestamp().map(|t| t.nanos()),
                    seq,
                });
                Ok(None)
            }
            other => {
                if self.accept_opaque {
                    let _ = other;
                    Ok(None)
                } else {
                    Err(format!("unsupported message {other:?}"))
                }
            }
        }
    }
}

/// protobuf `MsgExecuteContractResponse { bytes data = 1; }` (proto3: an empty field is omitted)
pub fn wrap_execute_response(d: &[u8]) -> Binary {
    let mut out = Vec::with_capacity(d.len() + 6);
    if !d.is_empty() {
        out.push(0x0a);
        let mut n = d.len() as u64;
        loop {
            let b = (n & 0x7f) as u8;
            n >>= 7;
            if n == 0 {
                out.push(b);
                break;
            }
            out.push(b | 0x80);
        }
        out.extend_from_slice(d);
    }
    Binary::from(out)
}

pub const BURN: &str = "\u{0}burn";

pub fn panic_msg(p: &Box<dyn std::any::Any + Send>) -> String {
    if let Some(s) = p.downcast_ref::<&str>() {
        s.to_string()
    } else if let Some(s) = p.downcast_ref::<String>() {
        s.clone()
    } else {
        "<non-string panic>".into()
    }
}

static LAST_PANIC: std::sync::Mutex<String> = std::sync::Mutex::new(String::new());

/// Install a panic hook that stays silent (contract panics are expected and caught) but remembers
/// the last message and location, so that a panic of the harness itself can be reported.
pub fn silence_panics() {
    std::panic::set_hook(Box::new(|info| {
        if let Ok(mut g) = LAST_PANIC.try_lock() {
            *g = format!("{info}");
        }
    }));
}

pub fn last_panic() -> String {
    LAST_PANIC.lock().map(|g| g.clone()).unwrap_or_default()
}

/// Run a whole check; a panic that escapes (i.e. one of the harness, not of a contract) is a
/// machinery error (exit 2), never a verdict.
pub fn guarded_main<F: FnOnce() -> i32 + std::panic::UnwindSafe>(f: F) -> ! {
    silence_panics();
    let code = match catch_unwind(f) {
        Ok(c) => c,
        Err(_) => {
            eprintln!("machinery error: the harness itself panicked: {}", last_panic());
            2
        }
    };
    std::process::exit(code)
}
