//! Built-in stub contracts (DESIGN.md §3.1): `sink` accepts every message and stores nothing;
//! `recorder` appends `(sender, funds, payload)` of every message it receives to its store.
//! Both can be made to fail through `World.failing` (the kernel refuses the dispatch).
use crate::world::ContractVt;
use cosmwasm_std::{to_json_binary, Binary, Deps, DepsMut, Env, MessageInfo, Response};

fn ok_inst(_d: DepsMut, _e: Env, _i: MessageInfo, _m: &[u8]) -> Result<Response, String> {
    Ok(Response::new())
}
fn sink_exec(_d: DepsMut, _e: Env, _i: MessageInfo, _m: &[u8]) -> Result<Response, String> {
    Ok(Response::new())
}
fn sink_query(_d: Deps, _e: Env, _m: &[u8]) -> Result<Binary, String> {
    to_json_binary(&serde_json::json!({})).map_err(|e| e.to_string())
}
fn rec_exec(d: DepsMut, _e: Env, i: MessageInfo, m: &[u8]) -> Result<Response, String> {
    let n = d
        .storage
        .get(b"n")
        .map(|v| u32::from_be_bytes([v[0], v[1], v[2], v[3]]))
        .unwrap_or(0);
    let mut key = b"log".to_vec();
    key.extend_from_slice(&n.to_be_bytes());
    let entry = serde_json::json!({
        "sender": i.sender.to_string(),
        "funds": i.funds.iter().map(|c| format!("{}{}", c.amount, c.denom)).collect::<Vec<_>>(),
        "msg": String::from_utf8_lossy(m),
    });
    d.storage.set(&key, entry.to_string().as_bytes());
    d.storage.set(b"n", &(n + 1).to_be_bytes());
    Ok(Response::new())
}
fn rec_query(d: Deps, _e: Env, _m: &[u8]) -> Result<Binary, String> {
    let mut out = vec![];
    let mut i = 0u32;
    loop {
        let mut key = b"log".to_vec();
        key.extend_from_slice(&i.to_be_bytes());
        match d.storage.get(&key) {
            Some(v) => out.push(serde_json::from_slice::<serde_json::Value>(&v).unwrap()),
            None => break,
        }
        i += 1;
    }
    to_json_binary(&out).map_err(|e| e.to_string())
}

pub static SINK: ContractVt = ContractVt {
    name: "stub-sink",
    instantiate: ok_inst,
    execute: sink_exec,
    query: sink_query,
    reply: None,
    migrate: None,
};

pub static RECORDER: ContractVt = ContractVt {
    name: "stub-recorder",
    instantiate: ok_inst,
    execute: rec_exec,
    query: rec_query,
    reply: None,
    migrate: None,
};

/// the recorder's log: list of {"sender","funds","msg"}
pub fn recorder_log(w: &crate::world::World, addr: &str) -> Vec<serde_json::Value> {
    w.query::<_, Vec<serde_json::Value>>(addr, &serde_json::json!({})).unwrap_or_default()
}
