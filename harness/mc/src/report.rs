//! Evidence files, replay files, known findings, exit codes (DESIGN.md §3.4, §3.5).
use crate::explore::{Found, KnownMatcher, RunStats, Violation};
use serde_json::{json, Value};
use std::collections::BTreeMap;
use std::path::PathBuf;
use std::time::Instant;

pub fn verif_dir() -> PathBuf {
    PathBuf::from(std::env::var("VERIF_DIR").unwrap_or_else(|_| "/verif".to_string()))
}

pub fn seed() -> u64 {
    std::env::var("VERIF_SEED")
        .ok()
        .and_then(|s| s.parse::<u64>().ok())
        .unwrap_or(0)
}

#[derive(Clone, Debug, serde::Deserialize)]
pub struct KnownEntry {
    pub property: String,
    pub clause: String,
    pub predicate: String,
    pub what: String,
}

#[derive(Clone, Debug, Default, serde::Deserialize)]
pub struct KnownFile {
    #[serde(default)]
    pub known: Vec<KnownEntry>,
    #[serde(default)]
    pub fixed: Vec<String>,
}

pub struct Known {
    pub property: String,
    pub entries: Vec<KnownEntry>,
}

impl Known {
    /// Load `/verif/known_findings.json` (read-only; never written at run time).
    pub fn load(property: &str) -> Known {
        let p = verif_dir().join("known_findings.json");
        let entries = match std::fs::read_to_string(&p) {
            Ok(s) => {
                let f: KnownFile = serde_json::from_str(&s).unwrap_or_else(|e| {
                    eprintln!("machinery error: cannot parse {}: {e}", p.display());
                    std::process::exit(2)
                });
                f.known.into_iter().filter(|e| e.property == property).collect()
            }
            Err(_) => vec![],
        };
        Known {
            property: property.to_string(),
            entries,
        }
    }
}

impl KnownMatcher for Known {
    fn matches(&self, v: &Violation) -> Option<String> {
        self.entries
            .iter()
            .find(|e| e.clause == v.clause && v.tags.iter().any(|t| *t == e.predicate))
            .map(|e| format!("{} [clause={} predicate={}]", e.what, e.clause, e.predicate))
    }
}

pub struct Report {
    pub property: String,
    pub tier: String,
    pub t0: Instant,
    pub runs: Vec<RunStats>,
    pub assumptions: Vec<String>,
    pub alphabet: String,
    pub bounds: String,
    pub oracle: String,
    pub extra: BTreeMap<String, Value>,
    /// name of the model kind, stored in replay files so that `replay` finds the right model
    pub model_kind: String,
}

impl Report {
    pub fn new(property: &str, tier: &str, model_kind: &str) -> Self {
        Report {
            property: property.to_string(),
            tier: tier.to_string(),
            t0: Instant::now(),
            runs: vec![],
            assumptions: vec![],
            alphabet: String::new(),
            bounds: String::new(),
            oracle: String::new(),
            extra: BTreeMap::new(),
            model_kind: model_kind.to_string(),
        }
    }

    /// Write evidence + replay files, print the verdict lines, return the exit code.
    pub fn finish(self) -> i32 {
        let dir = verif_dir();
        let _ = std::fs::create_dir_all(dir.join("evidence"));
        let _ = std::fs::create_dir_all(dir.join("replays"));
        let states: u64 = self.runs.iter().map(|r| r.states).sum();
        let transitions: u64 = self.runs.iter().map(|r| r.transitions).sum();
        let mut labels: BTreeMap<String, (u64, u64)> = BTreeMap::new();
        for r in &self.runs {
            for (l, (a, b)) in &r.labels {
                let e = labels.entry(l.clone()).or_insert((0, 0));
                e.0 += a;
                e.1 += b;
            }
        }
        let exhaustive = !self.runs.is_empty()
            && self.runs.iter().all(|r| {
                r.fixpoint
                    || r.cap_hit
                        .as_deref()
                        .map(|c| c.starts_with("depth bound"))
                        .unwrap_or(false)
            });
        let caps: Vec<String> = self
            .runs
            .iter()
            .filter_map(|r| r.cap_hit.as_ref().map(|c| format!("{}: {}", r.config, c)))
            .collect();
        let fixpoints = self.runs.iter().filter(|r| r.fixpoint).count();
        let mut unknown: Vec<&Found> = vec![];
        let mut known: BTreeMap<String, (u64, &Found)> = BTreeMap::new();
        for r in &self.runs {
            for f in &r.found {
                match &f.known {
                    Some(d) => {
                        let n = r.known_hits.get(d).copied().unwrap_or(1);
                        known
                            .entry(d.clone())
                            .and_modify(|e| e.0 += n)
                            .or_insert((n, f));
                    }
                    None => unknown.push(f),
                }
            }
        }
        // shortest counterexample first
        unknown.sort_by_key(|f| f.trace.len());
        let mut samples: Vec<Value> = vec![];
        for r in self.runs.iter().take(6) {
            if let Some(s) = r.samples.first() {
                samples.push(json!({"config": r.config, "trace": s}));
            }
        }
        if samples.is_empty() {
            samples.push(json!({"note": "no runs"}));
        }
        let vacuous: Vec<String> = labels
            .iter()
            .filter(|(_, (ok, _))| *ok == 0)
            .map(|(l, _)| l.clone())
            .collect();
        let per_config: Vec<Value> = self
            .runs
            .iter()
            .map(|r| {
                json!({"config": r.config, "states": r.states, "transitions": r.transitions,
                       "depth_completed": r.depth_completed, "fixpoint": r.fixpoint,
                       "cap_hit": r.cap_hit, "wall_s": (r.wall_s*100.0).round()/100.0})
            })
            .collect();
        let mut coverage = json!({
            "states": states.max(1),
            "transitions": transitions.max(1),
            "traces_validated_against_impl": transitions,
            "traces_validated_note": "every transition executes the real entry points compiled from /repo and is compared with the reference model/oracle; the kernel itself is cross-validated against cw-multi-test by the `kernel-diff` check (see extra.kernel_cross_validation when present)",
            "samples": samples,
            "exhaustive": exhaustive,
            "configurations": self.runs.len(),
            "configurations_at_fixpoint": fixpoints,
            "max_depth_completed": self.runs.iter().map(|r| r.depth_completed).max().unwrap_or(0),
            "caps_hit": caps,
            "alphabet": self.alphabet,
            "bounds": self.bounds,
            "oracle": self.oracle,
            "action_outcomes": labels.iter().map(|(l,(a,b))| (l.clone(), json!({"ok": a, "failed": b}))).collect::<serde_json::Map<_,_>>(),
            "distinct_action_kinds": labels.len(),
            "action_kinds_never_successful": vacuous,
            "per_config": per_config,
            "known_findings_hit": known.iter().map(|(d,(n,_))| json!({"finding": d, "occurrences": n})).collect::<Vec<_>>(),
        });
        // verdict of the last kernel conformance run (./check kernel-diff), if one was made on this machine
        if self.property != "kernel-diff" {
            if let Ok(txt) = std::fs::read_to_string(dir.join("evidence").join("kernel-diff.json")) {
                if let Ok(kd) = serde_json::from_str::<Value>(&txt) {
                    coverage["kernel_cross_validation"] = json!({
                        "source": "evidence/kernel-diff.json (differential replay of the kernel against cw-multi-test 2.0.0)",
                        "tier": kd["tier"], "traces_replayed": kd["coverage"]["states"], "steps_compared": kd["coverage"]["transitions"],
                        "disagreements": kd["violations"], "verdict": kd["coverage"]["verdict"],
                    });
                }
            }
        }
        for (k, v) in &self.extra {
            coverage[k] = v.clone();
        }
        let wall = self.t0.elapsed().as_secs_f64();
        let ev = json!({
            "property_id": self.property,
            "tier": if self.tier == "thorough" { "thorough" } else { "quick" },
            "seed": seed(),
            "level": "model_checking",
            "coverage": coverage,
            "assumptions": self.assumptions,
            "wall_s": (wall * 100.0).round() / 100.0,
            "violations": unknown.len(),
        });
        let evp = dir.join("evidence").join(format!("{}.json", self.property));
        if let Err(e) = std::fs::write(&evp, serde_json::to_string_pretty(&ev).unwrap()) {
            eprintln!("machinery error: cannot write {}: {e}", evp.display());
            return 2;
        }
        println!(
            "{} tier={} configs={} states={} transitions={} fixpoints={}/{} exhaustive={} wall={:.1}s",
            self.property,
            self.tier,
            self.runs.len(),
            states,
            transitions,
            fixpoints,
            self.runs.len(),
            exhaustive,
            wall
        );
        if !vacuous.is_empty() {
            println!("note: action kinds that never succeeded: {}", vacuous.join(", "));
        }
        for (d, (n, f)) in &known {
            println!(
                "KNOWN-FINDING: property={} {} (occurrences={} first: config={} steps={})",
                self.property,
                d,
                n,
                f.config,
                f.trace.len()
            );
        }
        if unknown.is_empty() {
            return 0;
        }
        let mut printed = std::collections::BTreeSet::new();
        for (i, f) in unknown.iter().enumerate() {
            let sig = format!("{:016x}", crate::explore::fp128(&(f.config.as_str(), f.clause.as_str())) as u64);
            let path = dir
                .join("replays")
                .join(format!("{}-{}-{}.json", self.property, sanitize(&f.clause), &sig[..8]));
            let body = json!({
                "property": self.property,
                "model": self.model_kind,
                "config": f.config,
                "clause": f.clause,
                "detail": f.detail,
                "tags": f.tags,
                "actions": f.trace,
            });
            if !printed.insert(path.clone()) {
                continue;
            }
            let _ = std::fs::write(&path, serde_json::to_string_pretty(&body).unwrap());
            if i < 5 {
                println!("  clause={} config={} steps={} detail={}", f.clause, f.config, f.trace.len(), f.detail);
            }
            println!("VIOLATION property={} replay={}", self.property, path.display());
        }
        1
    }
}

fn sanitize(s: &str) -> String {
    s.chars()
        .map(|c| if c.is_ascii_alphanumeric() { c } else { '_' })
        .take(40)
        .collect()
}

#[derive(Clone, Debug, serde::Deserialize)]
pub struct ReplayFile {
    pub property: String,
    pub model: String,
    pub config: String,
    pub clause: String,
    #[serde(default)]
    pub detail: String,
    pub actions: Vec<Value>,
}

pub fn load_replay(path: &str) -> ReplayFile {
    let s = std::fs::read_to_string(path).unwrap_or_else(|e| {
        eprintln!("machinery error: cannot read {path}: {e}");
        std::process::exit(2)
    });
    serde_json::from_str(&s).unwrap_or_else(|e| {
        eprintln!("machinery error: cannot parse {path}: {e}");
        std::process::exit(2)
    })
}

/// Replay twice on fresh states without the explorer, require identical observations, print every
/// step; exit code 1 if the recorded clause fails again, 0 if not, 2 on nondeterminism.
pub fn run_replay<M: crate::explore::Model>(model: &M, rf: &ReplayFile) -> i32 {
    let a = crate::explore::replay(model, &rf.actions);
    let b = crate::explore::replay(model, &rf.actions);
    let (a, b) = match (a, b) {
        (Ok(a), Ok(b)) => (a, b),
        (Err(e), _) | (_, Err(e)) => {
            eprintln!("machinery error: {e}");
            return 2;
        }
    };
    let fa = format!("{:?}", a.iter().map(|(l, ok, v)| (l, ok, v.iter().map(|x| (&x.clause, &x.detail)).collect::<Vec<_>>())).collect::<Vec<_>>());
    let fb = format!("{:?}", b.iter().map(|(l, ok, v)| (l, ok, v.iter().map(|x| (&x.clause, &x.detail)).collect::<Vec<_>>())).collect::<Vec<_>>());
    if fa != fb {
        eprintln!("machinery error: replay is not deterministic");
        return 2;
    }
    let mut hit = false;
    for (i, (l, ok, vs)) in a.iter().enumerate() {
        println!("step {i}: {l} -> {}", if *ok { "ok" } else { "refused" });
        for v in vs {
            println!("    VIOLATED clause={} {}", v.clause, v.detail);
            if v.clause == rf.clause {
                hit = true;
            }
        }
    }
    if hit {
        println!("VIOLATION property={} replay=(replayed) clause={}", rf.property, rf.clause);
        1
    } else {
        println!("replay: clause {} did not fail", rf.clause);
        0
    }
}
