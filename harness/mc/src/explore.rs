//! Level-synchronous, deterministic, parallel BFS over the real transition function (DESIGN.md §3.2).
use rayon::prelude::*;
use serde::{de::DeserializeOwned, Serialize};
use std::collections::{BTreeMap, HashSet};
use std::fmt::Debug;
use std::hash::{BuildHasherDefault, Hash, Hasher};
use std::time::Instant;

#[derive(Clone, Debug, Serialize, serde::Deserialize)]
pub struct Violation {
    pub clause: String,
    pub detail: String,
    /// predicates describing the shape of the failing history (matched against known findings)
    pub tags: Vec<String>,
}

impl Violation {
    pub fn new(clause: &str, detail: String) -> Self {
        Violation {
            clause: clause.to_string(),
            detail,
            tags: vec![],
        }
    }
    pub fn tagged(clause: &str, detail: String, tags: Vec<String>) -> Self {
        Violation {
            clause: clause.to_string(),
            detail,
            tags,
        }
    }
}

pub struct Step<S> {
    pub next: S,
    /// short label of the action kind, for the outcome histogram
    pub label: String,
    /// whether the real call succeeded
    pub ok: bool,
    pub violations: Vec<Violation>,
}

pub trait Model: Sync {
    type State: Clone + Send + Sync;
    type Action: Clone + Send + Sync + Debug + Serialize + DeserializeOwned;
    fn name(&self) -> String;
    fn init(&self) -> (Self::State, Vec<Violation>);
    fn actions(&self, s: &Self::State) -> Vec<Self::Action>;
    fn step(&self, s: &Self::State, a: &Self::Action) -> Step<Self::State>;
    fn fingerprint(&self, s: &Self::State) -> u128;
}

#[derive(Clone, Debug)]
pub struct Bounds {
    pub max_depth: Option<usize>,
    pub max_states: usize,
    pub max_secs: f64,
}

impl Default for Bounds {
    fn default() -> Self {
        Bounds {
            max_depth: None,
            max_states: 20_000_000,
            max_secs: 3600.0,
        }
    }
}

#[derive(Clone, Debug, Serialize)]
pub struct Found {
    pub config: String,
    pub clause: String,
    pub detail: String,
    pub tags: Vec<String>,
    pub trace: Vec<serde_json::Value>,
    pub known: Option<String>,
}

#[derive(Clone, Debug, Default, Serialize)]
pub struct RunStats {
    pub config: String,
    pub states: u64,
    pub transitions: u64,
    pub depth_completed: usize,
    pub fixpoint: bool,
    pub cap_hit: Option<String>,
    /// label -> (succeeded, failed)
    pub labels: BTreeMap<String, (u64, u64)>,
    pub found: Vec<Found>,
    pub known_hits: BTreeMap<String, u64>,
    pub samples: Vec<Vec<serde_json::Value>>,
    pub wall_s: f64,
}

#[derive(Default, Clone, Copy)]
pub struct IdHasher(u64);
impl Hasher for IdHasher {
    fn finish(&self) -> u64 {
        self.0
    }
    fn write(&mut self, b: &[u8]) {
        for x in b {
            self.0 = self.0.rotate_left(8) ^ (*x as u64);
        }
    }
    fn write_u128(&mut self, i: u128) {
        self.0 = (i as u64) ^ ((i >> 64) as u64);
    }
    fn write_u64(&mut self, i: u64) {
        self.0 = i;
    }
}
type FpSet = HashSet<u128, BuildHasherDefault<IdHasher>>;

/// resident set size of this process in GB (0 if unknown)
pub fn rss_gb() -> f64 {
    std::fs::read_to_string("/proc/self/statm")
        .ok()
        .and_then(|s| s.split_whitespace().nth(1).and_then(|x| x.parse::<f64>().ok()))
        .map(|pages| pages * 4096.0 / 1e9)
        .unwrap_or(0.0)
}

/// engines stop (verdict: not exhaustive, cap reported) above this resident size; MC_MAX_RSS_GB overrides
pub fn max_rss_gb() -> f64 {
    std::env::var("MC_MAX_RSS_GB").ok().and_then(|s| s.parse().ok()).unwrap_or(14.0)
}

/// 128-bit fingerprint of any `Hash` value (two independent SipHash passes).
pub fn fp128<T: Hash + ?Sized>(t: &T) -> u128 {
    #[allow(deprecated)]
    let mut h1 = std::hash::SipHasher::new_with_keys(0x0123_4567_89ab_cdef, 0xfedc_ba98_7654_3210);
    #[allow(deprecated)]
    let mut h2 = std::hash::SipHasher::new_with_keys(0xdead_beef_cafe_f00d, 0x0bad_c0de_1234_5678);
    t.hash(&mut h1);
    t.hash(&mut h2);
    ((h1.finish() as u128) << 64) | (h2.finish() as u128)
}

/// classifier of violations against the committed known-findings file
pub trait KnownMatcher: Sync {
    /// Some(description) if the violation is a listed known finding
    fn matches(&self, v: &Violation) -> Option<String>;
}

pub struct NoKnown;
impl KnownMatcher for NoKnown {
    fn matches(&self, _v: &Violation) -> Option<String> {
        None
    }
}

struct Succ<S> {
    fp: u128,
    state: S,
    aidx: u32,
}

struct NodeOut<S> {
    succs: Vec<Succ<S>>,
    transitions: u64,
    labels: Vec<(String, u64, u64)>,
    viols: Vec<(u32, Violation)>,
}

/// Exhaustive BFS from `model.init()`. Deterministic: the set of states, counts and first
/// counterexample do not depend on thread scheduling.
pub fn bfs<M: Model>(model: &M, bounds: &Bounds, known: &dyn KnownMatcher, seed: u64) -> RunStats {
    let t0 = Instant::now();
    let mut st = RunStats {
        config: model.name(),
        ..Default::default()
    };
    let (s0, v0) = model.init();
    let mut seen: FpSet = FpSet::default();
    // parents[id] = (parent id, action index within actions(parent))
    let mut parents: Vec<(u32, u32)> = vec![(u32::MAX, 0)];
    seen.insert(model.fingerprint(&s0));
    let mut frontier: Vec<(u32, M::State)> = vec![(0, s0)];
    let mut unknown_clauses: HashSet<String> = HashSet::new();
    let mut stop = false;
    for v in v0 {
        record(model, &mut st, known, &parents, u32::MAX, 0, v, &mut unknown_clauses, &mut stop);
    }
    let mut depth = 0usize;
    st.states = 1;
    const CHUNK: usize = 2048;
    while !frontier.is_empty() && !stop {
        if let Some(md) = bounds.max_depth {
            if depth >= md {
                st.cap_hit = Some(format!("depth bound {md}"));
                break;
            }
        }
        let mut next: Vec<(u32, M::State)> = Vec::new();
        let mut capped = false;
        for chunk in frontier.chunks(CHUNK) {
            let outs: Vec<NodeOut<M::State>> = chunk
                .par_iter()
                .map(|(_, s)| {
                    let acts = model.actions(s);
                    let mut out = NodeOut {
                        succs: Vec::new(),
                        transitions: 0,
                        labels: Vec::new(),
                        viols: Vec::new(),
                    };
                    for (i, a) in acts.iter().enumerate() {
                        let step = model.step(s, a);
                        out.transitions += 1;
                        match out.labels.iter_mut().find(|l| l.0 == step.label) {
                            Some(l) => {
                                if step.ok {
                                    l.1 += 1
                                } else {
                                    l.2 += 1
                                }
                            }
                            None => out.labels.push((step.label, step.ok as u64, !step.ok as u64)),
                        }
                        for v in step.violations {
                            out.viols.push((i as u32, v));
                        }
                        let fp = model.fingerprint(&step.next);
                        if !seen.contains(&fp) {
                            out.succs.push(Succ {
                                fp,
                                state: step.next,
                                aidx: i as u32,
                            });
                        }
                    }
                    out
                })
                .collect();
            for ((pid, _), out) in chunk.iter().zip(outs) {
                st.transitions += out.transitions;
                for (l, a, b) in out.labels {
                    let e = st.labels.entry(l).or_insert((0, 0));
                    e.0 += a;
                    e.1 += b;
                }
                for (aidx, v) in out.viols {
                    record(model, &mut st, known, &parents, *pid, aidx, v, &mut unknown_clauses, &mut stop);
                }
                for s in out.succs {
                    if seen.insert(s.fp) {
                        let id = parents.len() as u32;
                        parents.push((*pid, s.aidx));
                        next.push((id, s.state));
                    }
                }
            }
            if stop {
                break;
            }
            if seen.len() >= bounds.max_states {
                st.cap_hit = Some(format!("state cap {}", bounds.max_states));
                capped = true;
                break;
            }
            if rss_gb() > max_rss_gb() {
                st.cap_hit = Some(format!("memory cap {} GB resident", max_rss_gb()));
                capped = true;
                break;
            }
            if t0.elapsed().as_secs_f64() > bounds.max_secs {
                st.cap_hit = Some(format!("time cap {}s", bounds.max_secs));
                capped = true;
                break;
            }
        }
        st.states = seen.len() as u64;
        if capped {
            break;
        }
        depth += 1;
        st.depth_completed = depth;
        frontier = next;
    }
    if frontier.is_empty() && !stop && st.cap_hit.is_none() {
        st.fixpoint = true;
    }
    // sample traces: the last discovered state and two others rotated by the seed
    let n = parents.len() as u64;
    let mut ids = vec![(n - 1) as u32];
    if n > 3 {
        ids.push(((n / 2 + seed) % n) as u32);
        ids.push(((n / 3 + 7 * seed) % n) as u32);
    }
    for id in ids {
        st.samples.push(trace_of(model, &parents, id, None));
    }
    st.wall_s = t0.elapsed().as_secs_f64();
    st
}

#[allow(clippy::too_many_arguments)]
fn record<M: Model>(
    model: &M,
    st: &mut RunStats,
    known: &dyn KnownMatcher,
    parents: &[(u32, u32)],
    pid: u32,
    aidx: u32,
    v: Violation,
    unknown_clauses: &mut HashSet<String>,
    stop: &mut bool,
) {
    if let Some(desc) = known.matches(&v) {
        let c = st.known_hits.entry(desc.clone()).or_insert(0);
        *c += 1;
        if *c == 1 {
            let trace = if pid == u32::MAX {
                vec![]
            } else {
                trace_of(model, parents, pid, Some(aidx))
            };
            st.found.push(Found {
                config: model.name(),
                clause: v.clause,
                detail: v.detail,
                tags: v.tags,
                trace,
                known: Some(desc),
            });
        }
        return;
    }
    if unknown_clauses.insert(v.clause.clone()) {
        let trace = if pid == u32::MAX {
            vec![]
        } else {
            trace_of(model, parents, pid, Some(aidx))
        };
        st.found.push(Found {
            config: model.name(),
            clause: v.clause,
            detail: v.detail,
            tags: v.tags,
            trace,
            known: None,
        });
    }
    // stop after the chunk in progress: the first counterexample recorded is a shortest one
    *stop = true;
}

/// Re-derive the action sequence reaching state `id` (then optionally one more action index).
fn trace_of<M: Model>(
    model: &M,
    parents: &[(u32, u32)],
    id: u32,
    last: Option<u32>,
) -> Vec<serde_json::Value> {
    let mut idxs = Vec::new();
    let mut cur = id;
    while cur != 0 && cur != u32::MAX {
        let (p, a) = parents[cur as usize];
        idxs.push(a);
        cur = p;
    }
    idxs.reverse();
    if let Some(l) = last {
        idxs.push(l);
    }
    let (mut s, _) = model.init();
    let mut out = Vec::new();
    for i in idxs {
        let acts = model.actions(&s);
        let a = acts[i as usize].clone();
        out.push(serde_json::to_value(&a).unwrap());
        s = model.step(&s, &a).next;
    }
    out
}

/// Replay a recorded action list on a fresh state; returns per-step (label, ok, violations).
pub fn replay<M: Model>(model: &M, actions: &[serde_json::Value]) -> Result<Vec<(String, bool, Vec<Violation>)>, String> {
    let (mut s, v0) = model.init();
    let mut out = vec![("init".to_string(), true, v0)];
    for a in actions {
        let act: M::Action = serde_json::from_value(a.clone()).map_err(|e| format!("bad action {a}: {e}"))?;
        let st = model.step(&s, &act);
        out.push((format!("{:?}", act), st.ok, st.violations));
        s = st.next;
    }
    Ok(out)
}
