//! Engine cross-validation: the same models explored by an independent explicit-state checker
//! (stateright 0.31 BFS). The set of reachable states must have the same size as `mc::bfs` reports,
//! and stateright's `always` property "no oracle clause fired" must hold wherever mc::bfs found none.
#![allow(dead_code)]
mod cw20 {
    #[path = "../../../fam-cw20/src/model.rs"]
    pub mod model;
    #[path = "../../../fam-cw20/src/configs.rs"]
    pub mod configs;
}
mod cw3 {
    #[path = "../../../fam-cw3/src/spec.rs"]
    pub mod spec;
    #[path = "../../../fam-cw3/src/model.rs"]
    pub mod model;
    #[path = "../../../fam-cw3/src/configs.rs"]
    pub mod configs;
}

use mc::{Bounds, Model};
use stateright::{Checker, Model as SrModel, Property};
use std::hash::{Hash, Hasher};
use std::sync::Arc;

struct Adapter<M: Model> {
    m: Arc<M>,
}

#[derive(Clone)]
struct SrState<S: Clone> {
    s: S,
    fp: u128,
    bad: bool,
}
impl<S: Clone> Hash for SrState<S> {
    fn hash<H: Hasher>(&self, h: &mut H) {
        self.fp.hash(h)
    }
}
impl<S: Clone> PartialEq for SrState<S> {
    fn eq(&self, o: &Self) -> bool {
        self.fp == o.fp
    }
}
impl<S: Clone> std::fmt::Debug for SrState<S> {
    fn fmt(&self, f: &mut std::fmt::Formatter<'_>) -> std::fmt::Result {
        write!(f, "state#{:032x}", self.fp)
    }
}

impl<M: Model + Send + Sync + 'static> SrModel for Adapter<M>
where
    M::State: 'static,
{
    type State = SrState<M::State>;
    type Action = usize;
    fn init_states(&self) -> Vec<Self::State> {
        let (s, v) = self.m.init();
        let fp = self.m.fingerprint(&s);
        vec![SrState { s, fp, bad: !v.is_empty() }]
    }
    fn actions(&self, st: &Self::State, out: &mut Vec<usize>) {
        let n = self.m.actions(&st.s).len();
        out.extend(0..n);
    }
    fn next_state(&self, last: &Self::State, a: usize) -> Option<Self::State> {
        let acts = self.m.actions(&last.s);
        let step = self.m.step(&last.s, &acts[a]);
        let fp = self.m.fingerprint(&step.next);
        Some(SrState { s: step.next, fp, bad: !step.violations.is_empty() })
    }
    fn properties(&self) -> Vec<Property<Self>> {
        vec![Property::always("no oracle clause fired", |_, s: &SrState<M::State>| !s.bad)]
    }
}

/// returns (mc states, stateright unique states, stateright property holds)
fn cross<M: Model + Send + Sync + Clone + 'static>(m: M) -> (u64, u64, bool, bool)
where
    M::State: 'static,
{
    let known = mc::explore::NoKnown;
    let st = mc::bfs(&m, &Bounds { max_depth: None, max_states: 3_000_000, max_secs: 600.0 }, &known, 0);
    let ch = Adapter { m: Arc::new(m) }.checker().threads(8).spawn_bfs().join();
    let holds = ch.discovery("no oracle clause fired").is_none();
    (st.states, ch.unique_state_count() as u64, st.found.is_empty(), holds)
}

fn main() {
    mc::world::silence_panics();
    let mut rows = vec![];
    let mut bad = 0;
    // closed (fixpoint) configurations only: depth-bounded ones have no comparable notion in stateright
    for prop in ["C01", "C13", "C19"] {
        for (c, d) in cw20::configs::configs(prop, false) {
            if d.is_some() {
                continue;
            }
            let name = c.name.clone();
            let r = cross(ModelCw20(Arc::new(cw20::model::Cw20Model { cfg: c })));
            rows.push((name, r));
        }
    }
    for prop in ["C03", "C15"] {
        for (i, (c, d)) in cw3::configs::configs(prop, false).into_iter().enumerate() {
            if d.is_some() || i % 4 != 0 {
                continue;
            }
            let name = c.name.clone();
            let r = cross(ModelCw3(Arc::new(cw3::model::Cw3Model { cfg: c })));
            rows.push((name, r));
        }
    }
    for (name, (a, b, f, h)) in &rows {
        let ok = a == b && f == h;
        if !ok {
            bad += 1;
        }
        println!("{} mc_states={} stateright_unique_states={} mc_clean={} stateright_always_holds={} {}", name, a, b, f, h, if ok { "AGREE" } else { "DISAGREE" });
    }
    println!("sr-cross: {} configurations compared, {} disagreements", rows.len(), bad);
    std::process::exit(if bad == 0 { 0 } else { 2 });
}

// thin cloneable wrappers (the models themselves are not Clone)
#[derive(Clone)]
struct ModelCw20(Arc<cw20::model::Cw20Model>);
impl Model for ModelCw20 {
    type State = cw20::model::State;
    type Action = cw20::model::Act;
    fn name(&self) -> String {
        self.0.name()
    }
    fn init(&self) -> (Self::State, Vec<mc::Violation>) {
        self.0.init()
    }
    fn actions(&self, s: &Self::State) -> Vec<Self::Action> {
        self.0.actions(s)
    }
    fn step(&self, s: &Self::State, a: &Self::Action) -> mc::Step<Self::State> {
        self.0.step(s, a)
    }
    fn fingerprint(&self, s: &Self::State) -> u128 {
        self.0.fingerprint(s)
    }
}
#[derive(Clone)]
struct ModelCw3(Arc<cw3::model::Cw3Model>);
impl Model for ModelCw3 {
    type State = cw3::model::State;
    type Action = cw3::model::Act;
    fn name(&self) -> String {
        self.0.name()
    }
    fn init(&self) -> (Self::State, Vec<mc::Violation>) {
        self.0.init()
    }
    fn actions(&self, s: &Self::State) -> Vec<Self::Action> {
        self.0.actions(s)
    }
    fn step(&self, s: &Self::State, a: &Self::Action) -> mc::Step<Self::State> {
        self.0.step(s, a)
    }
    fn fingerprint(&self, s: &Self::State) -> u128 {
        self.0.fingerprint(s)
    }
}
