//! IBC driver on top of `World::entry` (DESIGN.md §3.1): opens channels, delivers packets,
//! acknowledgements and timeouts to the REAL cw20-ics20 `ibc_*` entry points.
//!
//! Rules (assumptions, repeated in the evidence):
//! * state written by `ibc_packet_receive` is committed whenever the entry point returns `Ok`,
//!   whatever acknowledgement bytes it chose; a `reply` that sets data overrides the
//!   acknowledgement (done by the kernel);
//! * `Err`/panic from any entry point reverts the whole step;
//! * a sent packet (`World.outbox`) is acknowledged or timed out at most once and only if it was
//!   sent; it is removed from the outbox when the callback succeeded;
//! * `packet.src` / `packet.dest` always carry the channel's true endpoints; everything else of
//!   an incoming packet is chosen by the alphabet.
use cosmwasm_std::{
    Addr, IbcAcknowledgement, IbcChannel, IbcChannelConnectMsg, IbcChannelOpenMsg, IbcEndpoint,
    IbcOrder, IbcPacket, IbcPacketAckMsg, IbcPacketReceiveMsg, IbcPacketTimeoutMsg, IbcTimeout,
    IbcTimeoutBlock, Timestamp,
};
use cw20_ics20::ibc::{
    ibc_channel_connect, ibc_channel_open, ibc_packet_ack, ibc_packet_receive, ibc_packet_timeout,
};
use mc::world::{SentPacket, TxOut, World};

pub const LOCAL_PORT: &str = "wasm.ics20port";
pub const REMOTE_PORT: &str = "transfer";
pub const CONNECTION: &str = "connection-0";
pub const ICS20_VERSION: &str = "ics20-1";

/// Channel ids. Indices 0,1 form the plain scheme (local channel-1/channel-2, counterparty ends
/// channel-71/channel-72: no id is used twice). Indices 2,3 form the CROSSED scheme: the counterparty
/// end of local channel-5 is called channel-15 and the counterparty end of local channel-15 is called
/// channel-5 — local and remote ids share one namespace on real chains, so a remote id regularly
/// names another local channel. A configuration uses one scheme (`Cfg.first_chan`).
pub fn local_chan(i: u8) -> String {
    match i {
        0 => "channel-1".into(),
        1 => "channel-2".into(),
        2 => "channel-5".into(),
        3 => "channel-15".into(),
        4 => "channel-31".into(),
        5 => "channel-32".into(),
        _ => format!("channel-9{i}"),
    }
}
pub fn remote_chan(i: u8) -> String {
    match i {
        0 => "channel-71".into(),
        1 => "channel-72".into(),
        2 => "channel-15".into(),
        3 => "channel-5".into(),
        // indices 4,5: PREFIX-RELATED counterparty ids (channel-7 is a string prefix of channel-70)
        4 => "channel-7".into(),
        5 => "channel-70".into(),
        _ => format!("channel-8{i}"),
    }
}
/// the other channel of the same scheme
pub fn partner(i: u8) -> u8 {
    i ^ 1
}
pub fn chan_index(id: &str) -> Option<u8> {
    (0..6u8).find(|i| local_chan(*i) == id)
}

pub fn local_ep(i: u8) -> IbcEndpoint {
    IbcEndpoint {
        port_id: LOCAL_PORT.into(),
        channel_id: local_chan(i),
    }
}
pub fn remote_ep(i: u8) -> IbcEndpoint {
    IbcEndpoint {
        port_id: REMOTE_PORT.into(),
        channel_id: remote_chan(i),
    }
}

pub fn channel(i: u8) -> IbcChannel {
    IbcChannel::new(local_ep(i), remote_ep(i), IbcOrder::Unordered, ICS20_VERSION, CONNECTION)
}

fn relayer() -> Addr {
    Addr::unchecked("relayer")
}

/// handshake: the real `ibc_channel_open` (init) followed by `ibc_channel_connect` (ack)
pub fn open_channel(w: &mut World, ics: &str, i: u8) -> Result<(), String> {
    let ch = channel(i);
    let c1 = ch.clone();
    let o = w.entry(ics, move |deps, env| {
        ibc_channel_open(deps, env, IbcChannelOpenMsg::new_init(c1)).map_err(|e| e.to_string())?;
        Ok((vec![], None))
    });
    o.res.map_err(|e| format!("ibc_channel_open: {e}"))?;
    let o = w.entry(ics, move |deps, env| {
        let r = ibc_channel_connect(deps, env, IbcChannelConnectMsg::new_ack(ch, ICS20_VERSION))
            .map_err(|e| e.to_string())?;
        Ok((r.messages, None))
    });
    o.res.map_err(|e| format!("ibc_channel_connect: {e}"))?;
    Ok(())
}

/// deliver an incoming packet with arbitrary data on local channel `i`
pub fn recv(w: &mut World, ics: &str, i: u8, data: Vec<u8>) -> TxOut {
    let timeout = IbcTimeout::with_timestamp(Timestamp::from_seconds(w.time_s + 10_000));
    let packet = IbcPacket::new(data, remote_ep(i), local_ep(i), 1, timeout);
    w.entry(ics, move |deps, env| {
        let r = ibc_packet_receive(deps, env, IbcPacketReceiveMsg::new(packet, relayer()))
            .map_err(|e| e.to_string())?;
        Ok((r.messages, r.acknowledgement))
    })
}

/// the packet exactly as the contract sent it
fn original(p: &SentPacket) -> Option<IbcPacket> {
    let i = chan_index(&p.channel_id)?;
    let timeout = match p.timeout_ts_nanos {
        Some(n) => IbcTimeout::with_timestamp(Timestamp::from_nanos(n)),
        None => IbcTimeout::with_block(IbcTimeoutBlock {
            revision: 1,
            height: 1_000_000,
        }),
    };
    Some(IbcPacket::new(p.data.clone(), local_ep(i), remote_ep(i), p.seq, timeout))
}

/// acknowledge outbox packet `idx` with `ack` bytes; the packet leaves the outbox iff the callback succeeded
pub fn ack(w: &mut World, ics: &str, idx: usize, ack: Vec<u8>) -> TxOut {
    let p = w.outbox[idx].clone();
    let out = match original(&p) {
        None => w.entry(ics, |_d, _e| Err("packet on a channel that was never opened".into())),
        Some(packet) => w.entry(ics, move |deps, env| {
            let m = IbcPacketAckMsg::new(IbcAcknowledgement::new(ack), packet, relayer());
            let r = ibc_packet_ack(deps, env, m).map_err(|e| e.to_string())?;
            Ok((r.messages, None))
        }),
    };
    if out.ok() {
        w.outbox.remove(idx);
    }
    out
}

/// time out outbox packet `idx`
pub fn timeout(w: &mut World, ics: &str, idx: usize) -> TxOut {
    let p = w.outbox[idx].clone();
    let out = match original(&p) {
        None => w.entry(ics, |_d, _e| Err("packet on a channel that was never opened".into())),
        Some(packet) => w.entry(ics, move |deps, env| {
            let m = IbcPacketTimeoutMsg::new(packet, relayer());
            let r = ibc_packet_timeout(deps, env, m).map_err(|e| e.to_string())?;
            Ok((r.messages, None))
        }),
    };
    if out.ok() {
        w.outbox.remove(idx);
    }
    out
}

/// canonical form of the outbox: sequence numbers carry no information for cw20-ics20
/// (no entry point reads them), so they are zeroed and the packets sorted
pub fn normalise_outbox(w: &mut World) {
    for p in w.outbox.iter_mut() {
        p.seq = 0;
    }
    w.outbox
        .sort_by(|a, b| (&a.channel_id, &a.data, a.timeout_ts_nanos).cmp(&(&b.channel_id, &b.data, b.timeout_ts_nanos)));
    w.next_seq = 1;
}
