//! cw20-ics20 under exhaustive exploration: alphabet, reference models and oracles for C11, C12, C18.
//!
//! Runtime: the kernel with dispatch on — the real cw20-ics20 contract (execute / query / reply /
//! migrate / ibc_*), one or two real cw20-base tokens, native funds in the kernel bank, an IBC driver
//! (`driver.rs`) and fault injection on payout / refund sub-calls.
use crate::driver::{self, local_chan, remote_chan, LOCAL_PORT, REMOTE_PORT};
use cosmwasm_std::{
    coin, from_json, to_json_binary, to_json_vec, CosmosMsg, IbcMsg, Storage, Timestamp,
    Uint128, WasmMsg,
};
use cw20::{AllAccountsResponse, BalanceResponse, Cw20Coin, Cw20ExecuteMsg};
use cw20_ics20::ibc::{Ics20Ack, Ics20Packet};
use cw20_ics20::msg::{
    AllowMsg, AllowedResponse, ChannelResponse, ConfigResponse, ExecuteMsg, InitMsg,
    ListAllowedResponse, QueryMsg, TransferMsg,
};
use cw20_ics20::state::ChannelState;
use cw_controllers::AdminResponse;
use mc::store::MemStore;
use mc::world::{addr_cached, ContractVt, Instance, SentPacket, TxOut, World};
use mc::{fp128, Model, Step, Violation};
use serde::{Deserialize, Serialize};
use std::collections::{BTreeMap, BTreeSet};
use std::hash::{Hash, Hasher};
use std::sync::{Arc, OnceLock};

pub const H0: u64 = 10;
pub const T0: u64 = 1000;
pub const DT: u64 = 5;
pub const DEFAULT_TIMEOUT: u64 = 100;
/// remote address named by every transfer: mixed case on purpose (it cannot be validated locally and
/// must be carried verbatim)
pub const REMOTE_RCPT: &str = "Remote1RCPT-0xAbCdEF";
pub const U64MAX: u128 = u64::MAX as u128;

/// actors: users A, B; governance G, later governance G2; stranger X
pub const ACTORS: [&str; 5] = ["A", "B", "G", "G2", "X"];
pub const A: u8 = 0;
pub const B: u8 = 1;
pub const G: u8 = 2;
pub const G2: u8 = 3;
pub const X: u8 = 4;
/// bank denominations; the last one contains a '/' itself (token-factory / path style) and its
/// first segment is another denomination of the list; "UCOSM" differs from "ucosm" in letter case only
/// reference value for "no governance"
pub const NOBODY: u8 = 255;
/// UpdateAdmin targets that are not addresses: the empty string and garbage
pub const ADMIN_EMPTY: u8 = 250;
pub const ADMIN_GARBAGE: u8 = 251;
pub fn admin_string(to: u8) -> String {
    match to {
        ADMIN_EMPTY => String::new(),
        ADMIN_GARBAGE => "not-an-address".into(),
        i => actor(i),
    }
}
pub fn gov_name(g: u8) -> String {
    ACTORS.get(g as usize).map(|s| s.to_string()).unwrap_or_else(|| "<nobody>".into())
}
pub const NATIVES: [&str; 5] = ["ucosm", "ustake", "uusd", "uusd/vault-7", "UCOSM"];

pub fn ics() -> String {
    addr_cached("ics20")
}
pub fn tok_addr(i: u8) -> String {
    addr_cached(if i == 0 { "token1" } else { "token2" })
}
pub fn actor(i: u8) -> String {
    addr_cached(ACTORS[i as usize])
}

pub fn ics_vt() -> &'static ContractVt {
    static VT: OnceLock<ContractVt> = OnceLock::new();
    VT.get_or_init(|| {
        let mut v = mc::contract_vt!(
            "cw20-ics20",
            cw20_ics20::contract,
            cw20_ics20::msg::InitMsg,
            cw20_ics20::msg::ExecuteMsg,
            cw20_ics20::msg::QueryMsg
        );
        fn rep(
            d: cosmwasm_std::DepsMut,
            e: cosmwasm_std::Env,
            r: cosmwasm_std::Reply,
        ) -> Result<cosmwasm_std::Response, String> {
            cw20_ics20::ibc::reply(d, e, r).map_err(|e| e.to_string())
        }
        fn mig(
            d: cosmwasm_std::DepsMut,
            e: cosmwasm_std::Env,
            m: &[u8],
        ) -> Result<cosmwasm_std::Response, String> {
            let msg: cw20_ics20::msg::MigrateMsg =
                cosmwasm_std::from_json(m).map_err(|e| format!("parse: {e}"))?;
            cw20_ics20::contract::migrate(d, e, msg).map_err(|e| e.to_string())
        }
        v.reply = Some(rep);
        v.migrate = Some(mig);
        v
    })
}

pub fn cw20_vt() -> &'static ContractVt {
    static VT: OnceLock<ContractVt> = OnceLock::new();
    VT.get_or_init(|| {
        mc::contract_vt!(
            "cw20-base",
            cw20_base::contract,
            cw20_base::msg::InstantiateMsg,
            cw20_base::msg::ExecuteMsg,
            cw20_base::msg::QueryMsg
        )
    })
}

/// u128 amount that serialises as a decimal string (serde_json values cannot hold u128)
#[derive(Clone, Copy, Debug, PartialEq, Eq, Hash, PartialOrd, Ord)]
pub struct Amt(pub u128);
impl Serialize for Amt {
    fn serialize<S: serde::Serializer>(&self, s: S) -> Result<S::Ok, S::Error> {
        s.serialize_str(&self.0.to_string())
    }
}
impl<'de> Deserialize<'de> for Amt {
    fn deserialize<D: serde::Deserializer<'de>>(d: D) -> Result<Self, D::Error> {
        let s = String::deserialize(d)?;
        s.parse::<u128>().map(Amt).map_err(serde::de::Error::custom)
    }
}

/// a token that originates on this chain
#[derive(Clone, Copy, Debug, Serialize, Deserialize, PartialEq, Eq, Hash, PartialOrd, Ord)]
pub enum Tok {
    Native(u8),
    Cw20(u8),
    /// a BANK coin whose denom is literally the string "cw20:<address of cw20 token i>" (the bank
    /// allows ':' in denoms): it shares the channel-book key of the real token
    BankNamedLikeCw20(u8),
}
impl Tok {
    /// held in the kernel bank (as opposed to a cw20 contract)
    pub fn is_bank(&self) -> bool {
        !matches!(self, Tok::Cw20(_))
    }
    /// the denomination cw20-ics20 uses for it in packets and channel books
    pub fn denom(&self) -> String {
        match self {
            Tok::Native(i) => NATIVES[*i as usize].to_string(),
            Tok::Cw20(i) | Tok::BankNamedLikeCw20(i) => format!("cw20:{}", tok_addr(*i)),
        }
    }
}

/// the part of an incoming denom after the voucher prefix
#[derive(Clone, Copy, Debug, Serialize, Deserialize, PartialEq, Eq, Hash, PartialOrd, Ord)]
pub enum Base {
    Tok(Tok),
    /// a native denom nobody ever sent ("uatom")
    Unknown,
    /// "cw20:" followed by something that is not an address
    BadCw20,
    /// "cw20:" followed by a valid address that is not a contract
    Cw20NoContract,
    Empty,
}
impl Base {
    fn string(&self) -> String {
        match self {
            Base::Tok(t) => t.denom(),
            Base::Unknown => "uatom".into(),
            Base::BadCw20 => "cw20:not-an-address".into(),
            Base::Cw20NoContract => format!("cw20:{}", actor(X)),
            Base::Empty => String::new(),
        }
    }
}

/// shape of the denom string of an incoming packet (the adversarial part of the alphabet)
#[derive(Clone, Copy, Debug, Serialize, Deserialize, PartialEq, Eq, Hash, PartialOrd, Ord)]
pub enum Den {
    /// `<remote port>/<remote channel of THIS channel>/<base>` — the only redeemable form
    Proper(Base),
    /// voucher prefix of the *other* channel's counterparty
    OtherChannel(Base),
    /// right channel, wrong port
    OtherPort(Base),
    /// un-prefixed: a token of the remote chain
    Foreign(Base),
    /// prefixed with OUR port/channel instead of the counterparty's
    LocalPrefix(Base),
    /// proper prefix twice
    Nested(Base),
    /// only `<port>/<channel>`
    TwoParts,
    /// proper prefix, then `<base>/junk`: a denomination that merely STARTS with an escrowed one
    Suffixed(Base),
    /// proper prefix, then `<base>/`
    TrailingSlash(Base),
}
impl Den {
    pub fn string(&self, ch: u8) -> String {
        let other = driver::partner(ch);
        match self {
            Den::Proper(b) => format!("{}/{}/{}", REMOTE_PORT, remote_chan(ch), b.string()),
            Den::OtherChannel(b) => format!("{}/{}/{}", REMOTE_PORT, remote_chan(other), b.string()),
            Den::OtherPort(b) => format!("otherport/{}/{}", remote_chan(ch), b.string()),
            Den::Foreign(b) => b.string(),
            Den::LocalPrefix(b) => format!("{}/{}/{}", LOCAL_PORT, local_chan(ch), b.string()),
            Den::Nested(b) => format!(
                "{}/{}/{}/{}/{}",
                REMOTE_PORT,
                remote_chan(ch),
                REMOTE_PORT,
                remote_chan(ch),
                b.string()
            ),
            Den::TwoParts => format!("{}/{}", REMOTE_PORT, remote_chan(ch)),
            Den::Suffixed(b) => format!("{}/{}/{}/junk", REMOTE_PORT, remote_chan(ch), b.string()),
            Den::TrailingSlash(b) => format!("{}/{}/{}/", REMOTE_PORT, remote_chan(ch), b.string()),
        }
    }
}

#[derive(Clone, Copy, Debug, Serialize, Deserialize, PartialEq, Eq, Hash, PartialOrd, Ord)]
pub enum Rcv {
    User(u8),
    Invalid,
}
impl Rcv {
    fn string(&self) -> String {
        match self {
            Rcv::User(u) => actor(*u),
            Rcv::Invalid => "not-an-address".into(),
        }
    }
}

/// injected failure of the payout / refund sub-call of one IBC step
#[derive(Clone, Copy, Debug, Serialize, Deserialize, PartialEq, Eq, Hash, PartialOrd, Ord)]
pub enum Fault {
    None,
    /// the recipient (bank) / the token contract (cw20) rejects
    Reject,
    /// every sub-message that carries a gas limit runs out of gas
    Gas,
}

#[derive(Clone, Copy, Debug, Serialize, Deserialize, PartialEq, Eq, Hash, PartialOrd, Ord)]
pub enum AckKind {
    Success,
    /// success whose result bytes are the single byte 0x01 (ibc-go's marker)
    SuccessByte01,
    /// success whose result is a JSON document (e.g. what a hook middleware returns)
    SuccessJson,
    Error,
    Garbage,
}
impl AckKind {
    fn bytes(&self) -> Vec<u8> {
        match self {
            AckKind::Success => br#"{"result":"MQ=="}"#.to_vec(),
            AckKind::SuccessByte01 => br#"{"result":"AQ=="}"#.to_vec(),
            AckKind::SuccessJson => br#"{"result":"eyJjb250cmFjdF9yZXN1bHQiOiJlMzA9IiwiaWJjX2FjayI6ImV5SnlaWE4xYkhRaU9pSkJVVDA5SW4wPSJ9"}"#.to_vec(),
            AckKind::Error => br#"{"error":"remote says no"}"#.to_vec(),
            AckKind::Garbage => b"zzz".to_vec(),
        }
    }
}

pub const RAWS: [&[u8]; 4] = [
    b"garbage",
    b"{}",
    br#"{"amount":"x","denom":"transfer/channel-71/ucosm","receiver":"r","sender":"s"}"#,
    br#"{"amount":"-1","denom":"transfer/channel-71/ucosm","receiver":"r","sender":"s"}"#,
];

#[derive(Clone, Serialize, Deserialize)]
pub enum Act {
    /// user transfer: native `Transfer` with funds, or cw20 `Send{TransferMsg}` through the token
    Transfer { user: u8, tok: Tok, ch: u8, amt: Amt, timeout: Option<u64>, memo: Option<String> },
    /// incoming packet on local channel `ch`
    Recv {
        ch: u8,
        den: Den,
        amt: Amt,
        to: Rcv,
        fault: Fault,
        /// memo field of the incoming ICS-20 packet
        #[serde(default)]
        memo: Option<String>,
    },
    /// incoming packet whose data is not an ICS-20 packet
    RecvRaw { ch: u8, raw: u8 },
    /// acknowledgement for the `pkt`-th packet of the (sorted) outbox
    Ack { pkt: usize, kind: AckKind, fault: Fault },
    Timeout { pkt: usize, fault: Fault },
    Allow { by: u8, token: u8, limit: Option<u64> },
    UpdateAdmin { by: u8, to: u8 },
    Migrate { limit: Option<u64> },
    Advance,
    /// stray funds: a user sends bank coins straight to the contract's account (no Transfer message)
    Donate { user: u8, tok: Tok, amt: Amt },
}

fn tok_name(t: &Tok) -> String {
    match t {
        Tok::Native(i) => NATIVES[*i as usize].to_string(),
        Tok::Cw20(i) => format!("T{}", i + 1),
        Tok::BankNamedLikeCw20(i) => format!("bank coin named cw20:T{}", i + 1),
    }
}

/// readable form for replay listings (actors and tokens by name)
impl std::fmt::Debug for Act {
    fn fmt(&self, f: &mut std::fmt::Formatter<'_>) -> std::fmt::Result {
        let who = |i: &u8| ACTORS.get(*i as usize).copied().unwrap_or("?");
        match self {
            Act::Transfer { user, tok, ch, amt, timeout, memo } => write!(
                f,
                "Transfer{{by={}, token={}, amount={}, channel={}, timeout={:?}, memo={:?}}}",
                who(user),
                tok_name(tok),
                amt.0,
                local_chan(*ch),
                timeout,
                memo
            ),
            Act::Recv { ch, den, amt, to, fault, memo } => write!(
                f,
                "RecvPacket{{on={}, denom={:?} = \"{}\", amount={}, receiver={}, payout_fault={:?}, memo={memo:?}}}",
                local_chan(*ch),
                den,
                den.string(*ch),
                amt.0,
                match to {
                    Rcv::User(u) => who(u),
                    Rcv::Invalid => "<invalid address>",
                },
                fault
            ),
            Act::RecvRaw { ch, raw } => write!(
                f,
                "RecvPacket{{on={}, raw data={:?}}}",
                local_chan(*ch),
                String::from_utf8_lossy(RAWS.get(*raw as usize).copied().unwrap_or(b"?"))
            ),
            Act::Ack { pkt, kind, fault } => write!(f, "Ack{{packet #{pkt} of the sorted outbox, {:?}, refund_fault={:?}}}", kind, fault),
            Act::Timeout { pkt, fault } => write!(f, "Timeout{{packet #{pkt} of the sorted outbox, refund_fault={:?}}}", fault),
            Act::Allow { by, token, limit } => write!(f, "Allow{{by={}, token=T{}, gas_limit={:?}}}", who(by), token + 1, limit),
            Act::UpdateAdmin { by, to } => write!(
                f,
                "UpdateAdmin{{by={}, new={}}}",
                who(by),
                if (*to as usize) < ACTORS.len() { who(to).to_string() } else { format!("{:?}", admin_string(*to)) }
            ),
            Act::Migrate { limit } => write!(f, "Migrate{{default_gas_limit={:?}}}", limit),
            Act::Advance => write!(f, "AdvanceBlock"),
            Act::Donate { user, tok, amt } => write!(
                f,
                "BankSendToContract{{by={}, coin={} {}}} (stray funds, no transfer)",
                who(user),
                amt.0,
                tok_name(tok)
            ),
        }
    }
}

#[derive(Clone, Debug, Default)]
pub struct Props {
    pub c11: bool,
    pub c12: bool,
    pub c18: bool,
}

/// initial storage in an older layout (built byte-wise), to be migrated by the first action
#[derive(Clone, Debug)]
pub struct Old {
    /// cw2 version written to the store
    pub version: &'static str,
    /// v1 layout: `ics20_config` = {default_timeout, gov_contract}, no admin item, no allow list
    pub v1: bool,
    /// per token: amount already counted in CHANNEL_STATE of the first channel (acknowledged sends)
    pub counted: Vec<(Tok, u128)>,
    /// the same for the second channel (configurations with two channels in an old layout; the
    /// real migration refuses those, which is fine: `may_refuse`)
    pub counted_b: Vec<(Tok, u128)>,
    /// a refused migration is not a finding for this storage (the property is one-directional here)
    pub may_refuse: bool,
    /// denominations of the first channel whose entry exists with outstanding == 0 and this
    /// total_sent (everything sent was redeemed back)
    pub drained: Vec<(Tok, u128)>,
    /// sends in flight (escrowed, packet pending, not yet counted by the old logic): (user, token, amount)
    pub inflight: Vec<(u8, Tok, u128)>,
}

#[derive(Clone, Debug)]
pub struct Cfg {
    pub name: String,
    pub props: Props,
    /// number of channels, and the index of the first one (0 = plain ids, 2 = crossed ids, see driver)
    pub channels: u8,
    pub first_chan: u8,
    pub tokens: u8,
    /// (user, token, amount)
    pub funds: Vec<(u8, Tok, u128)>,
    pub allow_init: Vec<(u8, Option<u64>)>,
    pub default_gas: Option<u64>,
    pub old: Option<Old>,
    /// Migrate messages offered as the first action on an old layout
    pub first_migrate: Vec<Option<u64>>,
    pub senders: Vec<u8>,
    pub send_toks: Vec<Tok>,
    pub send_amounts: Vec<u128>,
    /// (timeout, memo) variants of a transfer
    pub variants: Vec<(Option<u64>, Option<&'static str>)>,
    pub max_inflight: usize,
    /// denominations of well-prefixed incoming packets
    pub proper: Vec<Base>,
    pub recv_amounts: Vec<u128>,
    /// ill-formed / foreign / other-channel denominations
    pub bad: Vec<Den>,
    pub bad_amounts: Vec<u128>,
    pub receivers: Vec<Rcv>,
    /// non-empty memos carried by redeemable incoming packets (in addition to no memo)
    pub recv_memos: Vec<&'static str>,
    /// receivers named by packets with a non-redeemable denomination
    pub bad_receivers: Vec<Rcv>,
    pub raws: Vec<u8>,
    pub ack_kinds: Vec<AckKind>,
    pub timeouts: bool,
    pub fault_bound: u8,
    pub fault_kinds: Vec<Fault>,
    pub gov_actors: Vec<u8>,
    pub allow_tokens: Vec<u8>,
    pub allow_limits: Vec<Option<u64>>,
    pub admin_targets: Vec<u8>,
    pub migrate_limits: Vec<Option<u64>>,
    pub hmax: u64,
    /// chain-level (wasm, migration) admin of the ics20 contract, an actor that is NOT governance
    pub wasm_admin: Option<u8>,
    /// users that may send bank coins (1 at a time, of any bank token they hold) straight to the contract
    pub donors: Vec<u8>,
    /// leave `total_sent` out of the state key (see `Key::hash`)
    pub mask_total_sent: bool,
    /// a current-layout contract whose cw2 record names an EARLIER release that already had this layout
    /// (0.13.1 and later): migrating it is a same-layout migrate and must leave the books alone
    pub restamp: Option<&'static str>,
}

impl Cfg {
    pub fn base(name: &str) -> Cfg {
        Cfg {
            name: name.to_string(),
            props: Props::default(),
            channels: 2,
            first_chan: 0,
            tokens: 0,
            funds: vec![],
            allow_init: vec![],
            default_gas: None,
            old: None,
            first_migrate: vec![],
            senders: vec![A],
            send_toks: vec![],
            send_amounts: vec![1, 2],
            variants: vec![(None, None)],
            max_inflight: 2,
            proper: vec![],
            recv_amounts: vec![1, 2, 3, U64MAX + 1],
            bad: vec![],
            bad_amounts: vec![1],
            receivers: vec![Rcv::User(B), Rcv::Invalid],
            recv_memos: vec![],
            bad_receivers: vec![Rcv::User(B)],
            raws: vec![0, 1],
            ack_kinds: vec![
                AckKind::Success,
                AckKind::SuccessByte01,
                AckKind::SuccessJson,
                AckKind::Error,
                AckKind::Garbage,
            ],
            timeouts: true,
            fault_bound: 0,
            fault_kinds: vec![Fault::Reject],
            gov_actors: vec![],
            allow_tokens: vec![],
            allow_limits: vec![],
            admin_targets: vec![],
            migrate_limits: vec![],
            hmax: H0,
            wasm_admin: None,
            donors: vec![],
            mask_total_sent: true,
            restamp: None,
        }
    }
    pub fn chans(&self) -> std::ops::Range<u8> {
        self.first_chan..self.first_chan + self.channels
    }
    /// every local denomination the configuration can hold
    pub fn denoms(&self) -> Vec<String> {
        let mut d: BTreeSet<String> = BTreeSet::new();
        for (_, t, _) in &self.funds {
            d.insert(t.denom());
        }
        if let Some(o) = &self.old {
            for (t, _) in o.counted.iter().chain(o.counted_b.iter()) {
                d.insert(t.denom());
            }
            for (t, _) in &o.drained {
                d.insert(t.denom());
            }
            for (_, t, _) in &o.inflight {
                d.insert(t.denom());
            }
        }
        for t in 0..self.tokens {
            d.insert(Tok::Cw20(t).denom());
        }
        d.into_iter().collect()
    }
}

/// reference models (maps and integers)
#[derive(Clone, Debug, PartialEq, Eq, Hash, Default)]
pub struct Ref {
    /// C12: outstanding = sent − failed/timed out − redeemed, per (channel, denom); zero entries removed
    pub out: BTreeMap<(u8, String), u128>,
    /// C11: escrowed − paid per (channel, denom), from real balance changes; zero entries removed
    pub credit: BTreeMap<(u8, String), i128>,
    /// C18
    pub gov: u8,
    pub allow: BTreeMap<u8, Option<u64>>,
    pub default: Option<u64>,
}

#[derive(Clone, Debug, PartialEq, Eq, Default)]
pub struct ChanObs {
    pub bal: BTreeMap<String, u128>,
    pub total: BTreeMap<String, u128>,
}

/// Everything the public surface shows: all Channel queries, all real balances, allow list, config.
#[derive(Clone, Debug, PartialEq, Eq, Default)]
pub struct Obs {
    pub chans: BTreeMap<u8, Option<ChanObs>>,
    /// kernel bank: (address, denom) -> amount (non-zero)
    pub bank: BTreeMap<(String, String), u128>,
    /// (token address, holder) -> balance, for every account the token lists plus the ics20 contract
    pub cw20: BTreeMap<(String, String), u128>,
    /// (default_timeout, default_gas_limit, gov_contract)
    pub config: Option<(u64, Option<u64>, String)>,
    pub admin: Option<String>,
    /// fully paged ListAllowed
    pub listed: Vec<(String, Option<u64>)>,
    /// Allowed{token} for every token of the configuration
    pub allowed: Vec<(bool, Option<u64>)>,
    /// packets in flight (the outbox)
    pub pending: Vec<SentPacket>,
}

impl Obs {
    pub fn bal(&self, addr: &str, denom: &str) -> u128 {
        if let Some(t) = denom.strip_prefix("cw20:") {
            self.cw20.get(&(t.to_string(), addr.to_string())).copied().unwrap_or(0)
        } else {
            self.bank.get(&(addr.to_string(), denom.to_string())).copied().unwrap_or(0)
        }
    }
    /// real balance of `addr` in token `t` (bank coins by their literal denom, cw20 by the token's Balance)
    pub fn tbal(&self, addr: &str, t: &Tok) -> u128 {
        if t.is_bank() {
            self.bank.get(&(addr.to_string(), t.denom())).copied().unwrap_or(0)
        } else {
            self.bal(addr, &t.denom())
        }
    }
    pub fn chan_bal(&self, ch: u8, denom: &str) -> u128 {
        self.chans
            .get(&ch)
            .and_then(|c| c.as_ref())
            .and_then(|c| c.bal.get(denom).copied())
            .unwrap_or(0)
    }
    fn diff(&self, o: &Obs) -> String {
        let mut d = vec![];
        if self.chans != o.chans {
            d.push(format!("channel books (outstanding/total_sent) {} -> {}", short_chans(&self.chans), short_chans(&o.chans)));
        }
        if self.bank != o.bank {
            d.push(format!("bank {:?} -> {:?}", short_bank(&self.bank), short_bank(&o.bank)));
        }
        if self.cw20 != o.cw20 {
            d.push(format!("cw20 {:?} -> {:?}", short_bank(&self.cw20), short_bank(&o.cw20)));
        }
        if self.config != o.config {
            d.push(format!("config {:?} -> {:?}", self.config, o.config));
        }
        if self.admin != o.admin {
            d.push(format!("admin {:?} -> {:?}", self.admin, o.admin));
        }
        if self.listed != o.listed || self.allowed != o.allowed {
            d.push(format!("allow list {:?} -> {:?}", self.listed, o.listed));
        }
        if self.pending != o.pending {
            d.push(format!("packets in flight {} -> {}", self.pending.len(), o.pending.len()));
        }
        d.join("; ")
    }
}

fn name_of(addr: &str) -> String {
    for (i, n) in ACTORS.iter().enumerate() {
        if actor(i as u8) == addr {
            return n.to_string();
        }
    }
    if addr == ics() {
        return "ics20".into();
    }
    if addr == tok_addr(0) {
        return "T1".into();
    }
    if addr == tok_addr(1) {
        return "T2".into();
    }
    addr.to_string()
}

fn short_chans(c: &BTreeMap<u8, Option<ChanObs>>) -> String {
    let mut out = vec![];
    for (i, c) in c.iter() {
        let i = *i;
        match c {
            None => out.push(format!("{}: query failed", local_chan(i as u8))),
            Some(c) => {
                let items: Vec<String> = c
                    .bal
                    .iter()
                    .map(|(d, b)| format!("{}={}/{}", name_denom(d), b, c.total.get(d).copied().unwrap_or(0)))
                    .collect();
                out.push(format!("{}: [{}]", local_chan(i as u8), items.join(", ")));
            }
        }
    }
    out.join(" ")
}

fn short_bank(m: &BTreeMap<(String, String), u128>) -> Vec<(String, String, u128)> {
    m.iter().map(|((a, b), v)| (name_of(a), name_of(b), *v)).collect()
}

#[derive(Clone)]
pub struct State {
    pub w: World,
    pub r: Ref,
    pub obs: Arc<Obs>,
    /// injected faults that actually hit so far
    pub faults: u8,
    /// false while an old-layout storage has not been migrated yet
    pub migrated: bool,
    pub dead: bool,
}

pub struct Ics20Model {
    pub cfg: Cfg,
    /// transitions executed so far (progress display only)
    pub steps: std::sync::atomic::AtomicU64,
}

fn ns_prefix(ns: &str) -> Vec<u8> {
    let mut p = vec![(ns.len() >> 8) as u8, (ns.len() & 0xff) as u8];
    p.extend_from_slice(ns.as_bytes());
    p
}

/// The state key. Everything future behaviour depends on: the whole world (every contract store,
/// the bank, the packets in flight), the reference models and the fault counter.
/// One field is deliberately left out when `mask_total_sent` is set: `ChannelState.total_sent`.
/// Argument: no code path of cw20-ics20 reads `total_sent` except to add to it and to report it in
/// `Channel{}`; it never influences a decision, so two states that differ only in it have the same
/// futures up to that reported number, and every oracle clause about it (`never falls`, `error ack
/// changes nothing`) is a predicate on one transition (pre vs. post), not on the history.
/// Without the mask send→timeout→refund→send cycles make the state space infinite.
struct Key<'a> {
    s: &'a State,
    cfg: &'a Cfg,
}
impl Hash for Key<'_> {
    fn hash<H: Hasher>(&self, h: &mut H) {
        let w = &self.s.w;
        w.height.hash(h);
        w.time_s.hash(h);
        for (k, v) in &w.bank {
            if *v != 0 {
                k.hash(h);
                v.hash(h);
            }
        }
        0xa5u8.hash(h);
        let ics = ics();
        // rows of the channel books: any namespace ending in "channel_state" (robust against a rename)
        let is_books = |k: &[u8]| -> bool {
            if k.len() < 2 {
                return false;
            }
            let n = ((k[0] as usize) << 8) | k[1] as usize;
            k.len() >= 2 + n && k[2..2 + n].ends_with(b"channel_state")
        };
        for (a, c) in &w.contracts {
            a.hash(h);
            c.vt.name.hash(h);
            c.store.0.len().hash(h);
            let mask = self.cfg.mask_total_sent && *a == ics;
            for (k, v) in c.store.0.iter() {
                k.hash(h);
                if mask && is_books(k) {
                    match from_json::<ChannelState>(v) {
                        Ok(cs) => cs.outstanding.u128().hash(h),
                        Err(_) => v.hash(h),
                    }
                } else {
                    v.hash(h);
                }
            }
        }
        w.failing.hash(h);
        w.gas_fail.hash(h);
        w.outbox.hash(h);
        w.next_seq.hash(h);
        let p = &self.cfg.props;
        let r = &self.s.r;
        if p.c12 {
            r.out.hash(h);
        }
        if p.c11 {
            r.credit.hash(h);
        }
        if p.c18 {
            r.gov.hash(h);
            r.allow.hash(h);
            r.default.hash(h);
        }
        self.s.faults.hash(h);
        self.s.migrated.hash(h);
        self.s.dead.hash(h);
    }
}

/// `<a>/<b>/<rest>` -> rest; anything with fewer than three parts is returned whole
fn voucher_base(denom: &str) -> String {
    let parts: Vec<&str> = denom.splitn(3, '/').collect();
    if parts.len() == 3 {
        parts[2].to_string()
    } else {
        denom.to_string()
    }
}

#[derive(PartialEq, Eq, Debug, Clone, Copy)]
enum AckClass {
    Success,
    Error,
    Neither,
}
fn classify(ack: &Option<cosmwasm_std::Binary>) -> AckClass {
    match ack {
        None => AckClass::Neither,
        Some(b) => match from_json::<Ics20Ack>(b) {
            Ok(Ics20Ack::Result(_)) => AckClass::Success,
            Ok(Ics20Ack::Error(_)) => AckClass::Error,
            Err(_) => AckClass::Neither,
        },
    }
}

fn add(m: &mut BTreeMap<(u8, String), u128>, k: (u8, String), x: u128) {
    let e = m.entry(k).or_insert(0);
    *e = e.saturating_add(x);
}
fn sub(m: &mut BTreeMap<(u8, String), u128>, k: (u8, String), x: u128) -> bool {
    let cur = m.get(&k).copied().unwrap_or(0);
    let ok = cur >= x;
    let n = cur.saturating_sub(x);
    if n == 0 {
        m.remove(&k);
    } else {
        m.insert(k, n);
    }
    ok
}
fn credit_add(m: &mut BTreeMap<(u8, String), i128>, k: (u8, String), x: i128) {
    let n = m.get(&k).copied().unwrap_or(0) + x;
    if n == 0 {
        m.remove(&k);
    } else {
        m.insert(k, n);
    }
}

impl Ics20Model {
    /// Read everything the public surface shows. `prev` is an earlier world with its observation:
    /// a contract whose store is *the same allocation* as before (copy-on-write stores: no committed
    /// write happened) answers every query identically, so those answers are copied instead of
    /// asked again. Sound because all queries used here are functions of the contract's own store.
    pub fn observe(&self, w: &World, prev: Option<(&World, &Obs)>) -> Obs {
        let cfg = &self.cfg;
        let ics = ics();
        let mut o = Obs::default();
        let same = |addr: &str| -> bool {
            match prev {
                Some((pw, _)) => match (pw.contracts.get(addr), w.contracts.get(addr)) {
                    (Some(a), Some(b)) => Arc::ptr_eq(&a.store.0, &b.store.0),
                    _ => false,
                },
                None => false,
            }
        };
        for (k, v) in &w.bank {
            if *v != 0 {
                o.bank.insert(k.clone(), *v);
            }
        }
        o.pending = w.outbox.clone();
        for t in 0..cfg.tokens {
            let ta = tok_addr(t);
            if same(&ta) {
                let po = prev.unwrap().1;
                for (k, v) in po.cw20.range((ta.clone(), String::new())..) {
                    if k.0 != ta {
                        break;
                    }
                    o.cw20.insert(k.clone(), *v);
                }
                continue;
            }
            let mut holders: BTreeSet<String> = BTreeSet::new();
            holders.insert(ics.clone());
            let mut cursor: Option<String> = None;
            for _ in 0..8 {
                let page: Result<AllAccountsResponse, String> = w.query(
                    &ta,
                    &cw20_base::msg::QueryMsg::AllAccounts {
                        start_after: cursor.clone(),
                        limit: Some(30),
                    },
                );
                match page {
                    Ok(p) if !p.accounts.is_empty() => {
                        cursor = p.accounts.last().cloned();
                        let n = p.accounts.len();
                        holders.extend(p.accounts);
                        if n < 30 {
                            break;
                        }
                    }
                    _ => break,
                }
            }
            for hd in holders {
                let b: Result<BalanceResponse, String> =
                    w.query(&ta, &cw20_base::msg::QueryMsg::Balance { address: hd.clone() });
                let b = b.map(|b| b.balance.u128()).unwrap_or(0);
                if b != 0 {
                    o.cw20.insert((ta.clone(), hd), b);
                }
            }
        }
        if same(&ics) {
            let po = prev.unwrap().1;
            o.chans = po.chans.clone();
            o.config = po.config.clone();
            o.admin = po.admin.clone();
            o.listed = po.listed.clone();
            o.allowed = po.allowed.clone();
            return o;
        }
        for ch in cfg.chans() {
            let r: Result<ChannelResponse, String> = w.query(&ics, &QueryMsg::Channel { id: local_chan(ch) });
            o.chans.insert(ch, r.ok().map(|c| ChanObs {
                bal: c.balances.iter().map(|a| (a.denom(), a.amount().u128())).collect(),
                total: c.total_sent.iter().map(|a| (a.denom(), a.amount().u128())).collect(),
            }));
        }
        let c: Result<ConfigResponse, String> = w.query(&ics, &QueryMsg::Config {});
        o.config = c.ok().map(|c| (c.default_timeout, c.default_gas_limit, c.gov_contract));
        let a: Result<AdminResponse, String> = w.query(&ics, &QueryMsg::Admin {});
        o.admin = a.ok().and_then(|a| a.admin);
        let mut cursor: Option<String> = None;
        for _ in 0..8 {
            let l: Result<ListAllowedResponse, String> = w.query(
                &ics,
                &QueryMsg::ListAllowed {
                    start_after: cursor.clone(),
                    limit: Some(30),
                },
            );
            match l {
                Ok(l) if !l.allow.is_empty() => {
                    cursor = l.allow.last().map(|a| a.contract.clone());
                    let n = l.allow.len();
                    o.listed.extend(l.allow.into_iter().map(|a| (a.contract, a.gas_limit)));
                    if n < 30 {
                        break;
                    }
                }
                _ => break,
            }
        }
        for t in 0..cfg.tokens {
            let r: Result<AllowedResponse, String> = w.query(&ics, &QueryMsg::Allowed { contract: tok_addr(t) });
            o.allowed.push(r.map(|r| (r.is_allowed, r.gas_limit)).unwrap_or((false, None)));
        }
        o
    }

    /// state oracles, evaluated through the queries in `o`
    fn check_state(&self, r: &Ref, o: &Obs, out: &mut Vec<Violation>) {
        let cfg = &self.cfg;
        let ics = ics();
        let denoms = cfg.denoms();
        if cfg.props.c11 {
            for d in &denoms {
                let hold = o.bal(&ics, d);
                let mut sum: u128 = 0;
                for ch in cfg.chans() {
                    sum = sum.saturating_add(o.chan_bal(ch, d));
                }
                if hold < sum {
                    out.push(Violation::new(
                        "C11.holdings_cover_outstanding",
                        format!(
                            "contract really holds {hold} of {} but its channels report {sum} outstanding ({:?})",
                            name_denom(d),
                            cfg.chans().map(|c| o.chan_bal(c, d)).collect::<Vec<_>>()
                        ),
                    ));
                }
            }
            for ((ch, d), c) in &r.credit {
                if *c < 0 {
                    out.push(Violation::new(
                        "C11.paid_le_escrowed",
                        format!(
                            "channel {} denom {}: paid out {} more than was escrowed by transfers on that channel",
                            local_chan(*ch),
                            name_denom(d),
                            -*c
                        ),
                    ));
                }
            }
        }
        if cfg.props.c12 {
            for ch in cfg.chans() {
                let mut seen: BTreeSet<String> = denoms.iter().cloned().collect();
                if let Some(Some(c)) = o.chans.get(&ch) {
                    seen.extend(c.bal.keys().cloned());
                } else {
                    out.push(Violation::new("C12.channel_query_answers", format!("Channel{{{}}} failed", local_chan(ch))));
                    continue;
                }
                for d in seen {
                    let have = o.chan_bal(ch, &d);
                    let want = r.out.get(&(ch, d.clone())).copied().unwrap_or(0);
                    if have != want {
                        out.push(Violation::new(
                            "C12.outstanding_eq_sent_minus_failed_minus_redeemed",
                            format!(
                                "Channel{{{}}} reports {have} outstanding of {}, reference (sent - failed/timed out - redeemed) = {want}",
                                local_chan(ch),
                                name_denom(&d)
                            ),
                        ));
                    }
                }
            }
        }
        if cfg.props.c18 {
            let gov = if r.gov == NOBODY { String::new() } else { actor(r.gov) };
            let want_admin = if r.gov == NOBODY { None } else { Some(gov.as_str()) };
            if o.admin.as_deref() != want_admin {
                out.push(Violation::new(
                    "C18.admin_query_eq_reference",
                    format!("Admin query {:?}, reference governance {}", o.admin.as_deref().map(name_of), gov_name(r.gov)),
                ));
            }
            match &o.config {
                None => out.push(Violation::new("C18.config_query_answers", "Config query failed".into())),
                Some((_, dflt, g)) => {
                    if *g != gov {
                        out.push(Violation::new(
                            "C18.config_gov_eq_reference",
                            format!("Config.gov_contract {}, reference {}", name_of(g), gov_name(r.gov)),
                        ));
                    }
                    if *dflt != r.default {
                        out.push(Violation::new(
                            "C18.default_gas_limit_eq_reference",
                            format!("Config.default_gas_limit {:?}, reference {:?}", dflt, r.default),
                        ));
                    }
                }
            }
            let mut want: Vec<(String, Option<u64>)> = r.allow.iter().map(|(t, l)| (tok_addr(*t), *l)).collect();
            want.sort();
            let mut have = o.listed.clone();
            have.sort();
            if have != want {
                out.push(Violation::new(
                    "C18.list_allowed_eq_reference",
                    format!("ListAllowed {:?}, reference {:?}", short_list(&have), short_list(&want)),
                ));
            }
            for t in 0..cfg.tokens {
                let w = match r.allow.get(&t) {
                    Some(l) => (true, *l),
                    None => (false, None),
                };
                if o.allowed.get(t as usize).copied() != Some(w) {
                    out.push(Violation::new(
                        "C18.allowed_query_eq_reference",
                        format!("Allowed{{T{}}} = {:?}, reference {:?}", t + 1, o.allowed.get(t as usize), w),
                    ));
                }
            }
        }
    }

    /// C18: a cw20 token that is listed or covered by a default must stay redeemable / refundable:
    /// when the channel balance covers `amount` of `denom` = "cw20:<Ti>", the step has to issue a payout
    /// sub-call to Ti (whose gas limit `check_gas` then compares). One-directional: nothing is demanded
    /// for unlisted tokens without default, for amounts above the balance, or for other denominations.
    fn check_redeemable(&self, r: &Ref, pre: &Obs, ch: u8, denom: &str, amount: u128, what: &str, out: &TxOut, v: &mut Vec<Violation>) {
        let Some(addr) = denom.strip_prefix("cw20:") else { return };
        let Some(t) = (0..self.cfg.tokens).find(|t| tok_addr(*t) == addr) else { return };
        let covered = r.allow.contains_key(&t) || r.default.is_some();
        if !covered || amount == 0 || amount > pre.chan_bal(ch, denom) {
            return;
        }
        let ics = ics();
        let issued = out.dispatched.iter().any(|d| {
            d.sender == ics && matches!(&d.msg, CosmosMsg::Wasm(WasmMsg::Execute { contract_addr, .. }) if contract_addr == addr)
        });
        if !issued {
            v.push(Violation::new(
                "C18.covered_token_stays_redeemable",
                format!(
                    "{what} of {amount} T{} on {} (channel balance {}, allow list {:?}, default {:?}): no payout sub-call was issued ({})",
                    t + 1,
                    local_chan(ch),
                    pre.chan_bal(ch, denom),
                    r.allow,
                    r.default,
                    if out.ok() { format!("result {:?}", out.res.as_ref().ok().and_then(|b| b.as_ref().map(|b| String::from_utf8_lossy(b.as_slice()).to_string()))) } else { out.err() }
                ),
            ));
        }
    }

    /// C18: every payout / refund sub-message carries the token's limit, else the default; native none
    fn check_gas(&self, r: &Ref, out: &TxOut, v: &mut Vec<Violation>) {
        let ics = ics();
        for d in &out.dispatched {
            if d.sender != ics {
                continue;
            }
            match &d.msg {
                CosmosMsg::Wasm(WasmMsg::Execute { contract_addr, .. }) => {
                    let t = (0..self.cfg.tokens).find(|t| tok_addr(*t) == *contract_addr);
                    let expected: Option<Option<u64>> = match t.and_then(|t| r.allow.get(&t)) {
                        Some(l) => Some(*l),
                        None => r.default.map(Some),
                    };
                    match expected {
                        None => v.push(Violation::new(
                            "C18.payout_needs_listing_or_default",
                            format!("payout sub-call to {} issued although the token is not listed and no default gas limit exists", name_of(contract_addr)),
                        )),
                        Some(l) => {
                            if d.gas_limit != l {
                                v.push(Violation::new(
                                    "C18.payout_gas_limit",
                                    format!(
                                        "payout sub-call to {} carries gas_limit {:?}, expected {:?} (allow list {:?}, default {:?})",
                                        name_of(contract_addr),
                                        d.gas_limit,
                                        l,
                                        r.allow,
                                        r.default
                                    ),
                                ));
                            }
                        }
                    }
                }
                CosmosMsg::Bank(_) => {
                    if d.gas_limit.is_some() {
                        v.push(Violation::new(
                            "C18.native_payout_without_limit",
                            format!("native payout carries gas_limit {:?}", d.gas_limit),
                        ));
                    }
                }
                _ => {}
            }
        }
    }

    fn arm(&self, w: &mut World, f: Fault) {
        match f {
            Fault::None => {}
            Fault::Reject => {
                for i in 0..ACTORS.len() as u8 {
                    w.failing.insert(actor(i));
                }
                for t in 0..self.cfg.tokens {
                    w.failing.insert(tok_addr(t));
                }
            }
            Fault::Gas => w.gas_fail = true,
        }
    }
    fn disarm(&self, w: &mut World) {
        w.failing.clear();
        w.gas_fail = false;
    }

    fn build_old(&self, w: &mut World, old: &Old) -> Result<(), String> {
        // The storage of a really deployed older release, written byte by byte under the LITERAL keys
        // those releases used (cw-storage-plus encoding: 2-byte length-prefixed namespace, 2-byte
        // length-prefixed leading key parts, last part raw) — never through the current crate's
        // constants, so that a renamed namespace or changed layout in the current code shows up.
        let cfg = &self.cfg;
        let ics = ics();
        w.contracts.insert(
            ics.clone(),
            Instance {
                vt: ics_vt(),
                store: MemStore::new(),
                wasm_admin: None,
            },
        );
        let inst = w.contracts.get_mut(&ics).unwrap();
        let js = |v: serde_json::Value| v.to_string().into_bytes();
        if old.v1 {
            // 0.11 / 0.12-alpha: config = {default_timeout, gov_contract}; no admin item, no allow list
            inst.store.set(b"ics20_config", &js(serde_json::json!({"default_timeout": DEFAULT_TIMEOUT, "gov_contract": actor(G)})));
        } else {
            inst.store.set(
                b"ics20_config",
                &js(serde_json::json!({"default_timeout": DEFAULT_TIMEOUT, "default_gas_limit": cfg.default_gas})),
            );
            inst.store.set(b"admin", &js(serde_json::json!(actor(G))));
            for (t, l) in &cfg.allow_init {
                let mut k = ns_prefix("allow_list");
                k.extend_from_slice(tok_addr(*t).as_bytes());
                inst.store.set(&k, &js(serde_json::json!({"gas_limit": l})));
            }
        }
        // (the real 0.13.0 -> current migration supports a single channel only and refuses more)
        for ch in cfg.chans() {
            let mut k = ns_prefix("channel_info");
            k.extend_from_slice(local_chan(ch).as_bytes());
            inst.store.set(
                &k,
                &js(serde_json::json!({
                    "id": local_chan(ch),
                    "counterparty_endpoint": {"port_id": REMOTE_PORT, "channel_id": remote_chan(ch)},
                    "connection_id": driver::CONNECTION,
                })),
            );
        }
        cw2::set_contract_version(&mut inst.store, "crates.io:cw20-ics20", old.version).map_err(|e| e.to_string())?;
        let state_key = |ch: u8, denom: &str| -> Vec<u8> {
            let mut k = ns_prefix("channel_state");
            let c = local_chan(ch);
            k.extend_from_slice(&[(c.len() >> 8) as u8, (c.len() & 0xff) as u8]);
            k.extend_from_slice(c.as_bytes());
            k.extend_from_slice(denom.as_bytes());
            k
        };
        for (t, total) in &old.drained {
            inst.store.set(
                &state_key(cfg.first_chan, &t.denom()),
                &js(serde_json::json!({"outstanding": "0", "total_sent": total.to_string()})),
            );
        }
        let per_chan = [(cfg.first_chan, &old.counted), (cfg.first_chan + 1, &old.counted_b)];
        for (ch, list) in per_chan {
            for (t, x) in list {
                inst.store.set(
                    &state_key(ch, &t.denom()),
                    &js(serde_json::json!({"outstanding": x.to_string(), "total_sent": x.to_string()})),
                );
            }
        }
        for (u, t, x) in &old.inflight {
            let p = Ics20Packet::new(Uint128::new(*x), t.denom(), &actor(*u), REMOTE_RCPT);
            w.outbox.push(SentPacket {
                contract: ics.clone(),
                channel_id: local_chan(cfg.first_chan),
                data: to_json_vec(&p).unwrap(),
                timeout_ts_nanos: Some(Timestamp::from_seconds(T0 + DEFAULT_TIMEOUT).nanos()),
                seq: 0,
            });
        }
        Ok(())
    }

    /// what the ics20 contract really holds at the start of an old-layout configuration
    fn old_escrow(old: &Old) -> BTreeMap<Tok, u128> {
        let mut m: BTreeMap<Tok, u128> = BTreeMap::new();
        for (t, x) in old.counted.iter().chain(old.counted_b.iter()) {
            *m.entry(*t).or_insert(0) += x;
        }
        for (_, t, x) in &old.inflight {
            *m.entry(*t).or_insert(0) += x;
        }
        m
    }

    fn transfer(&self, w: &mut World, user: u8, tok: Tok, ch: u8, amt: u128, timeout: Option<u64>, memo: &Option<String>) -> TxOut {
        let tm = TransferMsg {
            channel: local_chan(ch),
            remote_address: REMOTE_RCPT.to_string(),
            timeout,
            memo: memo.clone(),
        };
        match tok {
            Tok::Native(_) | Tok::BankNamedLikeCw20(_) => w.execute_json(
                &actor(user),
                &ics(),
                &ExecuteMsg::Transfer(tm),
                &[coin(amt, tok.denom())],
            ),
            Tok::Cw20(t) => w.execute_json(
                &actor(user),
                &tok_addr(t),
                &Cw20ExecuteMsg::Send {
                    contract: ics(),
                    amount: Uint128::new(amt),
                    msg: to_json_binary(&tm).unwrap(),
                },
                &[],
            ),
        }
    }
}

fn name_denom(d: &str) -> String {
    match d.strip_prefix("cw20:") {
        Some(t) => format!("cw20:{}", name_of(t)),
        None => d.to_string(),
    }
}
fn short_list(l: &[(String, Option<u64>)]) -> Vec<(String, Option<u64>)> {
    l.iter().map(|(a, g)| (name_of(a), *g)).collect()
}

fn label(a: &Act) -> String {
    match a {
        Act::Transfer { tok, amt, .. } => {
            let k = match tok {
                Tok::Native(_) => "Transfer.native",
                Tok::BankNamedLikeCw20(_) => "Transfer.native-named-like-cw20",
                Tok::Cw20(_) => "Transfer.cw20",
            };
            if amt.0 == U64MAX {
                format!("{k}(2^64-1)")
            } else if amt.0 > U64MAX {
                format!("{k}(>=2^64)")
            } else {
                k.to_string()
            }
        }
        Act::Recv { den: Den::Proper(Base::Tok(_)), memo: Some(_), .. } => "Recv.voucher+memo".into(),
        Act::Recv { den: Den::Proper(Base::Tok(_)), fault: Fault::None, .. } => "Recv.voucher".into(),
        Act::Recv { den: Den::Proper(Base::Tok(_)), .. } => "Recv.voucher+payout-fault".into(),
        Act::Recv { .. } => "Recv.foreign-or-malformed-denom".into(),
        Act::RecvRaw { .. } => "Recv.raw-garbage".into(),
        Act::Ack { kind: AckKind::Success, .. } => "Ack.success".into(),
        Act::Ack { kind: AckKind::SuccessByte01, .. } => "Ack.success(0x01)".into(),
        Act::Ack { kind: AckKind::SuccessJson, .. } => "Ack.success(json result)".into(),
        Act::Ack { kind: AckKind::Error, fault: Fault::None, .. } => "Ack.error".into(),
        Act::Ack { kind: AckKind::Error, .. } => "Ack.error+refund-fault".into(),
        Act::Ack { kind: AckKind::Garbage, .. } => "Ack.garbage".into(),
        Act::Timeout { fault: Fault::None, .. } => "Timeout".into(),
        Act::Timeout { .. } => "Timeout+refund-fault".into(),
        Act::Allow { .. } => "Allow".into(),
        Act::UpdateAdmin { .. } => "UpdateAdmin".into(),
        Act::Migrate { .. } => "Migrate".into(),
        Act::Advance => "AdvanceBlock".into(),
        Act::Donate { .. } => "BankSendToContract".into(),
    }
}

impl Model for Ics20Model {
    type State = State;
    type Action = Act;

    fn name(&self) -> String {
        self.cfg.name.clone()
    }

    fn init(&self) -> (State, Vec<Violation>) {
        let cfg = &self.cfg;
        let ics = ics();
        let mut w = World::new();
        w.height = H0;
        w.time_s = T0;
        w.dispatch = true;
        let mut v = vec![];
        let escrow = cfg.old.as_ref().map(Self::old_escrow).unwrap_or_default();
        let dead = |w: World, v: Vec<Violation>, e: String| {
            let mut v = v;
            v.push(Violation::new("cfg.setup_failed", e));
            (
                State {
                    w,
                    r: Ref::default(),
                    obs: Arc::new(Obs::default()),
                    faults: 0,
                    migrated: true,
                    dead: true,
                },
                v,
            )
        };
        // tokens and funds
        for t in 0..cfg.tokens {
            let mut init: Vec<Cw20Coin> = cfg
                .funds
                .iter()
                .filter(|(_, k, _)| *k == Tok::Cw20(t))
                .map(|(u, _, x)| Cw20Coin {
                    address: actor(*u),
                    amount: Uint128::new(*x),
                })
                .collect();
            if let Some(x) = escrow.get(&Tok::Cw20(t)) {
                init.push(Cw20Coin {
                    address: ics.clone(),
                    amount: Uint128::new(*x),
                });
            }
            let msg = cw20_base::msg::InstantiateMsg {
                name: format!("Token{}", t + 1),
                symbol: "TOK".into(),
                decimals: 6,
                initial_balances: init,
                mint: None,
                marketing: None,
            };
            let o = w.instantiate(cw20_vt(), &tok_addr(t), &actor(X), &to_json_vec(&msg).unwrap(), &[]);
            if let Err(e) = o.res {
                return dead(w, v, format!("instantiate token: {e}"));
            }
        }
        for (u, k, x) in &cfg.funds {
            if k.is_bank() {
                w.set_balance(&actor(*u), &k.denom(), *x);
            }
        }
        for (k, x) in &escrow {
            if k.is_bank() {
                w.set_balance(&ics, &k.denom(), *x);
            }
        }
        let mut r = Ref {
            gov: G,
            default: cfg.default_gas,
            ..Default::default()
        };
        let migrated;
        match &cfg.old {
            None => {
                let msg = InitMsg {
                    default_timeout: DEFAULT_TIMEOUT,
                    gov_contract: actor(G),
                    allowlist: cfg
                        .allow_init
                        .iter()
                        .map(|(t, l)| AllowMsg {
                            contract: tok_addr(*t),
                            gas_limit: *l,
                        })
                        .collect(),
                    default_gas_limit: cfg.default_gas,
                };
                let o = w.instantiate(ics_vt(), &ics, &actor(X), &to_json_vec(&msg).unwrap(), &[]);
                if let Err(e) = o.res {
                    return dead(w, v, format!("instantiate ics20: {e}"));
                }
                for ch in cfg.chans() {
                    if let Err(e) = driver::open_channel(&mut w, &ics, ch) {
                        return dead(w, v, e);
                    }
                }
                for (t, l) in &cfg.allow_init {
                    r.allow.insert(*t, *l);
                }
                migrated = true;
                if let Some(ver) = cfg.restamp {
                    let inst = w.contracts.get_mut(&ics).unwrap();
                    if let Err(e) = cw2::set_contract_version(&mut inst.store, "crates.io:cw20-ics20", ver) {
                        return dead(w, v, e.to_string());
                    }
                }
            }
            Some(old) => {
                if let Err(e) = self.build_old(&mut w, old) {
                    return dead(w, v, e);
                }
                if old.v1 {
                    r.default = None;
                } else {
                    for (t, l) in &cfg.allow_init {
                        r.allow.insert(*t, *l);
                    }
                }
                // the truth the migration has to arrive at: everything escrowed on the single
                // channel is outstanding (acknowledged sends + sends still in flight)
                // (sends in flight belong to the first channel; the second one, if any, keeps what it counted)
                let mut per: BTreeMap<(u8, String), u128> = BTreeMap::new();
                for (t, x) in &old.counted {
                    *per.entry((cfg.first_chan, t.denom())).or_insert(0) += x;
                }
                for (_, t, x) in &old.inflight {
                    *per.entry((cfg.first_chan, t.denom())).or_insert(0) += x;
                }
                for (t, x) in &old.counted_b {
                    *per.entry((cfg.first_chan + 1, t.denom())).or_insert(0) += x;
                }
                for (k, x) in per {
                    if x > 0 {
                        r.credit.insert(k.clone(), x as i128);
                        r.out.insert(k, x);
                    }
                }
                migrated = false;
            }
        }
        if let Some(m) = cfg.wasm_admin {
            w.set_wasm_admin(&ics, Some(&actor(m)));
        }
        driver::normalise_outbox(&mut w);
        let obs = self.observe(&w, None);
        if migrated {
            self.check_state(&r, &obs, &mut v);
        }
        (
            State {
                w,
                r,
                obs: Arc::new(obs),
                faults: 0,
                migrated,
                dead: false,
            },
            v,
        )
    }

    fn actions(&self, s: &State) -> Vec<Act> {
        let cfg = &self.cfg;
        let mut out = vec![];
        if s.dead {
            return out;
        }
        if !s.migrated {
            for l in &cfg.first_migrate {
                out.push(Act::Migrate { limit: *l });
            }
            return out;
        }
        let can_fault = s.faults < cfg.fault_bound;
        let faults = |on: bool| -> Vec<Fault> {
            let mut f = vec![Fault::None];
            if on && can_fault {
                f.extend(cfg.fault_kinds.iter().copied());
            }
            f
        };
        if s.w.outbox.len() < cfg.max_inflight {
            for &u in &cfg.senders {
                for &tok in &cfg.send_toks {
                    let have = s.obs.tbal(&actor(u), &tok);
                    for &amt in &cfg.send_amounts {
                        // the driver closes the system: transfers the payer cannot fund never reach cw20-ics20
                        if amt > have {
                            continue;
                        }
                        for ch in cfg.chans() {
                            for (t, m) in &cfg.variants {
                                out.push(Act::Transfer {
                                    user: u,
                                    tok,
                                    ch,
                                    amt: Amt(amt),
                                    timeout: *t,
                                    memo: m.map(|m| m.to_string()),
                                });
                            }
                        }
                    }
                }
            }
        }
        for ch in cfg.chans() {
            for b in &cfg.proper {
                // a well-prefixed voucher of a local token gets the full amount x receiver x fault
                // product; every other denomination (never redeemable) the reduced one
                let local = matches!(b, Base::Tok(_));
                let amts = if local { &cfg.recv_amounts } else { &cfg.bad_amounts };
                let rcvs = if local { &cfg.receivers } else { &cfg.bad_receivers };
                for &amt in amts {
                    for &to in rcvs {
                        let payable = local && matches!(to, Rcv::User(_));
                        for f in faults(payable) {
                            out.push(Act::Recv {
                                ch,
                                den: Den::Proper(*b),
                                amt: Amt(amt),
                                to,
                                fault: f,
                                memo: None,
                            });
                        }
                        // the same packet carrying a memo (no fault on top: the memo is the variation)
                        if payable {
                            for m in &cfg.recv_memos {
                                out.push(Act::Recv {
                                    ch,
                                    den: Den::Proper(*b),
                                    amt: Amt(amt),
                                    to,
                                    fault: Fault::None,
                                    memo: Some(m.to_string()),
                                });
                            }
                        }
                    }
                }
            }
            for d in &cfg.bad {
                for &amt in &cfg.bad_amounts {
                    for &to in &cfg.bad_receivers {
                        out.push(Act::Recv {
                            ch,
                            den: *d,
                            amt: Amt(amt),
                            to,
                            fault: Fault::None,
                            memo: None,
                        });
                    }
                }
            }
            for &raw in &cfg.raws {
                out.push(Act::RecvRaw { ch, raw });
            }
        }
        for (i, p) in s.w.outbox.iter().enumerate() {
            if i > 0 && s.w.outbox[i - 1] == *p {
                continue; // identical packets are interchangeable
            }
            for &k in &cfg.ack_kinds {
                for f in faults(k == AckKind::Error) {
                    out.push(Act::Ack { pkt: i, kind: k, fault: f });
                }
            }
            if cfg.timeouts {
                for f in faults(true) {
                    out.push(Act::Timeout { pkt: i, fault: f });
                }
            }
        }
        for &by in &cfg.gov_actors {
            for &t in &cfg.allow_tokens {
                for &l in &cfg.allow_limits {
                    out.push(Act::Allow { by, token: t, limit: l });
                }
            }
            for &to in &cfg.admin_targets {
                out.push(Act::UpdateAdmin { by, to });
            }
        }
        for l in &cfg.migrate_limits {
            out.push(Act::Migrate { limit: *l });
        }
        for &u in &cfg.donors {
            for (fu, t, _) in &cfg.funds {
                if *fu == u && t.is_bank() && s.obs.tbal(&actor(u), t) >= 1 {
                    out.push(Act::Donate { user: u, tok: *t, amt: Amt(1) });
                }
            }
        }
        if s.w.height < cfg.hmax {
            out.push(Act::Advance);
        }
        out
    }

    fn step(&self, s: &State, a: &Act) -> Step<State> {
        self.steps.fetch_add(1, std::sync::atomic::Ordering::Relaxed);
        let cfg = &self.cfg;
        let ics = ics();
        let p = &cfg.props;
        let mut v: Vec<Violation> = vec![];
        let mut w = s.w.clone();
        let mut r = s.r.clone();
        let pre: &Obs = &s.obs;
        let lbl = label(a);
        let mut faults = s.faults;
        let mut migrated = s.migrated;
        let denoms = cfg.denoms();
        let ok;
        // which kinds of change this action may legitimately cause (for the generic transition clauses)
        let mut may_move_tokens = false;
        let mut gov_change_ok = false;
        let mut allow_change_ok = false;
        let mut default_change_ok = false;
        let hit = |o: &TxOut| o.dispatched.iter().any(|d| d.err.as_deref().map(|e| e.contains("injected")).unwrap_or(false));

        let post: Obs;
        match a {
            Act::Advance => {
                w.advance(1, DT);
                post = self.observe(&w, Some((&s.w, pre)));
                if post != *pre {
                    v.push(Violation::new("time_changes_state", pre.diff(&post)));
                }
                ok = true;
            }
            Act::Transfer { user, tok, ch, amt, timeout, memo } => {
                may_move_tokens = true;
                let d = tok.denom();
                let out = self.transfer(&mut w, *user, *tok, *ch, amt.0, *timeout, memo);
                driver::normalise_outbox(&mut w);
                post = self.observe(&w, Some((&s.w, pre)));
                ok = out.ok();
                if !ok {
                    if post != *pre {
                        v.push(Violation::new("kernel.refused_call_changed_state", pre.diff(&post)));
                    }
                } else {
                    let rose = post.tbal(&ics, tok).checked_sub(pre.tbal(&ics, tok));
                    let fell = pre.tbal(&actor(*user), tok).checked_sub(post.tbal(&actor(*user), tok));
                    // references follow the accepted call
                    add(&mut r.out, (*ch, d.clone()), amt.0);
                    credit_add(&mut r.credit, (*ch, d.clone()), rose.unwrap_or(0) as i128);
                    if p.c12 {
                        if amt.0 > U64MAX {
                            v.push(Violation::new(
                                "C12.amount_at_most_u64_max",
                                format!("transfer of {} (> 2^64-1) accepted", amt.0),
                            ));
                        }
                        if rose != Some(amt.0) || fell != Some(amt.0) {
                            v.push(Violation::new(
                                "C12.escrow_really_arrived",
                                format!(
                                    "accepted transfer of {} {}: contract holdings changed by {:?}, payer's balance fell by {:?}",
                                    amt.0,
                                    name_denom(&d),
                                    rose,
                                    fell
                                ),
                            ));
                        }
                        let sends: Vec<&mc::Dispatched> = out
                            .committed()
                            .filter(|x| matches!(x.msg, CosmosMsg::Ibc(IbcMsg::SendPacket { .. })))
                            .collect();
                        let others = out
                            .committed()
                            .filter(|x| matches!(x.msg, CosmosMsg::Ibc(_)) && !matches!(x.msg, CosmosMsg::Ibc(IbcMsg::SendPacket { .. })))
                            .count();
                        if sends.len() != 1 || others != 0 || post.pending.len() != pre.pending.len() + 1 {
                            v.push(Violation::new(
                                "C12.exactly_one_packet_per_transfer",
                                format!("accepted transfer emitted {} SendPacket and {} other IBC messages", sends.len(), others),
                            ));
                        }
                        if let Some(x) = sends.first() {
                            if let CosmosMsg::Ibc(IbcMsg::SendPacket { channel_id, data, timeout: to }) = &x.msg {
                                let mut want = serde_json::json!({
                                    "amount": amt.0.to_string(),
                                    "denom": d,
                                    "receiver": REMOTE_RCPT,
                                    "sender": actor(*user),
                                });
                                if let Some(m) = memo {
                                    want["memo"] = serde_json::Value::String(m.clone());
                                }
                                let got: Option<serde_json::Value> = serde_json::from_slice(data.as_slice()).ok();
                                if got.as_ref() != Some(&want) || x.sender != ics {
                                    v.push(Violation::new(
                                        "C12.packet_carries_amount_denom_sender_receiver_memo",
                                        format!(
                                            "packet data {} sent by {}, expected {} sent by ics20",
                                            String::from_utf8_lossy(data.as_slice()),
                                            name_of(&x.sender),
                                            want
                                        ),
                                    ));
                                }
                                if *channel_id != local_chan(*ch) {
                                    v.push(Violation::new(
                                        "C12.packet_on_requested_channel",
                                        format!("packet sent on {channel_id}, requested {}", local_chan(*ch)),
                                    ));
                                }
                                let want_t = Timestamp::from_seconds(s.w.time_s + timeout.unwrap_or(DEFAULT_TIMEOUT));
                                if to.timestamp() != Some(want_t) {
                                    v.push(Violation::new(
                                        "C12.packet_timeout_is_block_time_plus_requested_or_default",
                                        format!(
                                            "timeout {:?}, expected block time {} + {} s",
                                            to.timestamp().map(|t| t.nanos()),
                                            s.w.time_s,
                                            timeout.unwrap_or(DEFAULT_TIMEOUT)
                                        ),
                                    ));
                                }
                            }
                        }
                    }
                    if p.c18 {
                        if let Tok::Cw20(t) = tok {
                            if !r.allow.contains_key(t) && r.default.is_none() {
                                v.push(Violation::new(
                                    "C18.cw20_transfer_needs_listing_or_default",
                                    format!("transfer of T{} accepted: not on the allow list {:?} and no default gas limit", t + 1, r.allow),
                                ));
                            }
                        }
                    }
                }
            }
            Act::Recv { .. } | Act::RecvRaw { .. } => {
                may_move_tokens = true;
                let (ch, data, den, amt, to, fault) = match a {
                    Act::Recv { ch, den, amt, to, fault, memo } => {
                        let pk = Ics20Packet {
                            amount: Uint128::new(amt.0),
                            denom: den.string(*ch),
                            receiver: to.string(),
                            sender: "remote-sender".into(),
                            memo: memo.clone(),
                        };
                        (*ch, to_json_vec(&pk).unwrap(), Some(*den), amt.0, Some(*to), *fault)
                    }
                    Act::RecvRaw { ch, raw } => (*ch, RAWS[*raw as usize].to_vec(), None, 0, None, Fault::None),
                    _ => unreachable!(),
                };
                self.arm(&mut w, fault);
                let out = driver::recv(&mut w, &ics, ch, data);
                self.disarm(&mut w);
                if hit(&out) {
                    faults += 1;
                }
                driver::normalise_outbox(&mut w);
                post = self.observe(&w, Some((&s.w, pre)));
                let class = if out.ok() { classify(out.res.as_ref().unwrap()) } else { AckClass::Neither };
                ok = class == AckClass::Success;
                let base = den.map(|d| voucher_base(&d.string(ch)));
                if !out.ok() && post != *pre {
                    v.push(Violation::new("kernel.refused_call_changed_state", pre.diff(&post)));
                }
                // --- C11: real payouts on this channel, and "bad packets release nothing"
                for d in &denoms {
                    let (b0, b1) = (pre.bal(&ics, d), post.bal(&ics, d));
                    if b1 < b0 {
                        credit_add(&mut r.credit, (ch, d.clone()), -((b0 - b1) as i128));
                    }
                }
                if p.c11 {
                    let redeemable = match den {
                        Some(Den::Proper(Base::Tok(t))) => amt <= pre.chan_bal(ch, &t.denom()),
                        _ => false,
                    };
                    if !redeemable && (post.bank != pre.bank || post.cw20 != pre.cw20) {
                        v.push(Violation::new(
                            "C11.foreign_or_excess_packet_releases_nothing",
                            format!(
                                "packet on {} for {} of denom {:?} (channel balance {}) moved tokens: {}",
                                local_chan(ch),
                                amt,
                                den.map(|d| d.string(ch)),
                                base.as_deref().map(|b| pre.chan_bal(ch, b)).unwrap_or(0),
                                pre.diff(&post)
                            ),
                        ));
                    }
                }
                // --- C12
                match class {
                    AckClass::Success => {
                        let b = base.clone().unwrap_or_default();
                        sub(&mut r.out, (ch, b.clone()), amt);
                        if p.c12 {
                            // only vouchers that carry exactly this channel's counterparty prefix are this
                            // channel's vouchers; anything else redeemed here makes the balance stop tracking them
                            if matches!(
                                den,
                                Some(Den::OtherChannel(_)) | Some(Den::OtherPort(_)) | Some(Den::Foreign(_)) | Some(Den::LocalPrefix(_)) | Some(Den::TwoParts) | None
                            ) {
                                v.push(Violation::new(
                                    "C12.success_ack_only_for_this_channels_vouchers",
                                    format!(
                                        "success acknowledgement on {} (counterparty end {}/{}) for denom {:?}, which does not carry this channel's voucher prefix: {}",
                                        local_chan(ch),
                                        REMOTE_PORT,
                                        remote_chan(ch),
                                        den.map(|d| d.string(ch)),
                                        pre.diff(&post)
                                    ),
                                ));
                            }
                            let paid = match to {
                                Some(Rcv::User(u)) => post.bal(&actor(u), &b).checked_sub(pre.bal(&actor(u), &b)) == Some(amt),
                                _ => false,
                            };
                            if !paid {
                                v.push(Violation::new(
                                    "C12.success_ack_only_if_receiver_paid_in_full",
                                    format!(
                                        "success acknowledgement for {} {} to {:?}, but the receiver's real balance did not rise by that: {}",
                                        amt,
                                        name_denom(&b),
                                        to,
                                        pre.diff(&post)
                                    ),
                                ));
                            }
                            if pre.chan_bal(ch, &b).checked_sub(post.chan_bal(ch, &b)) != Some(amt) {
                                v.push(Violation::new(
                                    "C12.success_ack_only_if_balance_reduced",
                                    format!(
                                        "success acknowledgement for {} {}: channel balance {} -> {}",
                                        amt,
                                        name_denom(&b),
                                        pre.chan_bal(ch, &b),
                                        post.chan_bal(ch, &b)
                                    ),
                                ));
                            }
                        }
                    }
                    AckClass::Error => {
                        if p.c12 && post != *pre {
                            v.push(Violation::new(
                                "C12.error_ack_changes_nothing",
                                format!("error acknowledgement, but the observable world changed: {}", pre.diff(&post)),
                            ));
                        }
                    }
                    AckClass::Neither => {}
                }
                if p.c12 && !out.ok() {
                    v.push(Violation::new(
                        "C12.handling_a_packet_never_aborts",
                        format!("ibc_packet_receive failed: {}", out.err()),
                    ));
                }
                if p.c18 {
                    self.check_gas(&s.r, &out, &mut v);
                    if let (Some(Den::Proper(Base::Tok(Tok::Cw20(_)))), Some(b)) = (den, base.as_deref()) {
                        self.check_redeemable(&s.r, pre, ch, b, amt, "incoming voucher", &out, &mut v);
                    }
                }
            }
            Act::Ack { .. } | Act::Timeout { .. } => {
                may_move_tokens = true;
                let (idx, kind, fault) = match a {
                    Act::Ack { pkt, kind, fault } => (*pkt, Some(*kind), *fault),
                    Act::Timeout { pkt, fault } => (*pkt, None, *fault),
                    _ => unreachable!(),
                };
                if idx >= w.outbox.len() {
                    return Step {
                        next: s.clone(),
                        label: lbl,
                        ok: false,
                        violations: vec![],
                    };
                }
                let pkt = w.outbox[idx].clone();
                let ch = driver::chan_index(&pkt.channel_id).unwrap_or(0);
                let body: Option<Ics20Packet> = from_json(&pkt.data).ok();
                self.arm(&mut w, fault);
                let out = match kind {
                    Some(k) => driver::ack(&mut w, &ics, idx, k.bytes()),
                    None => driver::timeout(&mut w, &ics, idx),
                };
                self.disarm(&mut w);
                if hit(&out) {
                    faults += 1;
                }
                driver::normalise_outbox(&mut w);
                post = self.observe(&w, Some((&s.w, pre)));
                ok = out.ok();
                // C12: handling a packet never aborts — a timeout / error ack for a send that the channel
                // balance still covers, of a native coin or of a cw20 that the reference says is listed or
                // covered by a default, has to be processed (one-directional: nothing is demanded when the
                // balance was already redeemed away or the token is neither listed nor under a default)
                if p.c12 && !ok && matches!(kind, None | Some(AckKind::Error)) {
                    if let Some(b) = &body {
                        let covered = match b.denom.strip_prefix("cw20:") {
                            None => true,
                            Some(addr) => match (0..cfg.tokens).find(|t| tok_addr(*t) == addr) {
                                Some(t) => s.r.allow.contains_key(&t) || s.r.default.is_some(),
                                None => false,
                            },
                        };
                        if covered && b.amount.u128() <= pre.chan_bal(ch, &b.denom) {
                            v.push(Violation::new(
                                "C12.handling_a_packet_never_aborts",
                                format!(
                                    "{} for a send of {} {} on {} (channel balance {}, allow list {:?}, default {:?}) aborted: {}",
                                    if kind.is_none() { "ibc_packet_timeout" } else { "ibc_packet_ack(error)" },
                                    b.amount,
                                    name_denom(&b.denom),
                                    local_chan(ch),
                                    pre.chan_bal(ch, &b.denom),
                                    s.r.allow,
                                    s.r.default,
                                    out.err()
                                ),
                            ));
                        }
                    }
                }
                if p.c18 && matches!(kind, None | Some(AckKind::Error)) {
                    if let Some(b) = &body {
                        self.check_redeemable(&s.r, pre, ch, &b.denom, b.amount.u128(), "refund (error ack / timeout)", &out, &mut v);
                    }
                }
                if !ok {
                    if post != *pre {
                        v.push(Violation::new("kernel.refused_call_changed_state", pre.diff(&post)));
                    }
                } else {
                    let failure = matches!(kind, None | Some(AckKind::Error));
                    if failure {
                        if let Some(b) = &body {
                            sub(&mut r.out, (ch, b.denom.clone()), b.amount.u128());
                        }
                    }
                    for d in &denoms {
                        let (b0, b1) = (pre.bal(&ics, d), post.bal(&ics, d));
                        if b1 < b0 {
                            credit_add(&mut r.credit, (ch, d.clone()), -((b0 - b1) as i128));
                        }
                    }
                    if p.c18 {
                        self.check_gas(&s.r, &out, &mut v);
                    }
                }
            }
            Act::Donate { user, tok, amt } => {
                // holdings rise without any escrow: nothing is credited to any channel
                may_move_tokens = true;
                let r0 = w.bank_send(&actor(*user), &ics, &[coin(amt.0, tok.denom())]);
                post = self.observe(&w, Some((&s.w, pre)));
                ok = r0.is_ok();
                if post.chans != pre.chans {
                    v.push(Violation::new("kernel.bank_send_changed_contract_state", pre.diff(&post)));
                }
            }
            Act::Allow { by, token, limit } => {
                let out = w.execute_json(
                    &actor(*by),
                    &ics,
                    &ExecuteMsg::Allow(AllowMsg {
                        contract: tok_addr(*token),
                        gas_limit: *limit,
                    }),
                    &[],
                );
                post = self.observe(&w, Some((&s.w, pre)));
                ok = out.ok();
                if !ok {
                    if post != *pre {
                        v.push(Violation::new("kernel.refused_call_changed_state", pre.diff(&post)));
                    }
                } else {
                    if p.c18 {
                        if *by != r.gov {
                            v.push(Violation::new(
                                "C18.allow_only_by_governance",
                                format!("Allow by {} accepted, governance is {}", ACTORS[*by as usize], gov_name(r.gov)),
                            ));
                        } else {
                            allow_change_ok = true;
                        }
                        if let Some(old) = r.allow.get(token) {
                            match (old, limit) {
                                (None, Some(n)) => v.push(Violation::new(
                                    "C18.unlimited_stays_unlimited",
                                    format!("T{} was unlimited, Allow with limit {n} accepted", token + 1),
                                )),
                                (Some(o), Some(n)) if n < o => v.push(Violation::new(
                                    "C18.limit_never_lowered",
                                    format!("T{} limit {o} lowered to {n}", token + 1),
                                )),
                                _ => {}
                            }
                        }
                    }
                    r.allow.insert(*token, *limit);
                }
            }
            Act::UpdateAdmin { by, to } => {
                let out = w.execute_json(&actor(*by), &ics, &ExecuteMsg::UpdateAdmin { admin: admin_string(*to) }, &[]);
                post = self.observe(&w, Some((&s.w, pre)));
                ok = out.ok();
                if !ok {
                    if post != *pre {
                        v.push(Violation::new("kernel.refused_call_changed_state", pre.diff(&post)));
                    }
                } else {
                    if p.c18 {
                        if *by != r.gov {
                            v.push(Violation::new(
                                "C18.update_admin_only_by_governance",
                                format!("UpdateAdmin by {} accepted, governance is {}", ACTORS[*by as usize], gov_name(r.gov)),
                            ));
                        } else {
                            gov_change_ok = true;
                        }
                    }
                    r.gov = if (*to as usize) < ACTORS.len() { *to } else { NOBODY };
                }
            }
            Act::Migrate { limit } => {
                let msg = serde_json::json!({ "default_gas_limit": limit });
                let out = w.migrate(&ics, msg.to_string().as_bytes());
                post = self.observe(&w, Some((&s.w, pre)));
                ok = out.ok();
                if !ok {
                    if post != *pre {
                        v.push(Violation::new("kernel.refused_call_changed_state", pre.diff(&post)));
                    }
                    if !s.migrated && p.c12 && !cfg.old.as_ref().map(|o| o.may_refuse).unwrap_or(false) {
                        v.push(Violation::new(
                            "C12.supported_upgrade_path_migrates",
                            format!("migration from {:?} refused: {}", cfg.old.as_ref().map(|o| o.version), out.err()),
                        ));
                    }
                } else {
                    default_change_ok = limit.is_some();
                    if let Some(l) = limit {
                        r.default = Some(*l);
                    }
                    if s.migrated {
                        // same-version migrate: books and balances untouched
                        if p.c12 && (post.chans != pre.chans || post.bank != pre.bank || post.cw20 != pre.cw20) {
                            v.push(Violation::new("C12.migrate_keeps_books", pre.diff(&post)));
                        }
                    } else {
                        migrated = true;
                        if post.bank != pre.bank || post.cw20 != pre.cw20 {
                            v.push(Violation::new("C12.migrate_moves_no_tokens", pre.diff(&post)));
                        }
                    }
                }
            }
        }

        // ---- generic transition clauses (pre vs. post), only between two current-layout states
        if s.migrated && migrated {
            if p.c12 || p.c11 {
                for ch in cfg.chans() {
                    if let (Some(Some(c0)), Some(Some(c1))) = (pre.chans.get(&ch), post.chans.get(&ch)) {
                        for (d, t0) in &c0.total {
                            let t1 = c1.total.get(d).copied().unwrap_or(0);
                            if t1 < *t0 {
                                v.push(Violation::new(
                                    "C12.total_sent_never_falls",
                                    format!("Channel{{{}}} total_sent of {} fell {t0} -> {t1}", local_chan(ch), name_denom(d)),
                                ));
                            }
                        }
                    }
                }
            }
            if p.c11 && !may_move_tokens {
                for d in &denoms {
                    if post.bal(&ics, d) != pre.bal(&ics, d) {
                        v.push(Violation::new(
                            "C11.holdings_move_only_by_transfers_and_packets",
                            format!("{a:?} changed the contract's holdings of {}", name_denom(d)),
                        ));
                    }
                }
            }
            if p.c18 {
                if post.admin != pre.admin && !gov_change_ok {
                    v.push(Violation::new(
                        "C18.governance_handed_over_only_by_governance",
                        format!("{a:?}: admin {:?} -> {:?}", pre.admin.as_deref().map(name_of), post.admin.as_deref().map(name_of)),
                    ));
                }
                if (post.listed != pre.listed || post.allowed != pre.allowed) && !allow_change_ok {
                    v.push(Violation::new(
                        "C18.allow_list_changes_only_by_governance",
                        format!("{a:?}: allow list {:?} -> {:?}", short_list(&pre.listed), short_list(&post.listed)),
                    ));
                }
                for (c, l0) in &pre.listed {
                    match post.listed.iter().find(|(c1, _)| c1 == c) {
                        None => v.push(Violation::new(
                            "C18.allowed_token_never_removed",
                            format!("{a:?}: {} left the allow list", name_of(c)),
                        )),
                        Some((_, l1)) => {
                            let lowered = match (l0, l1) {
                                (None, Some(_)) => true,
                                (Some(x), Some(y)) => y < x,
                                _ => false,
                            };
                            if lowered {
                                v.push(Violation::new(
                                    "C18.gas_limit_never_lowered",
                                    format!("{a:?}: limit of {} went {:?} -> {:?}", name_of(c), l0, l1),
                                ));
                            }
                        }
                    }
                }
                let (d0, d1) = (pre.config.as_ref().map(|c| c.1), post.config.as_ref().map(|c| c.1));
                if d0 != d1 && !default_change_ok {
                    v.push(Violation::new(
                        "C18.default_gas_limit_changes_only_by_migrate_setting_it",
                        format!("{a:?}: default gas limit {:?} -> {:?}", d0, d1),
                    ));
                }
            }
        }
        if migrated {
            // an error acknowledgement that changed the books is reported once, by its own clause:
            // the reference comparison of the same step would only repeat the same observation
            let mut sv = vec![];
            self.check_state(&r, &post, &mut sv);
            if v.iter().any(|x| x.clause == "C12.error_ack_changes_nothing") {
                sv.retain(|x| x.clause != "C12.outstanding_eq_sent_minus_failed_minus_redeemed");
            }
            v.extend(sv);
        }
        Step {
            next: State {
                w,
                r,
                obs: Arc::new(post),
                faults,
                migrated,
                dead: false,
            },
            label: lbl,
            ok,
            violations: v,
        }
    }

    fn fingerprint(&self, s: &State) -> u128 {
        fp128(&Key { s, cfg: &self.cfg })
    }
}

