mod driver;
mod model;
use mc::report::{load_replay, run_replay};
use mc::{Bounds, Known, Report, RunStats};
use model::*;

fn bad_dens(t: Tok) -> Vec<Den> {
    vec![
        Den::OtherChannel(Base::Tok(t)),
        Den::OtherPort(Base::Tok(t)),
        Den::Foreign(Base::Tok(t)),
        Den::LocalPrefix(Base::Tok(t)),
        Den::Nested(Base::Tok(t)),
        Den::TwoParts,
        Den::Suffixed(Base::Tok(t)),
        Den::TrailingSlash(Base::Tok(t)),
    ]
}

const N0: Tok = Tok::Native(0);
/// "ustake" (sorts after "ucosm")
const N1: Tok = Tok::Native(1);
/// "uusd" and "uusd/vault-7": a bank denom that contains a '/' and whose first segment is another denom
const N2: Tok = Tok::Native(2);
const N3: Tok = Tok::Native(3);
/// "UCOSM": differs from "ucosm" in letter case only
const N4: Tok = Tok::Native(4);
const T1: Tok = Tok::Cw20(0);
const T2: Tok = Tok::Cw20(1);

/// size parameters of a closed configuration
#[derive(Clone, Copy)]
struct Sz {
    /// tokens of user A / user B
    a: u128,
    b: u128,
    /// injected faults per history
    faults: u8,
    /// packets in flight
    inflight: usize,
    /// richer alphabets for packets that must be refused anyway (thorough tier)
    rich: bool,
}
const QUICK: Sz = Sz { a: 2, b: 1, faults: 1, inflight: 2, rich: false };
/// thorough, variant 1: two faults per history
const DEEP: Sz = Sz { a: 2, b: 1, faults: 2, inflight: 2, rich: true };
/// thorough, variant 2: more funds, three packets in flight
const WIDE: Sz = Sz { a: 3, b: 1, faults: 1, inflight: 3, rich: true };
/// thorough, variant 2 for cw20 (every payout is a contract call: costlier per transition)
const WIDE2: Sz = Sz { a: 3, b: 1, faults: 1, inflight: 2, rich: true };

fn apply_size(c: &mut Cfg, t: Tok, sz: Sz) {
    c.funds = vec![(A, t, sz.a), (B, t, sz.b)];
    c.senders = vec![A, B];
    c.send_toks = vec![t];
    c.send_amounts = (1..=sz.a).collect();
    c.recv_memos = vec!["x"];
    c.fault_bound = sz.faults;
    c.max_inflight = sz.inflight;
    if sz.rich {
        c.bad_amounts = vec![1, 3, U64MAX + 1];
        c.bad_receivers = vec![Rcv::User(B), Rcv::Invalid];
        c.receivers = vec![Rcv::User(B), Rcv::User(A), Rcv::Invalid];
        c.raws = vec![0, 1, 2, 3];
    }
}

/// the same configuration on the crossed channel-id scheme: the counterparty end of local
/// channel-5 is called channel-15 and that of local channel-15 is called channel-5
fn crossed(mut c: Cfg) -> Cfg {
    c.first_chan = 2;
    c
}

/// the same configuration with prefix-related counterparty channel ids: local channel-31 <-> remote
/// channel-7, local channel-32 <-> remote channel-70
fn prefixed(mut c: Cfg) -> Cfg {
    c.first_chan = 4;
    c
}

/// one native token, two channels
fn native_cfg(name: &str, sz: Sz) -> Cfg {
    let mut c = Cfg::base(name);
    c.proper = vec![Base::Tok(N0), Base::Unknown];
    c.bad = bad_dens(N0);
    c.fault_kinds = vec![Fault::Reject];
    apply_size(&mut c, N0, sz);
    c
}

/// one cw20 token on the allow list (with or without limit), two channels
fn cw20_cfg(name: &str, limit: Option<u64>, sz: Sz) -> Cfg {
    let mut c = Cfg::base(name);
    c.tokens = 1;
    c.allow_init = vec![(0, limit)];
    c.proper = vec![Base::Tok(T1), Base::Unknown, Base::BadCw20, Base::Cw20NoContract];
    c.bad = bad_dens(T1);
    c.fault_kinds = if limit.is_some() { vec![Fault::Reject, Fault::Gas] } else { vec![Fault::Reject] };
    apply_size(&mut c, T1, sz);
    c
}

/// two cw20 tokens: T1 listed, T2 admitted by the default gas limit only
fn default_cfg(name: &str, thorough: bool) -> Cfg {
    let mut c = Cfg::base(name);
    c.tokens = 2;
    c.allow_init = vec![(0, Some(1))];
    c.default_gas = Some(2);
    c.funds = vec![(A, T1, 1), (A, T2, 2)];
    c.senders = vec![A];
    c.send_toks = vec![T1, T2];
    c.proper = vec![Base::Tok(T1), Base::Tok(T2)];
    c.bad = vec![Den::OtherChannel(Base::Tok(T2)), Den::Foreign(Base::Tok(T2)), Den::Suffixed(Base::Tok(T2))];
    c.recv_amounts = vec![1, 2, 3];
    c.fault_bound = 1;
    c.fault_kinds = vec![Fault::Reject, Fault::Gas];
    c.raws = vec![0];
    // Migrate{None} at every state: it must not unset the default that covers T2
    c.migrate_limits = vec![None];
    if thorough {
        c.funds = vec![(A, T1, 1), (A, T2, 2), (B, T2, 1)];
        c.senders = vec![A, B];
        c.receivers = vec![Rcv::User(B), Rcv::User(A), Rcv::Invalid];
    }
    c
}

/// native + cw20 together
fn pair_cfg(name: &str, thorough: bool) -> Cfg {
    let mut c = Cfg::base(name);
    c.tokens = 1;
    c.allow_init = vec![(0, Some(1))];
    c.funds = vec![(A, N0, 1), (A, T1, 1), (B, N0, 1)];
    c.senders = vec![A, B];
    c.send_toks = vec![N0, T1];
    c.send_amounts = vec![1];
    c.proper = vec![Base::Tok(N0), Base::Tok(T1), Base::Unknown];
    c.bad = vec![
        Den::OtherChannel(Base::Tok(N0)),
        Den::OtherChannel(Base::Tok(T1)),
        Den::Foreign(Base::Tok(N0)),
        Den::OtherPort(Base::Tok(T1)),
        Den::Suffixed(Base::Tok(N0)),
    ];
    c.recv_amounts = vec![1, 2];
    c.fault_bound = 1;
    c.fault_kinds = vec![Fault::Reject, Fault::Gas];
    c.raws = vec![0];
    if thorough {
        c.funds = vec![(A, N0, 2), (A, T1, 1), (B, N0, 1)];
        c.send_amounts = vec![1, 2];
        c.recv_amounts = vec![1, 2, 3];
    }
    c
}

/// storage in the 0.11.1 / 0.12.0-alpha1 layout with a cw20 token outstanding, migrated by the first action
fn v1_cfg(name: &str, version: &'static str, thorough: bool) -> Cfg {
    let mut c = Cfg::base(name);
    c.channels = 1;
    c.tokens = 1;
    c.old = Some(Old {
        version,
        v1: true,
        counted: vec![(T1, 2)],
        // a send still in flight at migration time: escrowed, but not yet counted by the old logic
        inflight: vec![(A, T1, 1)],
        counted_b: vec![],
        drained: vec![],
        may_refuse: false,
    });
    c.first_migrate = vec![None, Some(2)];
    c.funds = vec![(A, T1, 1), (B, T1, 1)];
    c.senders = vec![A];
    c.send_toks = vec![T1];
    c.send_amounts = vec![1];
    c.proper = vec![Base::Tok(T1), Base::Unknown];
    c.bad = vec![Den::Foreign(Base::Tok(T1)), Den::OtherPort(Base::Tok(T1))];
    c.recv_amounts = vec![1, 2, 3];
    c.fault_bound = 1;
    c.fault_kinds = vec![Fault::Reject, Fault::Gas];
    c.gov_actors = vec![G];
    c.allow_tokens = vec![0];
    c.allow_limits = vec![None, Some(1)];
    c.raws = vec![0];
    if thorough {
        c.old.as_mut().unwrap().inflight = vec![(A, T1, 1)];
        c.old.as_mut().unwrap().counted = vec![(T1, 2), (N0, 1)];
        c.funds = vec![(A, T1, 1), (B, T1, 1), (A, N0, 1)];
        c.send_toks = vec![T1, N0];
        c.proper = vec![Base::Tok(T1), Base::Tok(N0), Base::Unknown];
        c.first_migrate = vec![None, Some(2)];
        c.migrate_limits = vec![None, Some(3)];
    }
    c
}

/// storage of version 0.13.0: balances counted at acknowledgement, sends in flight not yet counted
fn v2_cfg(name: &str, thorough: bool) -> Cfg {
    let mut c = Cfg::base(name);
    c.channels = 1;
    c.tokens = 1;
    c.allow_init = vec![(0, Some(1))];
    c.old = Some(Old {
        version: "0.13.0",
        v1: false,
        counted: vec![(N0, 1), (T1, 1)],
        inflight: vec![(A, N0, 1), (A, T1, 1)],
        counted_b: vec![],
        drained: vec![],
        may_refuse: false,
    });
    c.first_migrate = vec![None, Some(2)];
    c.funds = vec![(A, N0, 1), (A, T1, 1)];
    c.senders = vec![A];
    c.send_toks = vec![N0, T1];
    c.send_amounts = vec![1];
    c.proper = vec![Base::Tok(N0), Base::Tok(T1)];
    c.bad = vec![Den::Foreign(Base::Tok(N0))];
    c.recv_amounts = vec![1, 2, 3];
    c.max_inflight = 3;
    c.fault_bound = 1;
    c.fault_kinds = vec![Fault::Reject, Fault::Gas];
    c.raws = vec![0];
    if thorough {
        c.fault_bound = 2;
        c.migrate_limits = vec![None, Some(3)];
    }
    c
}

/// storage of version 0.13.0 (one channel, ucosm counted), migrated with or without a default gas
/// limit; afterwards a user may send coins straight to the contract's account (stray funds) and
/// migrate may be called again: stray coins must never become redeemable channel balance
fn stray_cfg(name: &str) -> Cfg {
    let mut c = Cfg::base(name);
    c.channels = 1;
    c.old = Some(Old {
        version: "0.13.0",
        v1: false,
        counted: vec![(N0, 1)],
        inflight: vec![],
        counted_b: vec![],
        drained: vec![],
        may_refuse: false,
    });
    c.first_migrate = vec![None, Some(2)];
    c.migrate_limits = vec![None, Some(3)];
    c.funds = vec![(A, N0, 1), (X, N0, 1)];
    c.senders = vec![A];
    c.donors = vec![X];
    c.send_toks = vec![N0];
    c.send_amounts = vec![1];
    c.proper = vec![Base::Tok(N0)];
    c.bad = vec![Den::Foreign(Base::Tok(N0))];
    c.recv_amounts = vec![1, 2, 3];
    c.fault_bound = 1;
    c.fault_kinds = vec![Fault::Reject];
    c.raws = vec![0];
    c
}

/// a contract in the CURRENT layout whose cw2 record still names an earlier release with that same
/// layout (0.13.1 .. 0.15.x): a user escrows, a stranger sends stray coins straight to the contract,
/// and Migrate runs at every state. The books must not move (seeded C12_r11_2: the 0.13.0
/// reconciliation applied to a 0.13.1 store turned stray coins into channel balance).
fn restamped_cfg(name: &str, ver: &'static str) -> Cfg {
    let mut c = Cfg::base(name);
    c.channels = 1;
    c.restamp = Some(ver);
    c.migrate_limits = vec![None, Some(3)];
    c.funds = vec![(A, N0, 1), (X, N0, 1)];
    c.senders = vec![A];
    c.donors = vec![X];
    c.send_toks = vec![N0];
    c.send_amounts = vec![1];
    c.proper = vec![Base::Tok(N0)];
    c.bad = vec![Den::Foreign(Base::Tok(N0))];
    c.recv_amounts = vec![1, 2];
    c.fault_bound = 0;
    c.raws = vec![0];
    c
}

/// storage of version 0.13.0 with TWO channels that both carry the same denominations. The real
/// migration refuses it ("multiple channels open"), which is fine; if a migration accepts it, the
/// books it leaves behind must still be covered channel by channel.
fn v2_two_channels_cfg(name: &str) -> Cfg {
    let mut c = Cfg::base(name);
    c.channels = 2;
    c.tokens = 1;
    c.allow_init = vec![(0, Some(1))];
    c.old = Some(Old {
        version: "0.13.0",
        v1: false,
        counted: vec![(N0, 2), (T1, 1)],
        inflight: vec![],
        counted_b: vec![(N0, 1), (T1, 1)],
        drained: vec![],
        may_refuse: true,
    });
    c.first_migrate = vec![None, Some(2)];
    c.funds = vec![(A, N0, 1)];
    c.senders = vec![A];
    c.send_toks = vec![N0];
    c.send_amounts = vec![1];
    c.proper = vec![Base::Tok(N0), Base::Tok(T1)];
    c.bad = vec![Den::OtherChannel(Base::Tok(N0))];
    c.recv_amounts = vec![1, 2, 3];
    c.fault_bound = 1;
    c.fault_kinds = vec![Fault::Reject, Fault::Gas];
    c.raws = vec![0];
    c
}

/// 0.13.0-stamped (or v1) storage whose ucosm entry exists with outstanding 0 (2 sent, 2 redeemed back)
/// while one more ucosm send is still in flight
fn drained_cfg(name: &str, version: &'static str, v1: bool) -> Cfg {
    let mut c = Cfg::base(name);
    c.channels = 1;
    c.old = Some(Old {
        version,
        v1,
        counted: vec![],
        inflight: vec![(A, N0, 1)],
        counted_b: vec![],
        drained: vec![(N0, 2)],
        may_refuse: false,
    });
    c.first_migrate = vec![None, Some(2)];
    c.funds = vec![(A, N0, 1)];
    c.senders = vec![A];
    c.send_toks = vec![N0];
    c.send_amounts = vec![1];
    c.proper = vec![Base::Tok(N0)];
    c.bad = vec![Den::Foreign(Base::Tok(N0))];
    c.recv_amounts = vec![1, 2];
    c.fault_bound = 1;
    c.fault_kinds = vec![Fault::Reject];
    c.raws = vec![0];
    c
}

/// 0.13.0-stamped storage with two native denoms: the ucosm record is fully drained (outstanding 0 and
/// the contract holds no ucosm at all, so the bank omits it) and sorts before ustake, which is held
fn drained_next_to_held_cfg(name: &str) -> Cfg {
    let mut c = Cfg::base(name);
    c.channels = 1;
    c.old = Some(Old {
        version: "0.13.0",
        v1: false,
        counted: vec![(N1, 1)],
        inflight: vec![],
        counted_b: vec![],
        drained: vec![(N0, 2)],
        may_refuse: false,
    });
    c.first_migrate = vec![None, Some(2)];
    c.funds = vec![(A, N0, 1), (A, N1, 1)];
    c.senders = vec![A];
    c.send_toks = vec![N0, N1];
    c.send_amounts = vec![1];
    c.proper = vec![Base::Tok(N0), Base::Tok(N1)];
    c.bad = vec![Den::Foreign(Base::Tok(N0))];
    c.recv_amounts = vec![1, 2];
    c.fault_bound = 1;
    c.fault_kinds = vec![Fault::Reject];
    c.raws = vec![0];
    c
}

/// two native denoms that differ in letter case only, on two channels
fn case_pair_cfg(name: &str) -> Cfg {
    let mut c = Cfg::base(name);
    c.channels = 2;
    c.funds = vec![(A, N0, 1), (A, N4, 1)];
    c.senders = vec![A];
    c.send_toks = vec![N0, N4];
    c.send_amounts = vec![1];
    c.proper = vec![Base::Tok(N0), Base::Tok(N4)];
    c.recv_amounts = vec![1, 2];
    c.bad = vec![Den::OtherChannel(Base::Tok(N4))];
    c.raws = vec![0];
    c.fault_bound = 1;
    c.fault_kinds = vec![Fault::Reject];
    c
}

/// two channels escrowing the same denomination in amounts at the u64 boundary
fn u64_two_channels_cfg(name: &str) -> Cfg {
    let mut c = Cfg::base(name);
    c.channels = 2;
    c.funds = vec![(A, N0, 2 * U64MAX)];
    c.senders = vec![A];
    c.send_toks = vec![N0];
    // no small amounts here: with 2^65 tokens they would make the space astronomically large
    c.send_amounts = vec![U64MAX];
    c.proper = vec![Base::Tok(N0)];
    c.recv_amounts = vec![U64MAX, U64MAX + 1, 2 * U64MAX];
    c.receivers = vec![Rcv::User(B)];
    c.bad = vec![];
    c.bad_amounts = vec![];
    c.raws = vec![];
    c
}

fn configs(prop: &str, thorough: bool) -> Vec<(Cfg, Option<usize>)> {
    let mut out: Vec<(Cfg, Option<usize>)> = vec![];
    match prop {
        "C11" => {
            let p = Props { c11: true, ..Default::default() };
            let mut v = vec![];
            if !thorough {
                v.push(native_cfg("C11/native/2ch", QUICK));
                v.push(cw20_cfg("C11/cw20-listed-limit1/2ch", Some(1), QUICK));
                v.push(default_cfg("C11/cw20-T2-under-default-limit/2ch", false));
                v.push(pair_cfg("C11/native+cw20/2ch", false));
                v.push(crossed(native_cfg("C11/native/2ch-crossed-ids", QUICK)));
                v.push(prefixed(native_cfg("C11/native/2ch-prefix-related-remote-ids", QUICK)));
                v.push(v2_cfg("C11/upgrade/v2-0.13.0-inflight", false));
            } else {
                v.push(crossed(native_cfg("C11/native/2ch-crossed-ids/faults2", DEEP)));
                v.push(prefixed(native_cfg("C11/native/2ch-prefix-related-remote-ids", QUICK)));
                v.push(crossed(cw20_cfg("C11/cw20-listed-limit1/2ch-crossed-ids/faults2", Some(1), DEEP)));
                v.push(native_cfg("C11/native/2ch/faults2", DEEP));
                v.push(native_cfg("C11/native/2ch/funds4-inflight3", WIDE));
                v.push(cw20_cfg("C11/cw20-listed-limit1/2ch/faults2", Some(1), DEEP));
                v.push(cw20_cfg("C11/cw20-listed-limit1/2ch/funds4", Some(1), WIDE2));
                v.push(cw20_cfg("C11/cw20-listed-unlimited/2ch/faults2", None, DEEP));
                v.push(default_cfg("C11/cw20-T2-under-default-limit/2ch", true));
                v.push(pair_cfg("C11/native+cw20/2ch", true));
                v.push(v1_cfg("C11/upgrade/v1-0.11.1", "0.11.1", true));
                v.push(v2_cfg("C11/upgrade/v2-0.13.0-inflight", true));
            }
            v.push(v2_two_channels_cfg("C11/upgrade/v2-0.13.0-two-channels-same-denoms"));
            v.push(drained_cfg("C11/upgrade/v2-0.13.0-drained-denom-with-send-in-flight", "0.13.0", false));
            v.push(stray_cfg("C11/upgrade/v2-0.13.0-stray-funds-and-second-migrate"));
            v.push(restamped_cfg("C11/upgrade/current-layout-stamped-0.13.1-stray-funds", "0.13.1"));
            v.push(drained_next_to_held_cfg("C11/upgrade/v2-0.13.0-drained-denom-next-to-held-denom"));
            v.push(u64_two_channels_cfg("C11/edge/u64-boundary/2ch-same-denom"));
            v.push(case_pair_cfg("C11/native/2ch-denoms-differing-in-case"));
            for mut c in v {
                c.props = p.clone();
                out.push((c, None));
            }
        }
        "C12" => {
            let p = Props { c12: true, ..Default::default() };
            let mut v = vec![];
            // governance configurations × fresh instantiation
            if !thorough {
                v.push(native_cfg("C12/fresh/native/no-allowlist-no-default", QUICK));
                v.push(cw20_cfg("C12/fresh/cw20/listed-limit1", Some(1), QUICK));
                v.push(default_cfg("C12/fresh/cw20/T1-listed+T2-under-default", false));
                v.push(pair_cfg("C12/fresh/native+cw20", false));
                v.push(cw20_cfg("C12/fresh/cw20/listed-unlimited-no-default", None, QUICK));
                v.push(crossed(native_cfg("C12/fresh/native/crossed-channel-ids", QUICK)));
                v.push(prefixed(native_cfg("C12/fresh/native/prefix-related-remote-channel-ids", QUICK)));
            } else {
                v.push(crossed(native_cfg("C12/fresh/native/crossed-channel-ids/faults2", DEEP)));
                v.push(prefixed(native_cfg("C12/fresh/native/prefix-related-remote-channel-ids", QUICK)));
                v.push(crossed(cw20_cfg("C12/fresh/cw20/listed-limit1/crossed-channel-ids/faults2", Some(1), DEEP)));
                v.push(native_cfg("C12/fresh/native/no-allowlist-no-default/faults2", DEEP));
                v.push(native_cfg("C12/fresh/native/no-allowlist-no-default/funds4-inflight3", WIDE));
                v.push(cw20_cfg("C12/fresh/cw20/listed-limit1/faults2", Some(1), DEEP));
                v.push(cw20_cfg("C12/fresh/cw20/listed-limit1/funds4", Some(1), WIDE2));
                v.push(cw20_cfg("C12/fresh/cw20/listed-unlimited/faults2", None, DEEP));
                v.push(default_cfg("C12/fresh/cw20/T1-listed+T2-under-default", true));
                v.push(pair_cfg("C12/fresh/native+cw20", true));
            }
            {
                // cw20 refused: not listed, no default; governance may list it later
                let mut c = cw20_cfg("C12/fresh/cw20/unlisted-then-allowed", Some(1), QUICK);
                c.allow_init = vec![];
                c.gov_actors = vec![G];
                c.allow_tokens = vec![0];
                c.allow_limits = vec![Some(1)];
                c.channels = 1;
                // ... and a user holds a BANK coin whose denom is spelled "cw20:<T1>"
                c.funds.push((A, Tok::BankNamedLikeCw20(0), 1));
                c.send_toks.push(Tok::BankNamedLikeCw20(0));
                v.push(c);
            }
            // upgrade paths
            v.push(case_pair_cfg("C12/fresh/native/denoms-differing-in-case"));
            v.push(v1_cfg("C12/upgrade/v1-0.11.1", "0.11.1", thorough));
            v.push(v1_cfg("C12/upgrade/v1-0.12.0-alpha1", "0.12.0-alpha1", thorough));
            v.push(v2_cfg("C12/upgrade/v2-0.13.0-inflight", thorough));
            v.push(v2_two_channels_cfg("C12/upgrade/v2-0.13.0-two-channels-same-denoms"));
            v.push(drained_cfg("C12/upgrade/v2-0.13.0-drained-denom-with-send-in-flight", "0.13.0", false));
            v.push(stray_cfg("C12/upgrade/v2-0.13.0-stray-funds-and-second-migrate"));
            for ver in if thorough { vec!["0.13.1", "0.13.2", "0.14.0", "0.15.1"] } else { vec!["0.13.1", "0.14.0"] } {
                v.push(restamped_cfg(&format!("C12/upgrade/current-layout-stamped-{ver}-stray-funds"), ver));
            }
            v.push(drained_next_to_held_cfg("C12/upgrade/v2-0.13.0-drained-denom-next-to-held-denom"));
            v.push(drained_cfg("C12/upgrade/v1-0.11.1-drained-denom-with-send-in-flight", "0.11.1", true));
            {
                // same-version migrate at every reachable state
                let mut c = cw20_cfg("C12/same-version-migrate-everywhere", Some(1), QUICK);
                c.channels = 1;
                c.migrate_limits = vec![None, Some(2)];
                c.fault_bound = if thorough { 1 } else { 0 };
                v.push(c);
            }
            {
                // packet fields: requested / default timeout at two block times, memo, both token kinds
                let mut c = Cfg::base("C12/packet-fields/timeout+memo+clock");
                c.channels = if thorough { 2 } else { 1 };
                c.tokens = 1;
                c.allow_init = vec![(0, None)];
                c.funds = vec![(A, N0, 1), (A, T1, 1), (B, N0, 1)];
                c.senders = vec![A, B];
                c.send_toks = vec![N0, T1];
                c.send_amounts = vec![1];
                c.variants = vec![(None, None), (Some(7), Some("m")), (Some(0), None), (None, Some(""))];
                c.proper = vec![Base::Tok(N0), Base::Tok(T1)];
                c.recv_amounts = vec![1];
                c.receivers = vec![Rcv::User(B)];
                c.raws = vec![];
                c.ack_kinds = vec![AckKind::Error];
                c.timeouts = true;
                c.hmax = H0 + 1;
                v.push(c);
            }
            {
                // a bank denom that itself contains '/', next to the denom named by its first segment
                let mut c = Cfg::base("C12/fresh/native/denom-containing-slash");
                c.channels = 1;
                c.funds = vec![(A, N2, 1), (A, N3, 1)];
                c.senders = vec![A];
                c.send_toks = vec![N2, N3];
                c.send_amounts = vec![1];
                c.proper = vec![Base::Tok(N2), Base::Tok(N3)];
                c.recv_amounts = vec![1, 2];
                c.bad = vec![Den::Foreign(Base::Tok(N3)), Den::OtherPort(Base::Tok(N3))];
                c.fault_bound = 1;
                c.fault_kinds = vec![Fault::Reject];
                c.raws = vec![0];
                v.push(c);
            }
            {
                // 2^64-1 is accepted, 2^64 refused, for both token kinds
                let mut c = Cfg::base("C12/edge/u64-boundary");
                c.channels = 1;
                c.tokens = 1;
                c.allow_init = vec![(0, None)];
                // two sends of 2^64-1 each are within the packet limit; together the channel then holds
                // more than 2^64-1, so a returning packet of 2^64 is covered by the balance
                c.funds = vec![(A, N0, 2 * U64MAX), (A, T1, 2 * U64MAX)];
                c.senders = vec![A];
                c.send_toks = vec![N0, T1];
                // no small amounts here: with 2^65 tokens they would make the space astronomically large
                c.send_amounts = vec![U64MAX, U64MAX + 1];
                c.proper = vec![Base::Tok(N0), Base::Tok(T1)];
                c.recv_amounts = vec![U64MAX, U64MAX + 1];
                c.bad_amounts = vec![];
                c.receivers = vec![Rcv::User(B)];
                c.raws = vec![];
                c.max_inflight = 2;
                v.push(c);
            }
            for mut c in v {
                c.props = p.clone();
                out.push((c, None));
            }
        }
        "C18" => {
            let p = Props { c18: true, ..Default::default() };
            let inits: Vec<(&str, Vec<(u8, Option<u64>)>)> = vec![
                ("allow[]", vec![]),
                ("allow[T1:unlimited]", vec![(0, None)]),
                ("allow[T1:1]", vec![(0, Some(1))]),
            ];
            // a default of 0 is a genuine default (InitMsg as well as MigrateMsg)
            let defaults: Vec<(&str, Option<u64>)> = vec![("default-none", None), ("default-2", Some(2)), ("default-0", Some(0))];
            for (an, allow) in &inits {
                for (dn, dflt) in &defaults {
                    // budget: the initial default is 2 for two of the allow lists and 0 for the third
                    if (*dn == "default-0") != (*an == "allow[T1:1]") && dflt.is_some() {
                        continue;
                    }
                    let mut c = Cfg::base(&format!("C18/{an}/{dn}"));
                    c.props = p.clone();
                    c.channels = 1;
                    c.tokens = 2;
                    c.allow_init = allow.clone();
                    c.default_gas = *dflt;
                    // the governance account itself holds the (initially unlisted) token T2 and sends it;
                    // after UpdateAdmin it is the FORMER governance
                    c.funds = vec![(A, T1, 1), (G, T2, 1), (A, N0, 1)];
                    c.senders = vec![A, G];
                    c.send_toks = vec![T1, T2, N0];
                    c.send_amounts = vec![1];
                    c.proper = vec![Base::Tok(T1), Base::Tok(T2), Base::Tok(N0)];
                    // an empty packet still issues a payout sub-call for a denom the channel tracks; offered
                    // in the smaller configurations that start with a default and a listed token (thorough: one of them): zero-amount
                    // payouts leave extra zero entries in the stores, which multiplies the state space
                    let zero = dflt.is_some() && !allow.is_empty() && (!thorough || *an == "allow[T1:unlimited]");
                    c.recv_amounts = if zero { vec![0, 1] } else { vec![1] };
                    c.receivers = vec![Rcv::User(B)];
                    c.raws = vec![];
                    c.ack_kinds = vec![AckKind::Error];
                    c.timeouts = true;
                    c.max_inflight = 2;
                    // X, a stranger to governance, is the contract's chain-level (wasm / migration) admin
                    c.wasm_admin = Some(X);
                    c.gov_actors = vec![G, G2, X];
                    c.allow_tokens = vec![0, 1];
                    // 0 and u64::MAX are genuine limits (not sentinels for "none"); u64::MAX-1 is added in
                    // the configurations that start with an unlimited token (budget)
                    c.allow_limits = if *an == "allow[T1:unlimited]" {
                        vec![None, Some(0), Some(1), Some(u64::MAX - 1), Some(u64::MAX)]
                    } else {
                        vec![None, Some(0), Some(1), Some(u64::MAX)]
                    };
                    // also the empty string and a non-address as the new admin
                    c.admin_targets = vec![G, G2, ADMIN_EMPTY, ADMIN_GARBAGE];
                    c.migrate_limits = vec![None, Some(0), Some(3)];
                    if thorough {
                        // both users send, payouts to either, one payout/refund fault per history
                        c.funds = vec![(A, T1, 1), (G, T2, 1), (A, N0, 1), (B, T2, 1)];
                        c.senders = vec![A, B, G];
                        c.receivers = vec![Rcv::User(B), Rcv::User(A)];
                        c.fault_bound = 1;
                        c.fault_kinds = vec![Fault::Reject, Fault::Gas];
                    }
                    if dflt.is_none() && (!thorough || allow.is_empty()) {
                        // a user holds a BANK coin whose denom is spelled like the unlisted token T2's cw20 denom
                        // (thorough: in the empty-allow-list configuration only, to keep the run within budget)
                        c.funds.push((A, Tok::BankNamedLikeCw20(1), 1));
                        c.send_toks.push(Tok::BankNamedLikeCw20(1));
                    }
                    if *an == "allow[T1:1]" && *dn == "default-0" {
                        // the same contract with its cw2 record naming 0.13.1 (same layout as today): an upgrade
                        // from there must keep the allow list, the default and governance (smaller alphabet)
                        let mut r = c.clone();
                        r.name = format!("C18/{an}/{dn}/store-stamped-0.13.1");
                        r.restamp = Some("0.13.1");
                        r.gov_actors = vec![G, X];
                        r.allow_limits = vec![None, Some(2)];
                        r.admin_targets = vec![G2];
                        r.senders = vec![A];
                        r.fault_bound = 0;
                        out.push((r, None));
                    }
                    out.push((c, None));
                }
            }
        }
        _ => {}
    }
    // quick and thorough variants of a configuration differ: the tier is part of the (replay) name
    for (c, _) in out.iter_mut() {
        c.name = format!("{}@{}", c.name, if thorough { "thorough" } else { "quick" });
    }
    out
}

fn describe(prop: &str) -> (&'static str, &'static str) {
    match prop {
        "C11" => (
            "user Transfer (native, with funds) and cw20 Send{TransferMsg} of 1-2 (thorough 1-3) tokens by A and B on either of two channels while < 2 (3) packets are in flight, with plain channel ids (channel-1/2, counterparty ends channel-71/72) with CROSSED ids (local channel-5 <-> remote channel-15, local channel-15 <-> remote channel-5) and with PREFIX-RELATED counterparty ids (remote channel-7 and channel-70); incoming packets on either channel with denom in {proper voucher of this channel for the sent token / a never-sent token / cw20:<garbage> / cw20:<non-contract>, voucher prefix of the OTHER channel, other port, un-prefixed foreign denom, our own port/channel prefix, doubled prefix, two-part denom, proper prefix + '<escrowed denom>/junk' and '<escrowed denom>/'}, amount in {1,2,3,2^64}, receiver in {valid user(s), invalid address}, memo unset or \"x\", raw non-ICS20 bytes; two channels escrowing 2^64-1 of the same denom each with returning packets of 2^64-1 / 2^64 / 2^65-2; old-layout storages incl. a drained denom (outstanding 0) with a send in flight, and a 0.13.0 storage migrated with/without a default limit, then stray coins sent straight to the contract's account and further Migrate calls; for every packet in flight Ack(success \"1\" | success 0x01 | success with a JSON result) | Ack(error) | Ack(garbage) | Timeout in any order; payout / refund sub-call made to fail (recipient or token rejects; every gas-limited sub-call runs out of gas), at most 1 (thorough 2) faults per history",
            "after every step, for every token: real holdings of the ics20 contract (kernel bank / cw20 Balance) >= sum over channels of Channel{id}.balances; monitor per (channel, denom): credit = escrowed by accepted transfers - really paid out (redemptions + refunds, measured as falls of the contract's real balance in steps on that channel) >= 0; a packet whose denom is not a proper voucher of this channel for a local token, or whose amount exceeds the channel balance reported before the step, or that is not ICS-20 data moves no bank or cw20 balance at all; holdings never move in governance / migrate steps",
        ),
        "C12" => (
            "the C11 alphabet over the governance configurations {no allow list & no default, T1 listed with limit, T1 listed + T2 admitted by the default limit, unlisted token allowed later by governance, (thorough) unlimited, native+cw20}; storages built byte-wise under the literal legacy keys in the 0.11.1 and 0.12.0-alpha1 layout (v1 ics20_config = {default_timeout, gov_contract}, no admin item, no allow list, cw20 T1 outstanding and escrowed, one more T1 send still in flight and not yet counted) and in the 0.13.0 layout (sends in flight escrowed but not yet counted; also a 0.13.0 storage with TWO channels carrying the same denominations, whose migration the real code refuses), each followed by Migrate{None | Some(2)} and then transfers, packets, acks, timeouts, Allow by governance; same-version Migrate{None|Some} at every reachable state; transfers with requested / default timeout, memo set / unset / empty at two block times; amounts 1, 2^64-1, 2^64 for native and cw20 (two sends of 2^64-1 so that a returning packet of 2^64 is covered); two native denoms differing in letter case only on two channels; a token listed as unlimited with no default; Migrate{None} while a token sent under the default is in flight; a bank denom containing '/' (\"uusd/vault-7\") next to \"uusd\"; a bank coin whose denom is literally \"cw20:<T1>\"",
            "reference per (channel, denom): outstanding = accepted sends - sends whose error-ack/timeout was processed - amounts of incoming packets answered with a success ack, compared with Channel{id}.balances after every step; total_sent never falls; per incoming packet: ibc_packet_receive never returns Err/panics; success ack => receiver's real balance rose by exactly the amount and the channel balance fell by it; a timeout / error ack for a send the channel balance covers (native, or cw20 listed / under a default in the reference) never aborts; error ack => ALL Channel queries, all bank and cw20 balances, Config, Admin, ListAllowed, Allowed and the packets in flight equal the pre-state; per accepted transfer: exactly one committed IbcMsg::SendPacket, by the ics20 contract, on the requested channel, data == {amount (<= 2^64-1), denom (native name | cw20:<token>), receiver, sender = paying user, memo iff requested}, timeout timestamp == block time + (requested | default) seconds, contract holdings rose and payer's balance fell by the amount; migrations leave balances alone and arrive at outstanding == escrow",
        ),
        "C18" => (
            "initial allow lists [] | [T1:unlimited] | [T1:1] x default gas limit None | 2; Allow{T1|T2, None|0|1|2^64-2|2^64-1} (0 and u64::MAX are genuine limits) and UpdateAdmin{G|G2|\"\"|\"not-an-address\"} by governance G, the later/former governance G2 and a stranger X who is the contract's chain-level (wasm) admin; initial default gas limit None | 2 | 0; Migrate{None|0|3} at every state; cw20 transfers of T1 (by user A) and of T2 (by the governance account G itself, which becomes the former governance after UpdateAdmin), native transfers, and transfers of a BANK coin whose denom is literally \"cw20:<T2>\"; incoming packets redeeming them, also with amount 0; error acks and timeouts that trigger refunds",
            "reference {gov, allow: token -> limit, default} == Admin, Config.gov_contract, Config.default_gas_limit, fully paged ListAllowed, Allowed{T1}, Allowed{T2} after every step; Allow / UpdateAdmin accepted only from the reference governance; admin, allow list and default change in no other step (migrate may set, never unset, the default); a listed token never disappears, its limit never falls, unlimited stays unlimited (checked against the reference and, independently, pre vs. post listing); a cw20 transfer is accepted only if the token is listed or a default exists; every payout / refund sub-message dispatched by the contract carries gas_limit == allow[token] if listed (None if unlimited) else the default, native payouts carry none; a cw20 token that is listed or covered by a default stays redeemable: a returning voucher / error ack / timeout whose amount the channel balance covers issues a payout sub-call to the token",
        ),
        _ => ("", ""),
    }
}

fn run(prop: &str, tier: &str) -> i32 {
    let thorough = tier == "thorough";
    let cfgs = configs(prop, thorough);
    if cfgs.is_empty() {
        eprintln!("fam-ics20 does not serve {prop}");
        return 2;
    }
    let mut cfgs = cfgs;
    let filter = std::env::var("ICS20_ONLY").ok();
    if let Some(f) = &filter {
        cfgs.retain(|(c, _)| c.name.contains(f.as_str()));
        eprintln!("NOTE: ICS20_ONLY={f}: exploring {} configuration(s) only", cfgs.len());
        if cfgs.is_empty() {
            return 2;
        }
    }
    let known = Known::load(prop);
    let mut rep = Report::new(prop, tier, "ics20");
    if let Some(f) = &filter {
        rep.extra.insert("configuration_filter".into(), serde_json::json!(f));
    }
    let (alpha, oracle) = describe(prop);
    rep.alphabet = alpha.into();
    rep.oracle = oracle.into();
    rep.bounds = "every configuration is a closed system (finite funds, at most 2-3 packets in flight, clock capped, bounded number of injected faults kept in the state) and is explored breadth-first to its fixpoint; state cap 8e6 / time cap per configuration".into();
    rep.assumptions = vec![
        "IBC driver: storage written by ibc_packet_receive is committed whenever the entry point returns Ok, whatever acknowledgement it chose; a reply that sets data replaces the acknowledgement".into(),
        "IBC driver: Err or panic from any entry point (execute, ibc_packet_receive/ack/timeout, reply, migrate) reverts the whole step; a packet whose ack/timeout callback failed stays in flight".into(),
        "IBC driver: a sent packet is acknowledged or timed out at most once and only if it was sent; packet.src/dest carry the channel's true endpoints; denom, amount, receiver and raw bytes of incoming packets are adversarial".into(),
        "fault injection: the payout/refund sub-call of one IBC step fails because the recipient/token rejects or because every gas-limited sub-call runs out of gas; gas is not metered otherwise".into(),
        "ChannelState.total_sent is left out of the state key (it is write-only for the contract; clauses about it are per-transition), packet sequence numbers are normalised (no entry point reads them)".into(),
        "amount alphabet is {1,2,3} plus the 2^64 boundary values, not all of u128; channels are opened with the real ibc_channel_open/connect (ics20-1, unordered)".into(),
    ];
    // One OS thread + one private rayon pool per configuration: mc::bfs parallelises each level
    // with par_iter, and inside a shared pool a waiting BFS would steal (and run to completion)
    // another configuration's whole search, which falsifies the per-configuration time caps.
    let seed = mc::report::seed();
    let threads = std::thread::available_parallelism().map(|n| n.get()).unwrap_or(8);
    let per = (threads / cfgs.len().min(3)).max(2);
    let runs: Vec<RunStats> = std::thread::scope(|sc| {
        let hs: Vec<_> = cfgs
            .iter()
            .map(|(c, d)| {
                let known = &known;
                sc.spawn(move || {
                    let m = Ics20Model { cfg: c.clone(), steps: Default::default() };
                    let b = Bounds {
                        max_depth: *d,
                        max_states: 8_000_000,
                        max_secs: if thorough { 3000.0 } else { 300.0 },
                    };
                    let pool = rayon::ThreadPoolBuilder::new().num_threads(per).build().expect("thread pool");
                    let verbose = std::env::var("ICS20_VERBOSE").is_ok();
                    let done = std::sync::atomic::AtomicBool::new(false);
                    std::thread::scope(|s2| {
                        if verbose {
                            s2.spawn(|| {
                                let t0 = std::time::Instant::now();
                                let mut last = 0u64;
                                while !done.load(std::sync::atomic::Ordering::Relaxed) {
                                    std::thread::sleep(std::time::Duration::from_millis(500));
                                    let secs = t0.elapsed().as_secs();
                                    if secs >= last + 60 {
                                        last = secs;
                                        eprintln!("  .. {} {}s transitions={}", m.cfg.name, secs, m.steps.load(std::sync::atomic::Ordering::Relaxed));
                                    }
                                }
                            });
                        }
                        let r = pool.install(|| mc::bfs(&m, &b, known, seed));
                        done.store(true, std::sync::atomic::Ordering::Relaxed);
                        if verbose {
                            eprintln!(
                                "  {:62} states={:8} trans={:10} depth={:3} fix={} cap={:?} wall={:.1}s",
                                r.config, r.states, r.transitions, r.depth_completed, r.fixpoint, r.cap_hit, r.wall_s
                            );
                        }
                        r
                    })
                })
            })
            .collect();
        hs.into_iter().map(|h| h.join().expect("explorer thread panicked")).collect()
    });
    rep.runs = runs;
    rep.finish()
}

fn main() {
    mc::world::silence_panics();
    let a = mc::parse_args();
    let code = if a.cmd == "replay" {
        let rf = load_replay(a.path.as_deref().unwrap_or(""));
        let all: Vec<(Cfg, Option<usize>)> = configs(&rf.property, false)
            .into_iter()
            .chain(configs(&rf.property, true))
            .collect();
        match all.into_iter().find(|(c, _)| c.name == rf.config) {
            Some((c, _)) => run_replay(&Ics20Model { cfg: c, steps: Default::default() }, &rf),
            None => {
                eprintln!("machinery error: unknown config {}", rf.config);
                2
            }
        }
    } else {
        run(&a.cmd, &a.tier)
    };
    std::process::exit(code);
}
