fn main() {
    eprintln!("fam-ics20: not built yet");
    std::process::exit(2);
}
