#!/usr/bin/env python3
"""Regenerates MANIFEST.json from the table below (kept in one place so it stays valid)."""
import json
LEVEL_NOTE = ("Trusted: rustc, cosmwasm-std/cw-storage-plus/cw-utils/cw-controllers as compiled, MockApi bech32 rules, the "
              "kernel's transaction/sub-message/reply rules (cross-validated against cw-multi-test by ./check kernel-diff), "
              "128-bit state fingerprints. Bounded: small actor sets, amounts {0..3}+boundary values, capped clock; see evidence.")
CHECKS = {
 "C01": ("fam-cw20", "explicit-state BFS over the real cw20-base entry points to fixpoint (closed configs) / depth bound (u128 edge configs); invariant supply == sum of listed balances + per-step supply/balance deltas + lock-step reference ledger", "5 C01"),
 "C02": ("fam-cw20", "explicit-state BFS over real cw20-base with every expiry kind and block advance; reference ledger decides which accepted calls were authorised; message oracle for Send/SendFrom", "5 C02"),
 "C13": ("fam-cw20", "explicit-state BFS over real cw20-base mint/burn/update-minter histories to fixpoint; reference {minter, cap}", "5 C13"),
 "C19": ("fam-cw20", "explicit-state BFS over allowance histories to fixpoint, three-view agreement in every state, migration from pre-0.14 layout applied at every reachable state", "5 C19"),
 "C03": ("fam-cw3", "explicit-state BFS over real cw3-fixed and cw3-flex(+cw4-group) to fixpoint per configuration; status compared in every state with an independent exact-arithmetic outcome function over all completions of the outstanding votes", "5 C03"),
 "C04": ("fam-cw3", "complete enumeration of the tally lattice of cw3::Proposal with backward dynamic programming (AG/EF over vote completions) plus a 2^64 boundary grid, under several clocks (height boundary, sub-second time expiry, never); exact u128 arithmetic oracle", "5 C04"),
 "C05": ("fam-cw3", "explicit-state BFS with fault injection (failing receiver) and re-entrant proposals in the kernel; dispatch-trace oracle (at most once, as proposed, only while Passed, authorised) and status automaton", "5 C05"),
 "C06": ("fam-cw3", "explicit-state BFS placing group updates (cw4-group UpdateMembers, or bond/unbond on a cw4-stake backed group) before/in/after the proposal block; block-start snapshot reference vs ballots and totals", "5 C06"),
 "C15": ("fam-cw3", "explicit-state BFS over deposit histories with real bank/cw20 balances vs deposit ledger; bounded exhaustive reachability search (EF) for recoverability of failed deposits", "5 C15"),
 "C07": ("fam-cw1", "explicit-state BFS over the grant machine of cw1-whitelist / cw1-subkeys to fixpoint with Execute probes of every message kind and ordered pair by every caller class at every state; independent covered() predicate and message-equality oracle", "5 C07"),
 "C08": ("fam-cw1", "explicit-state BFS over allowance grant/decrease/spend/advance histories to fixpoint; reference allowance ledger compared through queries after every step; cumulative monitor in depth-bounded configs", "5 C08"),
 "C16": ("fam-cw1", "at every reachable state x sender class x message: CanExecute query compared with Execute on a copy of the state (exhaustive BFS over states)", "5 C16"),
 "C17": ("fam-cw1", "explicit-state BFS over admin/freeze/grant histories to fixpoint; reference {admins, mutable}", "5 C17"),
 "C20": ("fam-paging", "exhaustive sweep of the pager state machine (listing x store size x limit x cursor) over stores built through the real entry points; expected pages derived from point queries", "5 C20"),
 "C09": ("fam-cw4", "explicit-state BFS over cw4-group update histories and cw4-stake bond/unbond histories (kernel with bank) to fixpoint under a capped clock; reference = true membership at the start of every block, compared with Member/TotalWeight at every height, paged ListMembers and the raw keys", "5 C09"),
 "C10": ("fam-cw4", "explicit-state BFS over cw4-stake with native and real cw20 stake tokens in the kernel to fixpoint (finite funds) plus depth-bounded 2^64/2^128 edge configs; reference ledger of stakes and claims vs real holdings, Staked/Claims/Member queries", "5 C10"),
 "C14": ("fam-cw4", "explicit-state BFS over admin/hook/membership histories of cw4-group and cw4-stake to fixpoint; reference {admin, hooks, members}; hook notifications folded per address against true previous/new weights", "5 C14"),
 "C11": ("fam-ics20", "explicit-state BFS over the real cw20-ics20 entry points (execute, ibc_packet_receive/ack/timeout, reply) in the kernel with an IBC driver, adversarial incoming packets and injected payout failures (fault bound); solvency invariant per token and paid<=escrowed monitors per channel", "5 C11"),
 "C12": ("fam-ics20", "same exploration with an honest-counterparty reference of outstanding = sent - failed - redeemed, error-ack => whole observable world unchanged, packet content oracle, over governance configurations and byte-built pre-allow-list storages followed by migrate", "5 C12"),
 "C18": ("fam-ics20", "explicit-state BFS over Allow/UpdateAdmin/migrate/transfer histories to fixpoint; reference {gov, allow list, default}; gas_limit of every payout sub-message read from the kernel dispatch trace", "5 C18"),
}
TODO = {}
props = [json.loads(l) for l in open('/verif/properties.jsonl')]
checks, na = [], []
for p in props:
    i = p['id']
    if i in CHECKS:
        eng, tech, ref = CHECKS[i]
        checks.append({
            "property_id": i,
            "quick_cmd": f"./check {i} --tier quick",
            "thorough_cmd": f"./check {i} --tier thorough",
            "evidence_file": f"/verif/evidence/{i}.json",
            "replay_cmd_template": "./check replay {path}",
            "engine": eng,
            "level_claimed": {"category": "model_checking",
                              "text": "Exhaustive breadth-first exploration of every action sequence over a small colliding alphabet, executed on the real contract entry points compiled from /repo, with de-duplication on the full contract storage; the oracle is evaluated on every transition and state. Closed configurations are explored to fixpoint, so within the alphabet the verdict covers histories of every length; others to a stated depth.",
                              "design_ref": f"DESIGN.md §{ref}"},
            "level_note": LEVEL_NOTE,
            "technique": "explicit-state model checking (exhaustive BFS) of the implementation: " + tech,
        })
    else:
        na.append({"property_id": i, "reason": TODO.get(i, "check not built yet in this round (designed in DESIGN.md §5); not claimed until its explorer exists")})
m = {
 "version": 1,
 "setup_cmd": "cd /verif/harness && CARGO_NET_OFFLINE=true cargo build --release --offline " + " ".join("-p " + e for e in sorted(set(c[0] for c in CHECKS.values()))) + " -p kernel-diff && cd /verif && (./check kernel-diff --tier quick || echo 'kernel-diff did not pass: see its output; family checks still run')",
 "hooks": {"guard": "cwplus_verif", "enable": "none needed: all observation points are public entry points; the guard name is reserved and unused",
           "baseline_off_cmd": "cd /repo && cargo test --workspace --no-fail-fast --offline", "source_commits": [], "add_only": True},
 "engines": [
   {"name": "mc", "path": "/verif/harness/mc", "serves_properties": [c["property_id"] for c in checks], "kind_free_text": "deterministic cloneable mini-chain kernel + level-synchronous parallel BFS explorer + evidence/replay/known-finding reporting"},
   {"name": "fam-cw20", "path": "/verif/harness/fam-cw20", "serves_properties": ["C01","C02","C13","C19"], "kind_free_text": "cw20-base alphabets, reference ledger and oracles"},
   {"name": "fam-cw1", "path": "/verif/harness/fam-cw1", "serves_properties": ["C07","C08","C16","C17"], "kind_free_text": "cw1-whitelist / cw1-subkeys grant machine, probes, reference ledger"},
   {"name": "fam-cw4", "path": "/verif/harness/fam-cw4", "serves_properties": ["C09","C10","C14"], "kind_free_text": "cw4-group / cw4-stake (+bank, real cw20-base) history reference, stake ledger, hook-diff oracle"},
   {"name": "fam-ics20", "path": "/verif/harness/fam-ics20", "serves_properties": ["C11","C12","C18"], "kind_free_text": "cw20-ics20 with IBC driver (channel open/connect, receive, ack, timeout), fault injection, migrated storages"},
   {"name": "fam-paging", "path": "/verif/harness/fam-paging", "serves_properties": ["C20"], "kind_free_text": "pager state machine sweep over all 21 list queries"},
   {"name": "kernel-diff", "path": "/verif/harness/kernel-diff", "serves_properties": [], "kind_free_text": "conformance of the kernel to cw-multi-test 2.0.0: exhaustive differential replay of all action sequences up to a depth in 8 scenarios (./check kernel-diff); exit 2 on disagreement"},
   {"name": "sr-cross", "path": "/verif/harness/sr-cross", "serves_properties": [], "kind_free_text": "engine cross-validation: the same models explored with stateright 0.31 BFS; unique-state counts and verdicts must agree with mc::bfs (cargo run -p sr-cross)"},
   {"name": "fam-cw3", "path": "/verif/harness/fam-cw3", "serves_properties": ["C03","C04","C05","C06","C15"], "kind_free_text": "cw3-fixed/cw3-flex(+cw4-group, cw20-base, sink) alphabets, exact threshold spec, tally-lattice DP, dispatch and deposit oracles"},
 ],
 "checks": checks,
 "not_applicable": na,
 "notes": "All checks: exit 0 held / only KNOWN-FINDING lines, exit 1 + VIOLATION line, exit 2 machinery error. Known findings: /verif/known_findings.json.",
}
json.dump(m, open('/verif/MANIFEST.json','w'), indent=1)
print(len(checks), "claimed;", len(na), "not claimed")
